"""C56 - upsert statements insert or update exactly as their conflict clause says."""
import re

ID = "C56"
LEVEL = "proof"
PROPS = "props/C56.v"
RUNNER = ("SAV.sql.UpsertRun", "run_case")
STATIC_MODULES = ["SAV.sql.UpsertRun"]
RULE = (
    "family exec (SQLite, executed for real): random existing tables (<= 4 rows, NULLs, a primary key, a unique "
    "constraint and a partial composite unique index) x 1..4 parameter sets (duplicates and conflicts on one or several "
    "indexes likely) x 1..3 ON CONFLICT clauses (targets by column object / name, with and without index_where, "
    "resolvable or not; DO NOTHING / DO UPDATE with 1..3 SET items keyed by column key, column name or Column object, "
    "values using excluded.*, table columns, literals, NULL and per-row bindparam(); optional WHERE) x "
    "{no RETURNING, RETURNING, RETURNING sort_by_parameter_order} x insertmanyvalues page size {1,2,3,1000}; "
    "family sequence: 2-4 upserts on ONE fresh engine (compiled cache on) differing in exactly one clause component "
    "(where / SET value / SET key / index_elements / index_where / action), each compared with the cache-free model; "
    "family typed: SET on a column with a bind-processing datatype, keyed by string or Column object, value a Python "
    "literal / bindparam / excluded / NULL, on conflicting rows; family bindparam-flavour: bindparam(name) and "
    "bindparam(name, None) in SET values under executemany + RETURNING and bindparam(name, default) supplied by the parameter sets, and parameter sets that OMIT a bindparam(name, None); "
    "family render-sqlite / render-pg (ON CONSTRAINT included) and render-mysql (dict and ordered-list arguments, "
    "VALUES() and row-alias forms): the clause text tokenised and compared with the model's rendering; family "
    "batch-decision: all 64 flag combinations driven through the real _deliver_insertmanyvalues_batches; family plan-pg: "
    "PostgreSQL compilation + real batch delivery (not executed): statement sizes and the bindparam values each row runs with. "
    "non-trivial = exec case in which at least one parameter set clashes with an existing or earlier row, or a render "
    "case with >= 2 SET items"
)
TRUSTED = [
    "hand-written Gallina transcription of _on_conflict_target / visit_on_conflict_do_nothing / visit_on_conflict_do_update "
    "(sqlite and postgresql), OnConflictClause._append_to_existing, visit_on_duplicate_key_update, OnDuplicateClause.__init__, "
    "the row-at-a-time decision of _deliver_insertmanyvalues_batches and the is_upsert_set detection in visit_bindparam; "
    "pinned by translate/fingerprint.py and compared behaviourally on every run",
    "reference upsert semantics (coq/sql/Upsert.v): validated against SQLite 3.40 on every run through the exec family; "
    "TRUSTED (never executed here) for PostgreSQL (index inference, ON CONSTRAINT) and MySQL (any-unique-key, "
    "left-to-right assignment)",
    "the tokeniser of the harness (regular expression over the compiled string, bound parameters substituted by their "
    "compiled values) and the intern table of identifiers",
    "the order in which a database returns the RETURNING rows of one multi-row statement is arbitrary (Section variable "
    "shuffle with a Permutation hypothesis)",
]
ASSUMPTIONS = [
    "integer / NULL values only; the primary key value is always supplied and not NULL",
    "the ON CONFLICT clauses of one statement designate pairwise different indexes (SQLite 3.40 itself misbehaves on "
    "a repeated conflict target: measured, documented in the final report) and DO UPDATE always carries a conflict target",
    "index_where contains no bindparam() and no excluded reference",
    "set_ keys resolve to pairwise different columns; identifiers need no quoting (quoting is C06)",
    "page size x parameters per row stays below the dialect's insertmanyvalues_max_parameters",
]
ANCHORS = [
    ("lib/sqlalchemy/dialects/sqlite/base.py", "SQLiteCompiler._on_conflict_target"),
    ("lib/sqlalchemy/dialects/sqlite/base.py", "SQLiteCompiler.visit_on_conflict_do_nothing"),
    ("lib/sqlalchemy/dialects/sqlite/base.py", "SQLiteCompiler.visit_on_conflict_do_update"),
    ("lib/sqlalchemy/dialects/sqlite/dml.py", "OnConflictClause._append_to_existing"),
    ("lib/sqlalchemy/dialects/sqlite/dml.py", "OnConflictDoUpdate.__init__"),
    ("lib/sqlalchemy/dialects/postgresql/base.py", "PGCompiler._on_conflict_target"),
    ("lib/sqlalchemy/dialects/postgresql/base.py", "PGCompiler.visit_on_conflict_do_nothing"),
    ("lib/sqlalchemy/dialects/postgresql/base.py", "PGCompiler.visit_on_conflict_do_update"),
    ("lib/sqlalchemy/dialects/mysql/base.py", "MySQLCompiler.visit_on_duplicate_key_update"),
    ("lib/sqlalchemy/dialects/mysql/dml.py", "OnDuplicateClause.__init__"),
]

# ------------------------------------------------------------------ identifiers
NAMES = ["id", "k", "v", "w", "vk", "zz", "uq_k", "ix_vw", "pk_t", "kk", "p"]
SPECIAL = {"t": -1, "excluded": -2, "new": -3}
KW = ["ON", "CONFLICT", "DO", "NOTHING", "UPDATE", "SET", "WHERE", "NULL", "CONSTRAINT", "DUPLICATE", "KEY", "VALUES", "AS"]


def nm(i):
    return NAMES[i]


def ni(s):
    return NAMES.index(s)


# schemas: cols [[key, name]...] (column 0 is the integer primary key), indexes [[name, cols, optpred]]
GT_W0 = [2, [0, [2, 3]], [0, [0, 1, 0]]]  # w > 0   (constant rendered inline)
SCHEMAS = [
    (
        [[0, 0], [1, 1], [4, 2], [3, 3]],  # id, k, v (key "vk"), w
        [[8, [0], []], [6, [1], []], [7, [2, 3], [GT_W0]]],
    ),
    (
        [[0, 0], [9, 1], [2, 2], [3, 3]],  # id, k (key "kk"), v, w
        [[8, [0], []], [6, [1], []]],
    ),
    (
        # id, k, v, w, p  - p has a datatype with bind/result processing (TypeDecorator storing value + 100)
        [[0, 0], [1, 1], [2, 2], [3, 3], [10, 10]],
        [[8, [0], []], [6, [1], []]],
    ),
]

# ------------------------------------------------------------------ pin
def translate(repo, outdir):
    from translate import fingerprint

    fingerprint.check(repo, ANCHORS, "C56")
    import ast, os

    # the two detection points the batching model depends on must still be present (fail closed)
    src = open(os.path.join(repo, "lib/sqlalchemy/sql/compiler.py")).read()
    tree = ast.parse(src)
    fn = fingerprint.find_node(tree, "SQLCompiler._deliver_insertmanyvalues_batches")
    tests = []
    for n in ast.walk(fn):
        if isinstance(n, ast.If):
            t = ast.unparse(n.test)
            if "supports_multivalues_insert" in t or "has_upsert_bound_parameters" in t or "is_default_expr" in t:
                tests.append(t)
    want = [
        "imv.is_default_expr and (not self.dialect.supports_default_metavalue)",
        "not self.dialect.supports_multivalues_insert or (sort_by_parameter_order and self._result_columns and "
        "(imv.sentinel_columns is None or (imv.includes_upsert_behaviors and (not imv.embed_values_counter))))",
        "imv.has_upsert_bound_parameters and (not imv.embed_values_counter) and self._result_columns",
    ]
    if tests != want:
        raise fingerprint.TranslateError(
            "row-at-a-time decision of _deliver_insertmanyvalues_batches differs from the modelled expression: %r" % (tests,)
        )
    vb = ast.unparse(fingerprint.find_node(tree, "SQLCompiler.visit_bindparam"))
    want_vb = (
        "if is_upsert_set and self._insertmanyvalues is not None and (bindparam.value is None and bindparam.callable is None "
        "or (self.column_keys is not None and bindparam.key in self.column_keys)):\n"
        "        self._insertmanyvalues = self._insertmanyvalues._replace(has_upsert_bound_parameters=True)"
    )
    if want_vb not in vb:
        raise fingerprint.TranslateError("visit_bindparam: upsert SET bound-parameter detection differs from the model")
    # every attribute the ON CONFLICT clause constructors assign must take part in traversal / cache key
    for rel in ("lib/sqlalchemy/dialects/sqlite/dml.py", "lib/sqlalchemy/dialects/postgresql/dml.py"):
        mod = ast.parse(open(os.path.join(repo, rel)).read())
        consts = {}
        for cname in ("OnConflictClause", "OnConflictDoUpdate"):
            cls = fingerprint.find_node(mod, cname)
            assigned = set()
            init = fingerprint.find_node(cls, "__init__")
            for n in ast.walk(init):
                if isinstance(n, (ast.Assign, ast.AnnAssign)):
                    tgts = n.targets if isinstance(n, ast.Assign) else [n.target]
                    for tg in tgts:
                        for x in ast.walk(tg):
                            if isinstance(x, ast.Attribute) and isinstance(x.value, ast.Name) and x.value.id == "self":
                                assigned.add(x.attr)
            ti = fingerprint.find_node(cls, "_traverse_internals")
            names = {x.value for x in ast.walk(ti) if isinstance(x, ast.Constant) and isinstance(x.value, str)}
            consts[cname] = names
            listed = set(names) | (consts.get("OnConflictClause", set()) if cname == "OnConflictDoUpdate" else set())
            missing = sorted(assigned - listed)
            if missing:
                raise fingerprint.TranslateError(
                    "%s: %s.__init__ assigns %s but _traverse_internals does not list it (not in the cache key)" % (rel, cname, missing)
                )
    cr = open(os.path.join(repo, "lib/sqlalchemy/sql/crud.py")).read()
    if "dialect.use_insertmanyvalues_wo_returning\n" not in cr or "and stmt._post_values_clause is None" not in cr:
        raise fingerprint.TranslateError("crud.py: insertmanyvalues without RETURNING is no longer disabled for upserts")
    return []


# ------------------------------------------------------------------ generators
def _atom(rng, par, nul=False, ncol=4):
    k = rng.choice(["c", "col", "exc", "exc", "col"] + (["par"] if par else []) + (["null"] if nul else []))
    if k == "c":
        return [0, 0, rng.randint(-1, 3)]
    if k == "null":
        return [1]
    if k == "col":
        return [2, rng.randrange(ncol)]
    if k == "exc":
        return [3, rng.randrange(ncol)]
    return [rng.choice([4, 4, 5]), rng.randrange(2)]


def _expr(rng, par, nul=False):
    if rng.random() < 0.35:
        return [1, _atom(rng, par), _atom(rng, par)]
    return [0, _atom(rng, par, nul)]


def _pred(rng, par):
    return [rng.randrange(3), _expr(rng, par), _expr(rng, par)]


def _row(rng):
    return [rng.randint(1, 6), rng.choice([None, 0, 1, 2, 3, 4]), rng.choice([None, 0, 1, 2]), rng.choice([None, -1, 0, 1, 2])]


def _target(rng, sch, which, cols):
    """which: index number of the schema, or 'bad' (no such index)"""
    ixs = sch[1]
    if which == "bad":
        cs, w = [2, 3] if len(ixs) < 3 else [1, 2], []
    else:
        cs, w = list(ixs[which][1]), list(ixs[which][2])
        if rng.random() < 0.25:
            cs.reverse()
        if not w and rng.random() < 0.12:
            w = [GT_W0]  # a predicate on a non-partial index is ignored by the database
        if w and rng.random() < 0.12:
            w = []  # a partial index is not designated without its predicate
        if w and rng.random() < 0.1:
            w = [[2, [0, [2, 3]], [0, [0, 0, 0]]]]  # same predicate with a BOUND literal (literal_execute)
    elems = [([0, cols[c][1]] if rng.random() < 0.3 else [1, c]) for c in cs]
    return [1, elems, w]


def _sets(rng, cols, par, n):
    out = []
    for c in rng.sample([1, 2, 3], n):
        r = rng.random()
        if r < 0.45:
            key = [0, cols[c][0]]  # the column's key
        elif r < 0.75:
            key = [1, c]  # the Column object
        else:
            key = [0, cols[c][1]]  # the column's NAME (an "additional" name when key != name)
        out.append([key, _expr(rng, par, nul=True)])
    if rng.random() < 0.04:
        out.append([[0, 5], [0, [0, 0, 1]]])  # a name that is no column at all
    return out


def _clauses(rng, sch, par):
    cols, ixs = sch
    n = rng.choice([1, 1, 1, 2, 2, 3])
    order = list(range(len(ixs)))
    rng.shuffle(order)
    out = []
    for i in range(n):
        last = i == n - 1
        if i >= len(order):
            break
        which = order[i]
        if rng.random() < 0.06:
            which = "bad"
        notarget = last and rng.random() < 0.25
        if rng.random() < 0.02:
            notarget = True  # possibly not last: construct-time error
        if notarget or rng.random() < 0.3:
            out.append([0, [0] if notarget else _target(rng, sch, which, cols)])
        else:
            out.append(
                [1, _target(rng, sch, which, cols), _sets(rng, cols, par, rng.randint(1, 3)), [_pred(rng, par)] if rng.random() < 0.4 else []]
            )
    return out


def _exec_case(rng, kind="exec"):
    sch = SCHEMAS[0] if rng.random() < 0.75 else SCHEMAS[1]
    existing = []
    for _ in range(rng.randint(0, 4)):
        r = _row(rng)
        if _first_clash(sch[1], r, existing) is None:
            existing.append(r)
    rows = [_row(rng) for _ in range(rng.randint(1, 4))]
    if len(rows) > 1 and rng.random() < 0.3:
        rows[-1] = list(rows[0])
    par = rng.random() < 0.4
    ps = [[r, [rng.randint(0, 3), rng.choice([None, 1, 5])]] for r in rows]
    ret = rng.random() < 0.7
    srt = ret and rng.random() < 0.4
    page = rng.choice([1, 2, 3, 1000])
    return {"in": [0, 1, sch[0], sch[1], _clauses(rng, sch, par), int(ret), int(srt), page, existing, ps], "kind": kind}


def _render_case(rng, d):
    sch = SCHEMAS[rng.randrange(2)]
    cl = _clauses(rng, sch, True)
    if d == 1:
        cl = cl[-1:]
        if cl[0][0] == 1 and cl[0][1] == [0]:
            cl[0][1] = [2, 6]
        elif rng.random() < 0.3:
            cl[0][1] = [2, rng.choice([6, 8])]
    return {"in": [1, d, sch[0], cl], "kind": "render-pg" if d else "render-sqlite"}


def _mysql_case(rng):
    sch = SCHEMAS[rng.randrange(2)]
    cols = sch[0]
    keys = [c[0] for c in cols] + [5]
    n = rng.randint(1, 4)
    ordered = rng.random() < 0.5
    ks = [rng.choice(keys) for _ in range(n)] if ordered and rng.random() < 0.3 else rng.sample(keys, n)
    upd = [[k, _expr(rng, True, nul=True)] for k in ks]
    return {"in": [2, cols, int(rng.random() < 0.5), int(ordered), upd], "kind": "render-mysql"}


def _plan_case(rng):
    """PostgreSQL compilation + the real batch delivery, not executed: which statements, with which bindparams"""
    sch = SCHEMAS[1]
    cols = sch[0]
    par_set = rng.random() < 0.5
    par_where = rng.random() < 0.4
    sets = [[[0, 3], [0, [4, 0]] if par_set else [0, [3, 3]]]]
    if rng.random() < 0.5:
        sets.append([[1, 2], [1, [2, 2], [4, 1]] if par_set and rng.random() < 0.5 else [0, [3, 2]]])
    w = [[rng.randrange(3), [0, [2, 2]], [0, [4, 1]] if par_where else [0, [3, 2]]]] if rng.random() < 0.6 else []
    if rng.random() < 0.15:
        cl = [0, [1, [[1, 1]], []]]
    else:
        cl = [1, [1, [[1, 1]], []], sets, w]
    ret = int(rng.random() < 0.8)
    srt = int(ret and rng.random() < 0.5)
    embed = rng.randrange(2) if srt else 0  # the counter is only embedded for sort_by_parameter_order
    ps = [[_row(rng), [rng.randint(0, 9), rng.randint(10, 19)]] for _ in range(rng.randint(1, 5))]
    return {"in": [5, embed, [cl], ret, srt, rng.choice([1, 2, 3, 1000]), ps], "kind": "plan-pg"}


def _conflict_data(rng, ncol, ixs=()):
    """existing rows with ids 1..3 and parameter sets that mostly hit them, with differing bindparam values"""
    existing = []
    for i in (1, 2, 3):
        r = [i, 10 + i, rng.randint(0, 3), rng.randint(0, 3)] + ([rng.randint(0, 9)] if ncol == 5 else [])
        if _first_clash(ixs, r, existing) is None:
            existing.append(r)
    ps = []
    ids = rng.sample([1, 2, 3, 4, 5], rng.randint(2, 4))
    for j, i in enumerate(ids):
        ps.append([[i, 20 + i + j, rng.randint(0, 3), rng.randint(0, 3)] + ([rng.randint(10, 19)] if ncol == 5 else []), [30 + j, 40 + j]])
    return existing, ps


def _seq_case(rng):
    """statements on ONE engine that differ in exactly one component of the conflict clause"""
    sch = SCHEMAS[rng.choice([0, 1])]
    cols = sch[0]
    tg_id = [1, [[1, 0]], []]
    tg_k = [1, [[1, 1]], []]
    wheres = [
        [],
        [[0, [0, [2, 2]], [0, [3, 2]]]],  # t.v < excluded.v
        [[2, [0, [2, 2]], [0, [3, 2]]]],  # t.v > excluded.v
        [[0, [0, [2, 2]], [0, [0, 0, 2]]]],  # t.v < 2
        [[0, [0, [2, 2]], [0, [0, 0, 0]]]],  # t.v < 0
        [[0, [0, [2, 3]], [0, [0, 0, 2]]]],  # t.w < 2
        [[1, [0, [2, 2]], [0, [0, 0, 1]]]],  # t.v = 1
    ]
    setvals = [[0, [3, 3]], [0, [0, 0, 7]], [0, [0, 0, 8]], [1, [2, 3], [0, 0, 1]], [0, [3, 2]], [0, [1]]]
    what = rng.choice(["where", "where", "where", "setval", "setkey", "target", "iwhere", "action"])
    base_w = rng.choice(wheres)
    base_v = rng.choice(setvals)
    n = rng.randint(2, 4)
    seq = []
    for i in range(n):
        w, v, tg, key = base_w, base_v, tg_id, [0, cols[3][0]]
        if what == "where":
            w = wheres[(wheres.index(base_w) + i) % len(wheres)] if i else base_w
        elif what == "setval":
            v = setvals[(setvals.index(base_v) + i) % len(setvals)]
        elif what == "setkey":
            key = [[0, cols[3][0]], [0, cols[2][0]], [1, 3], [1, 2]][i % 4]
        elif what == "target":
            tg = [tg_id, tg_k][i % 2]
        elif what == "iwhere":
            tg = [1, [[1, 0]], [] if i % 2 else [GT_W0]]
        if what == "action" and i % 2:
            seq.append([[0, tg]])
        else:
            seq.append([[1, tg, [[key, v]], w]])
    existing, ps = _conflict_data(rng, 4, sch[1])
    ret = int(rng.random() < 0.6)
    return {"in": [6, 1, cols, sch[1], seq, ret, int(ret and rng.random() < 0.5), 1000, existing, ps], "kind": "sequence"}


def _typed_case(rng):
    """SET on a column whose datatype processes bound values, keyed by string / Column object, value a Python
    literal, a bindparam(), excluded.p or NULL; conflicting rows"""
    sch = SCHEMAS[2]
    cols = sch[0]
    key = rng.choice([[0, 10], [1, 4]])
    val = rng.choice([[0, [0, 0, rng.randint(0, 9)]], [0, [4, 0]], [0, [5, 0]], [0, [4, 0]], [0, [3, 4]], [0, [1]]])
    sets = [[key, val]]
    if rng.random() < 0.4:
        sets.insert(rng.randrange(2), [[0, 3], [0, [3, 3]]])
    w = [[rng.randrange(3), [0, [2, 2]], [0, [3, 2]]]] if rng.random() < 0.3 else []
    existing, ps = _conflict_data(rng, 5)
    ret = int(rng.random() < 0.5)
    return {"in": [0, 1, cols, sch[1], [[1, [1, [[1, 0]], []], sets, w]], ret, int(ret and rng.random() < 0.5), rng.choice([1, 2, 1000]), existing, ps], "kind": "typed"}


def _bp_case(rng, flavour):
    """executemany + RETURNING, bindparam() of the given flavour in a SET value, conflicting rows with differing values"""
    sch = SCHEMAS[1]
    cols = sch[0]
    sets = [[rng.choice([[0, 3], [1, 3]]), rng.choice([[0, [flavour, 0]], [1, [flavour, 0], [2, 3]], [1, [0, 0, 1], [flavour, 1]]])]]
    if rng.random() < 0.3:
        sets.append([[0, 2], [0, [3, 2]]])
    existing, ps = _conflict_data(rng, 4)
    srt = int(rng.random() < 0.3)
    c = {"in": [0, 1, cols, sch[1], [[1, [1, [[1, 0]], []], sets, []]], 1, srt, rng.choice([2, 3, 1000]), existing, ps], "kind": "bindparam-flavour"}
    if flavour == 5 and rng.random() < 0.6:
        # heterogeneous parameter sets: some (often the first) do not supply the bindparam and get its None default
        om = sorted(set([0] if rng.random() < 0.7 else []) | {j for j in range(len(ps)) if rng.random() < 0.25})
        if om and len(om) < len(ps):
            for j in om:
                ps[j][1] = [None, None]
            c["omit"] = om
            c["kind"] = "bindparam-omitted"
    if flavour == 6:
        c["kind"] = "bindparam-default"  # formerly C56-set-bindparam-default-batched (fixed by 5319231)
    return c


def gen_cases(rng, tier):
    cases = []
    big = tier == "thorough"
    for _ in range(2000 if big else 150):
        cases.append(_seq_case(rng))
    for _ in range(2000 if big else 120):
        cases.append(_typed_case(rng))
    for _ in range(1000 if big else 40):
        cases.append(_bp_case(rng, 4))
        cases.append(_bp_case(rng, 5))
    for _ in range(200 if big else 12):
        cases.append(_bp_case(rng, 6))
    for _ in range(3000 if big else 200):
        cases.append(_plan_case(rng))
    for _ in range(30000 if big else 1000):
        cases.append(_exec_case(rng))
    for _ in range(4000 if big else 200):
        cases.append(_render_case(rng, 0))
        cases.append(_render_case(rng, 1))
    for _ in range(4000 if big else 200):
        cases.append(_mysql_case(rng))
    for bits in range(64):
        cases.append({"in": [4] + [(bits >> i) & 1 for i in range(6)], "kind": "batch-decision"})
    return cases


def nontrivial(c):
    t = c["in"]
    if t[0] == 6:
        return len(t[4]) >= 2
    if t[0] == 0:
        ixs, existing, ps = t[3], t[8], t[9]
        tab = [list(r) for r in existing]
        for r, _ in ps:
            if _first_clash(ixs, r, tab) is not None:
                return True
            tab.append(r)
        return False
    if t[0] == 1:
        return any(cl[0] == 1 and len(cl[2]) >= 2 for cl in t[3])
    if t[0] == 2:
        return len(t[4]) >= 2
    if t[0] == 5:
        return len(t[6]) >= 2 and _uses_par(t[2], 0) + _uses_par(t[2], 1) > 0
    return True


# ------------------------------------------------------------------ reference semantics in Python (the oracle)
def _n(x):
    return None if x == [] else x


def _ev_atom(a, old, exc, bp):
    if a[0] == 0:
        return a[2]
    if a[0] == 1:
        return None
    if a[0] == 2:
        return _n(old[a[1]])
    if a[0] == 3:
        return _n(exc[a[1]])
    return _n(bp[a[1]])  # 4, 5, 6: every flavour of bindparam() is filled from the parameter set


def _ev(e, old, exc, bp):
    if e[0] == 0:
        return _ev_atom(e[1], old, exc, bp)
    a, b = _ev_atom(e[1], old, exc, bp), _ev_atom(e[2], old, exc, bp)
    return None if a is None or b is None else a + b


def _evp(p, old, exc, bp):
    a, b = _ev(p[1], old, exc, bp), _ev(p[2], old, exc, bp)
    if a is None or b is None:
        return False
    return [a < b, a == b, a > b][p[0]]


def _applies(ix, r):
    return not ix[2] or _evp(ix[2][0], r, r, [])


def _clash(ix, r, tab, skip=None):
    if not _applies(ix, r):
        return None
    key = [_n(r[c]) for c in ix[1]]
    if any(x is None for x in key):
        return None
    for i, x in enumerate(tab):
        if i != skip and _applies(ix, x) and [_n(x[c]) for c in ix[1]] == key:
            return i
    return None


def _first_clash(ixs, r, tab, skip=None):
    for ix in ixs:
        h = _clash(ix, r, tab, skip)
        if h is not None:
            return h
    return None


def _norm_pred(p):
    def na(a):
        return [0, 0, a[2]] if a[0] == 0 else a

    def ne(e):
        return [e[0]] + [na(a) for a in e[1:]]

    return [p[0], ne(p[1]), ne(p[2])]


def _resolve(ixs, cols, tg):
    """user target -> index (or None)"""
    names = [c[1] for c in cols]
    cs = []
    for kind, x in tg[1]:
        if kind == 1:
            cs.append(x)
        elif x in names:
            cs.append(names.index(x))
        else:
            return None
    for ix in ixs:
        if sorted(cs) == sorted(ix[1]) and (not ix[2] or (tg[2] and _norm_pred(tg[2][0]) == _norm_pred(ix[2][0]))):
            return ix
    return None


def _key_col(cols, key):
    if key[0] == 1:
        return key[1]
    for i, c in enumerate(cols):
        if c[0] == key[1]:
            return i
    for i, c in enumerate(cols):
        if c[1] == key[1]:
            return i
    return None


class _Integrity(Exception):
    pass


def _upsert_one(cols, ixs, clauses, tab, r, bp):
    for cl in clauses:
        tg = cl[1]
        hit = _first_clash(ixs, r, tab) if tg == [0] else _clash(_resolve(ixs, cols, tg), r, tab)
        if hit is None:
            continue
        if cl[0] == 0:
            return tab, None
        old = tab[hit]
        if cl[3] and not _evp(cl[3][0], old, r, bp):
            return tab, None
        new = list(old)
        for key, e in cl[2]:  # simultaneous assignment, user order, looked up by key
            new[_key_col(cols, key)] = _ev(e, old, r, bp)
        new = [[] if x is None else x for x in new]
        if _first_clash(ixs, new, tab, skip=hit) is not None:
            raise _Integrity()
        t2 = list(tab)
        t2[hit] = new
        return t2, new
    if _first_clash(ixs, r, tab) is not None:
        raise _Integrity()
    return tab + [list(r)], list(r)


def _rowkey(r):
    return [(0, 0) if x in ([], None) else (1, x) for x in r]


def _expected(t):
    """the insert-or-update model applied to the USER's clauses: ('ok', table, rows) | ('err', code)"""
    _, _, cols, ixs, clauses, ret, srt, page, existing, ps = t
    for i, cl in enumerate(clauses):
        if cl[1] == [0] and i != len(clauses) - 1:
            return ("err", 3)
    for cl in clauses:
        if cl[1] != [0] and _resolve(ixs, cols, cl[1]) is None:
            return ("err", 2)
        if cl[0] == 1 and any(_key_col(cols, k) is None for k, _ in cl[2]):
            return ("err", 2)
    tab = [list(r) for r in existing]
    out = []
    try:
        for r, bp in ps:
            tab, x = _upsert_one(cols, ixs, clauses, tab, r, bp)
            if x is not None:
                out.append(x)
    except _Integrity:
        return ("err", 1)
    return ("ok", sorted(tab, key=_rowkey), out)


def _uses_par(clauses, k):
    def hp(e):
        return any(a[0] in (4, 5, 6) and a[1] == k for a in e[1:])

    for cl in clauses:
        if cl[0] == 1:
            if any(hp(e) for _, e in cl[2]) or (cl[3] and (hp(cl[3][0][1]) or hp(cl[3][0][2]))):
                return True
    return False


def _has_where_par(t):
    def hp(e):
        return any(a[0] in (4, 5, 6) for a in e[1:])

    return any(cl[0] == 1 and cl[3] and (hp(cl[3][0][1]) or hp(cl[3][0][2])) for cl in t[4])


def _has_bound_index_where(t):
    def hb(e):
        return any(a[0] == 0 and a[1] == 0 for a in e[1:])

    return any(cl[1][0] == 1 and cl[1][2] and (hb(cl[1][2][0][1]) or hb(cl[1][2][0][2])) for cl in t[4])


def oracle(c, obs):
    t = c["in"]
    if t[0] == 6:
        for i, (clauses, o) in enumerate(zip(t[4], obs)):
            w = oracle({"in": [0] + t[1:4] + [clauses] + t[5:]}, o)
            if w:
                return "statement %d of a sequence on one engine (compiled cache on): %s" % (i, w)
        return None
    if t[0] == 0:
        exp = _expected(t)
        ret, srt = t[5], t[6]
        if exp[0] == "err":
            if obs[0] == 1 and (obs[1] == exp[1] or exp[1] != 1):
                return None
            if obs[0] == 1:
                return "the model predicts an integrity error, the statement failed with error class %d" % obs[1]
            return "the insert-or-update model predicts %s, the executemany succeeded with table %s" % (
                {1: "an integrity error", 2: "an unknown-column/unknown-index error", 3: "a construct error"}[exp[1]],
                obs[1],
            )
        if obs[0] == 1:
            return "statement failed (error class %d) although the insert-or-update model succeeds with table %s" % (obs[1], exp[1])
        if obs[1] != exp[1]:
            return "table after the upsert is %s, the insert-or-update model gives %s" % (obs[1], exp[1])
        if ret:
            if srt and obs[2] != exp[2]:
                return "RETURNING rows %s are not the affected rows in parameter order %s" % (obs[2], exp[2])
            if not srt and sorted(obs[2], key=_rowkey) != sorted(exp[2], key=_rowkey):
                return "RETURNING rows %s are not the affected rows %s" % (obs[2], exp[2])
        return None
    if t[0] == 1:
        return _oracle_render(t, obs)
    if t[0] == 2:
        return _oracle_mysql(t, obs)
    if t[0] == 5:
        # every parameter set must be executed with ITS OWN bindparam values
        ps = t[6]
        if sum(b[0] for b in obs) != len(ps):
            return "%d parameter sets executed for %d given" % (sum(b[0] for b in obs), len(ps))
        i = 0
        for size, bp in obs:
            for j in range(size):
                for k in (0, 1):
                    if _uses_par(t[2], k) and bp[k] != ps[i + j][1][k]:
                        return "parameter set %d is executed with bindparam b%d=%s instead of its own value %s (statement of %d rows)" % (
                            i + j, k, bp[k], ps[i + j][1][k], size)
            i += size
        return None
    return None


def _split_items(toks):
    items, cur, depth = [], [], 0
    for tk in toks:
        if tk == [4]:
            depth += 1
        if tk == [5]:
            depth -= 1
        if tk == [6] and depth == 0:
            items.append(cur)
            cur = []
        else:
            cur.append(tk)
    items.append(cur)
    return items


def _oracle_render(t, obs):
    """each rendered ON CONFLICT clause carries exactly the user's SET items (by database column name), the target
    names in order, and a WHERE exactly when one was given"""
    _, d, cols, clauses = t
    for i, cl in enumerate(clauses):
        if cl[1] == [0] and i != len(clauses) - 1:
            return None if obs == [1, 3] else "a target-less ON CONFLICT clause followed by another clause was accepted"
    if obs[0] != 0:
        return "construct/compile failed"
    toks = obs[1]
    # split into clauses at ON CONFLICT
    starts = [i for i in range(len(toks) - 1) if toks[i] == [0, 0] and toks[i + 1] == [0, 1]]
    if len(starts) != len(clauses):
        return "%d ON CONFLICT clauses rendered for %d requested" % (len(starts), len(clauses))
    for cl, a, b in zip(clauses, starts, starts[1:] + [len(toks)]):
        seg = toks[a:b]
        if cl[0] == 0:
            if seg[-2:] != [[0, 2], [0, 3]]:
                return "DO NOTHING clause not rendered as such"
            continue
        if [0, 5] not in seg:
            return "DO UPDATE clause without SET"
        body = seg[seg.index([0, 5]) + 1 :]
        where = None
        depth = 0
        for j, tk in enumerate(body):
            if tk == [0, 6]:
                where = j
                break
        setpart = body if where is None else body[:where]
        if (where is not None) != bool(cl[3]):
            return "DO UPDATE ... WHERE rendered=%s requested=%s" % (where is not None, bool(cl[3]))
        got = sorted(it[0][1] if it[0][0] == 1 else None for it in _split_items(setpart))
        want = []
        for key, _ in cl[2]:
            ci = _key_col(cols, key)
            want.append(cols[ci][1] if ci is not None else key[1])
        if got != sorted(want):
            return "SET assigns columns %s, the clause says %s" % (got, sorted(want))
        tg = cl[1]
        if tg[0] == 1:
            pre = seg[2 : seg.index([0, 2])]
            if pre[0] != [4]:
                return "conflict target not rendered"
            names = [tk[1] for tk in pre[1 : pre.index([5])] if tk[0] == 1]
            wantn = [(x if kind == 0 else cols[x][1]) for kind, x in tg[1]]
            if names != wantn:
                return "conflict target columns %s, requested %s" % (names, wantn)
            if ([0, 6] in pre) != bool(tg[2]):
                return "index_where rendered=%s requested=%s" % ([0, 6] in pre, bool(tg[2]))
    return None


def _oracle_mysql(t, obs):
    _, cols, alias, ordered, upd = t
    if obs[0] != 0:
        return "compile failed"
    toks = obs[1]
    i = toks.index([0, 4])
    got = [it[0][1] for it in _split_items(toks[i + 1 :]) if it]
    keys = [c[0] for c in cols]
    if ordered:
        want, seen = [], set()
        ks = [k for k, _ in upd]
        if len(set(ks)) == len(ks):
            want = [cols[keys.index(k)][1] for k in ks if k in keys]
            if got != want:
                return "ordered ON DUPLICATE KEY UPDATE renders columns %s, the list says %s" % (got, want)
        return None
    want = sorted(cols[keys.index(k)][1] for k, _ in upd if k in keys)
    if sorted(got) != want:
        return "ON DUPLICATE KEY UPDATE renders columns %s, the dict says %s" % (sorted(got), want)
    return None


def match_finding(c, what):
    t = c["in"]
    if t[0] == 5 and "instead of its own value" in what:
        def wp(k):
            return any(cl[0] == 1 and cl[3] and any(a[0] in (4, 5, 6) and a[1] == k for e in cl[3][0][1:] for a in e[1:]) for cl in t[2])
        def sp(k):
            return any(cl[0] == 1 and any(a[0] in (4, 5, 6) and a[1] == k for _, e in cl[2] for a in e[1:]) for cl in t[2])
        if t[1] == 1 and t[3] and (sp(0) or sp(1) or wp(0) or wp(1)):
            return "C56-pg-embedded-counter-set-bindparam"
        if t[3] and (wp(0) or wp(1)) and not (sp(0) or sp(1)) and not t[4]:
            return "C56-where-bindparam-batched"  # fixed by e3b606f
    if t[0] == 0 and t[5] and not t[6] and len(t[9]) > 1 and t[7] > 1:
        if any(cl[0] == 1 and any(a[0] == 6 for _, e in cl[2] for a in e[1:]) for cl in t[4]):
            return "C56-set-bindparam-default-batched"
    if t[0] == 0:
        n = len(t[9])
        if n > 1 and _has_bound_index_where(t) and "error class 3" in what:
            return "C56-sqlite-index-where-executemany"
        if n > 1 and t[5] and not t[6] and t[7] > 1 and _has_where_par(t):
            return "C56-where-bindparam-batched"
    return None


# ------------------------------------------------------------------ implementation side
_cache = {}


def _schema(cols, ixs, fresh=False):
    key = repr((cols, ixs))
    if key in _cache and not fresh:
        return _cache[key]
    import sqlalchemy as sa

    md = sa.MetaData()
    cobjs = []

    class ShiftInt(sa.TypeDecorator):
        """integer stored as value + 100: bind and result processing are visible in the stored data"""

        impl = sa.Integer
        cache_ok = True

        def process_bind_param(self, value, dialect):
            return None if value is None else value + 100

        def process_result_value(self, value, dialect):
            return None if value is None else value - 100

    for i, (k, n) in enumerate(cols):
        cobjs.append(sa.Column(nm(n), ShiftInt() if nm(n) == "p" else sa.Integer, primary_key=(i == 0), key=nm(k)))
    t = sa.Table("t", md, *cobjs)
    for name, cs, w in ixs[1:]:
        if w:
            sa.Index(nm(name), *[t.c[nm(cols[c][0])] for c in cs], unique=True, sqlite_where=_sa_pred(w[0], t, None, cols), postgresql_where=_sa_pred(w[0], t, None, cols))
        else:
            t.append_constraint(sa.UniqueConstraint(*[t.c[nm(cols[c][0])] for c in cs], name=nm(name)))
    eng = sa.create_engine("sqlite://", connect_args={"autocommit": False})
    md.create_all(eng)
    if not fresh:
        _cache[key] = (t, eng)
    return t, eng


def _sa_atom(a, t, exc, cols):
    import sqlalchemy as sa

    if a[0] == 0:
        return sa.literal_column(str(a[2])) if a[1] else sa.literal(a[2])
    if a[0] == 1:
        return sa.null()
    if a[0] == 2:
        return t.c[nm(cols[a[1]][0])]
    if a[0] == 3:
        return exc[nm(cols[a[1]][0])]
    if a[0] == 5:
        return sa.bindparam("b%d" % a[1], None)  # explicit None default: still filled from the parameter sets
    if a[0] == 6:
        return sa.bindparam("b%d" % a[1], 77)  # a default value, overridden by every parameter set
    return sa.bindparam("b%d" % a[1])


def _sa_expr(e, t, exc, cols):
    if e[0] == 0:
        return _sa_atom(e[1], t, exc, cols)
    return _sa_atom(e[1], t, exc, cols) + _sa_atom(e[2], t, exc, cols)


def _sa_pred(p, t, exc, cols):
    a, b = _sa_expr(p[1], t, exc, cols), _sa_expr(p[2], t, exc, cols)
    return [a < b, a == b, a > b][p[0]]


def _build(ins, t, cols, clauses, pg=False):
    st = ins(t)
    exc = st.excluded
    for cl in clauses:
        kw = {}
        tg = cl[1]
        if tg[0] == 1:
            kw["index_elements"] = [nm(x) if kind == 0 else t.c[nm(cols[x][0])] for kind, x in tg[1]]
            if tg[2]:
                kw["index_where"] = _sa_pred(tg[2][0], t, exc, cols)
        elif tg[0] == 2:
            kw["constraint"] = nm(tg[1])
        if cl[0] == 0:
            st = st.on_conflict_do_nothing(**kw)
        else:
            set_ = {}
            for key, e in cl[2]:
                ci = _key_col(cols, key)
                if ci is not None and nm(cols[ci][1]) == "p" and e[0] == 0 and e[1][0] == 0:
                    val = e[1][2]  # a plain Python value: typed from the column it is assigned to
                else:
                    val = _sa_expr(e, t, exc, cols)
                set_[nm(key[1]) if key[0] == 0 else t.c[nm(cols[key[1]][0])]] = val
            st = st.on_conflict_do_update(set_=set_, where=(_sa_pred(cl[3][0], t, exc, cols) if cl[3] else None), **kw)
    return st


_TOK = re.compile(r"\s*(?:(__\[POSTCOMPILE_(\w+)\])|(%\((\w+)\)s(?:::\w+)?)|(%s)|(\?)|(-?\d+)|([A-Za-z_][A-Za-z_0-9]*)|([(),.=<>+]))")
_PUNCT = {"(": 4, ")": 5, ",": 6, ".": 7, "=": 8, "<": 9, ">": 10, "+": 11}


def _tokens(compiled, start_marker):
    s = compiled.string
    pos = s.index(start_marker)
    end = s.find(" RETURNING ")
    if end < 0:
        end = len(s)
    params = compiled.params
    ptup = list(compiled.positiontup or [])
    out = []
    i = 0
    npos = 0
    while i < end:
        m = _TOK.match(s, i)
        if not m:
            if s[i:].strip() == "":
                break
            raise ValueError("cannot tokenise %r at %d" % (s, i))
        i = m.end()
        name = None
        tok = None
        if m.group(1):
            name = m.group(2)
            npos += 1
        elif m.group(3):
            name = m.group(4)
        elif m.group(5) or m.group(6):
            name = ptup[npos]
            npos += 1
        elif m.group(7):
            tok = [2, int(m.group(7))]
        elif m.start() < pos:
            continue
        elif m.group(8):
            w = m.group(8)
            if w.upper() in KW and w not in ("key",):
                tok = [0, KW.index(w.upper())]
            elif w in SPECIAL:
                tok = [1, SPECIAL[w]]
            else:
                tok = [1, ni(w)]
        else:
            tok = [_PUNCT[m.group(9)]]
        if name is not None:
            mm = re.fullmatch(r"b(\d+)", name)
            if mm:
                tok = [3, int(mm.group(1))]
            else:
                v = params[name]
                tok = [0, 7] if v is None else [2, int(v)]
        if m.start() >= pos:
            out.append(tok)
    return out


def _exec_once(t, eng, cols, clauses, ret, srt, page, existing, ps, omit=()):
    import sqlalchemy as sa
    from sqlalchemy import exc as saexc
    from sqlalchemy.dialects.sqlite import insert as sinsert

    keys = [nm(k) for k, _ in cols]
    try:
        st = _build(sinsert, t, cols, clauses)
    except saexc.InvalidRequestError:
        return [1, 3]
    if ret:
        st = st.returning(*t.c, sort_by_parameter_order=bool(srt))
    with eng.connect() as conn:
        conn.execute(t.delete())
        if existing:
            conn.execute(t.insert(), [dict(zip(keys, [_n(x) for x in r])) for r in existing])
        conn.commit()
        params = []
        for j, (r, bp) in enumerate(ps):
            d = dict(zip(keys, [_n(x) for x in r]))
            if j not in omit:  # an omitted bindparam(name, None) falls back to its default None: same as supplying None
                d.update({"b%d" % i: _n(v) for i, v in enumerate(bp)})
            params.append(d)
        try:
            res = conn.execution_options(insertmanyvalues_page_size=page).execute(st, params)
            rr = [[[] if x is None else x for x in row] for row in res] if ret else []
            tab = [[[] if x is None else x for x in row] for row in conn.execute(sa.select(t))]
        except saexc.IntegrityError:
            return [1, 1]
        except saexc.OperationalError:
            return [1, 2]
        except saexc.StatementError as e:
            if isinstance(e.orig, saexc.InvalidRequestError):
                return [1, 3]
            return [1, 9]  # e.g. the DBAPI cannot bind an unprocessed value
        finally:
            conn.rollback()
    tab.sort(key=_rowkey)
    if ret and not srt:
        rr.sort(key=_rowkey)
    return [0, tab, rr]


def impl(c):
    import warnings

    import sqlalchemy as sa
    from sqlalchemy import exc as saexc

    t_in = c["in"]
    fam = t_in[0]
    with warnings.catch_warnings():
        warnings.simplefilter("ignore")
        if fam == 0:
            _, _, cols, ixs, clauses, ret, srt, page, existing, ps = t_in
            if c.get("omit"):
                # own engine: bindparam(name) and bindparam(name, None) share a compiled-cache key, and a cached
                # form compiled from the required flavour rejects a parameter set that omits the key (C02 matter)
                t, eng = _schema(cols, ixs, fresh=True)
                try:
                    return _exec_once(t, eng, cols, clauses, ret, srt, page, existing, ps, c["omit"])
                finally:
                    eng.dispose()
            t, eng = _schema(cols, ixs)
            return _exec_once(t, eng, cols, clauses, ret, srt, page, existing, ps)
        if fam == 6:
            _, _, cols, ixs, seq, ret, srt, page, existing, ps = t_in
            t, eng = _schema(cols, ixs, fresh=True)  # its own engine: an empty compiled cache, filled by the sequence
            try:
                return [_exec_once(t, eng, cols, clauses, ret, srt, page, existing, ps) for clauses in seq]
            finally:
                eng.dispose()
        if fam == 1:
            _, d, cols, clauses = t_in
            t, _ = _schema(cols, SCHEMAS[0][1] if cols == SCHEMAS[0][0] else SCHEMAS[1][1])
            if d == 0:
                from sqlalchemy.dialects import sqlite
                from sqlalchemy.dialects.sqlite import insert as ins

                dialect = sqlite.dialect()
            else:
                from sqlalchemy.dialects import postgresql
                from sqlalchemy.dialects.postgresql import insert as ins

                dialect = postgresql.dialect()
            try:
                st = _build(ins, t, cols, clauses)
            except saexc.InvalidRequestError:
                return [1, 3]
            comp = st.compile(dialect=dialect)
            return [0, _tokens(comp, " ON CONFLICT")]
        if fam == 2:
            from sqlalchemy.dialects import mysql
            from sqlalchemy.dialects.mysql import insert as ins

            _, cols, alias, ordered, upd = t_in
            t, _ = _schema(cols, SCHEMAS[0][1] if cols == SCHEMAS[0][0] else SCHEMAS[1][1])
            st = ins(t)
            items = [(nm(k), _sa_expr(e, t, st.inserted, cols)) for k, e in upd]
            st = st.on_duplicate_key_update(items if ordered else dict(items))
            dialect = mysql.dialect()
            dialect._requires_alias_for_on_duplicate_key = bool(alias)
            comp = st.compile(dialect=dialect)
            return [0, _tokens(comp, " AS new ON DUPLICATE" if alias else " ON DUPLICATE")]
        if fam == 4:
            return _batch_decision(t_in)
        if fam == 5:
            return _plan(t_in)
    raise ValueError("unknown family")


def _plan(t_in):
    from sqlalchemy.dialects import postgresql
    from sqlalchemy.dialects.postgresql import insert as ins

    _, embed, clauses, ret, srt, page, ps = t_in
    cols = SCHEMAS[1][0]
    t, _ = _schema(cols, SCHEMAS[1][1])
    keys = [nm(k) for k, _ in cols]
    st = _build(ins, t, cols, clauses)
    if ret:
        st = st.returning(*t.c, sort_by_parameter_order=bool(srt))
    params = []
    for r, bp in ps:
        d = dict(zip(keys, [_n(x) for x in r]))
        if embed:
            del d[keys[0]]  # server-generated primary key
        for k in (0, 1):
            if _uses_par(clauses, k):
                d["b%d" % k] = _n(bp[k])
        params.append(d)
    dialect = postgresql.dialect()
    many = len(params) > 1
    comp = st.compile(dialect=dialect, for_executemany=many, column_keys=sorted(params[0]))
    imv = comp._insertmanyvalues
    out = []

    def view(size, d):
        return [size, [([] if d.get("b%d" % k) is None else d["b%d" % k]) for k in (0, 1)]]

    if many and imv is not None:
        if bool(imv.embed_values_counter) != bool(embed) and ret and srt:
            raise AssertionError("harness: embed_values_counter=%s expected %s" % (imv.embed_values_counter, embed))
        cps = [comp.construct_params(p) for p in params]
        sbo = imv.sort_by_parameter_order if comp.effective_returning else False
        for b in comp._deliver_insertmanyvalues_batches(comp.string, cps, cps, None, page, sbo, None):
            out.append(view(len(b.batch), b.replaced_parameters))
    else:
        for p in params:
            out.append(view(1, p))
    return out


def _batch_decision(t_in):
    """drive the real _deliver_insertmanyvalues_batches with an _InsertManyValues record carrying the given flags and
    report whether it goes row-at-a-time"""
    import sqlalchemy as sa
    from sqlalchemy.dialects import postgresql
    from sqlalchemy.dialects.postgresql import insert as ins

    _, srt, has_result, sentinel_none, upsert, embed, has_bp = t_in
    md = sa.MetaData()
    t = sa.Table("t", md, sa.Column("id", sa.Integer, primary_key=True), sa.Column("k", sa.Integer))
    st = (
        ins(t)
        .on_conflict_do_update(index_elements=[t.c.id], set_={"k": sa.bindparam("b0")})
        .returning(t.c.id, sort_by_parameter_order=True)
    )
    comp = st.compile(dialect=postgresql.dialect(), for_executemany=True, column_keys=["id", "k", "b0"])
    imv = comp._insertmanyvalues
    comp._insertmanyvalues = imv._replace(
        sentinel_columns=None if sentinel_none else imv.sentinel_columns,
        includes_upsert_behaviors=bool(upsert),
        embed_values_counter=bool(embed),
        has_upsert_bound_parameters=bool(has_bp),
    )
    if not has_result:
        comp._result_columns = []
    params = [{"id": i, "k": i, "b0": i} for i in range(3)]
    g = comp._deliver_insertmanyvalues_batches(comp.string, params, params, None, 10, bool(srt), None)
    b = next(g)
    return int(len(b.batch) == 1 and b.total_batches == 3)


LEVEL_TEXT = (
    "Machine-checked proof (Coq) over a Gallina model of the whole path construct -> clause assembly "
    "(visit_on_conflict_do_update / _on_conflict_target / visit_on_duplicate_key_update) -> rendered tokens -> "
    "hand-written parser -> executemany strategy (row at a time / multi-row VALUES pages, paramstyle-dependent source "
    "of the non-VALUES parameters) over a reference database with unique (partial, composite) indexes: render/parse "
    "round trip; assembly = permutation of the user's SET items with the same target and WHERE; SET order irrelevant; "
    "executemany = fold of upsert_one for every table, parameter list (duplicates included), clause list, RETURNING mode "
    "and page size (guarded), exact parameter order of RETURNING rows under sort_by_parameter_order for ANY order in which "
    "the database returns the rows of one statement; three refuted regions with concrete witnesses (two reproduced on "
    "SQLite, one on the PostgreSQL batches produced offline); MySQL ordering theorems. The SQLite instance of the "
    "reference semantics is validated against SQLite 3.40 on every run; PostgreSQL/MySQL semantics are trusted."
)
LEVEL_NOTE = (
    "Trusted: Coq kernel; the hand transcription (source pin + AST checks of the batching conditions + behavioural "
    "correspondence: executed on SQLite, token-level for PostgreSQL/MySQL renderings, batch plans for PostgreSQL); the "
    "tokeniser; PostgreSQL/MySQL upsert semantics. No axioms (Print Assumptions: closed under the global context). "
    "Not covered: ON CONFLICT DO UPDATE without conflict target, repeated conflict targets (SQLite 3.40 itself replaces "
    "the row on the rowid conflict then), set_ with both the key string and the Column object of one column, "
    "insert-from-select upserts, RETURNING order restoration with an embedded counter (C12), drivers' own executemany rewriting."
)
TECHNIQUE = "Coq proof (render/parse round trip, assembly = permutation, fold refinement of the batching strategies); source pin; SQLite-validated reference semantics; textual comparison of PostgreSQL/MySQL renderings; offline batch plans"
