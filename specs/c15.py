"""C15 - reflection reproduces the schema that was created (PARTIAL: SQLite only).

Model (coq/sql/Reflect*.v): rendering of the UNIQUE clauses of CREATE TABLE (names through the C06 identifier
model), the regex parsers of SQLiteDialect.get_unique_constraints over the stored CREATE text as hand-written
matchers with Python `re` semantics (UNIQUE_PATTERN - whose CONSTRAINT-name group is also the one of FK_PATTERN
and PK_PATTERN -, _find_cols_in_sig), the join with the sqlite_autoindex signatures, and
_resolve_type_affinity over type tables regenerated from the dialect on every run.  The oracle creates generated
tables on SQLite, reflects them, compares, re-creates from the reflected MetaData in a second database and
reflects again.
"""
import ast
import json
import os
import re
import sys

ID = "C15"
LEVEL = "proof"
PROPS = "props/C15.v"
RUNNER = ("Gen.Gen_C15", "run_case")
STATIC_MODULES = ["SAV.sql.ReflectRun", "SAV.sql.ReflectTheorems"]
RULE = (
    "model families: (uq-text) every string <= 4 tokens over an alphabet of CREATE-text tokens (CONSTRAINT, UNIQUE, quoted/bare "
    "names incl. doubled quotes, `$`, newline, parens, commas) + random longer ones: model parse_uqs vs UNIQUE_PATTERN/_find_cols_in_sig "
    "taken from the current source; (uq-join) SQLiteDialect.get_unique_constraints itself on synthetic text + autoindex signatures; "
    "(uq-render) UniqueConstraint clauses with names/columns from an awkward-name pool: model rendering == DDLCompiler text and model "
    "parse == regex parse; (affinity) type strings: every ischema_names key and SQLite rendering with 0-3 arguments, substring families, "
    "spacing/garbage variants: model == _resolve_type_affinity + type compiler, two rounds. Oracle family (live SQLite, no model): "
    "generated tables (1-5 columns of 20 types, nullability, server defaults, single/composite/named PK, FK with ON DELETE/UPDATE/"
    "DEFERRABLE, named/unnamed UNIQUE, indexes, awkward names) : create, reflect, compare; recreate from the reflected MetaData into a "
    "second database, reflect, compare. non-trivial = text with a UNIQUE keyword / type with arguments or not an exact key / table with "
    "a constraint"
)
TRUSTED = [
    "hand-written Gallina matchers for UNIQUE_PATTERN and _find_cols_in_sig (pinned source; compared with Python `re` running the patterns "
    "extracted from the CURRENT source on exhaustive small token strings and random texts)",
    "SQLite's own behaviour (PRAGMA table_info / index_list / foreign_key_list, sqlite_master.sql verbatim storage): input of the model, "
    "exercised live by the oracle on every run",
    "str.isalnum() / Unicode database for \\w above ASCII: a parameter of the matchers (the theorems hold for any)",
    "the identifier preparer table of SQLite (reserved words, legal characters, quote characters) is measured on the live dialect on every run",
]
ASSUMPTIONS = [
    "SQLite only: PostgreSQL/MySQL reflection depends on server catalogs nothing here can produce - not claimed",
    "type strings are ASCII; FOREIGN KEY / CHECK / index reflection are covered by the oracle only (FK_PATTERN shares the modelled name group)",
]
LEVEL_TEXT = (
    "Machine-checked proofs (Coq): for every CREATE text made of arbitrary segments and rendered UNIQUE clauses whose names/columns "
    "pass a boolean guard, the regex parser returns exactly the constraints (name and columns) - with refutations for the guard's "
    "complement (names containing a double quote, a newline, or bare names with `$`; columns containing `\"`, `)`, newline, bare `$`); "
    "get_unique_constraints = the created constraints when the autoindex signatures are theirs; type reflection -> rendering -> "
    "reflection is a fixed point for every type table passing a per-run boolean check. Tie: pinned sources, per-run regenerated type "
    "and identifier tables, model/implementation correspondence, live SQLite oracle incl. re-creation."
)
LEVEL_NOTE = (
    "partial: SQLite only; FK/PK/CHECK/index/column reflection are oracle-only (no Gallina model beyond the shared constraint-name "
    "group); INLINE_UNIQUE_PATTERN is an input of the model. No axioms (Print Assumptions: closed under the global context)."
)
TECHNIQUE = "Coq proofs over hand-written regex matchers + rendering; per-run regenerated tables (T1); differential runs against Python re and live SQLite create/reflect/recreate/reflect"

ANCHORS = [
    ("lib/sqlalchemy/dialects/sqlite/base.py", "SQLiteDialect.get_unique_constraints"),
    ("lib/sqlalchemy/dialects/sqlite/base.py", "SQLiteDialect._find_cols_in_sig"),
    ("lib/sqlalchemy/dialects/sqlite/base.py", "SQLiteDialect._resolve_type_affinity"),
    ("lib/sqlalchemy/dialects/sqlite/base.py", "SQLiteDialect._get_column_info"),
    ("lib/sqlalchemy/dialects/sqlite/base.py", "SQLiteDialect.get_columns"),
    ("lib/sqlalchemy/dialects/sqlite/base.py", "SQLiteDialect.get_indexes"),
    ("lib/sqlalchemy/dialects/sqlite/base.py", "SQLiteDDLCompiler.get_column_specification"),
    ("lib/sqlalchemy/dialects/sqlite/base.py", "SQLiteDDLCompiler.visit_create_index"),
    ("lib/sqlalchemy/engine/reflection.py", "_ReflectionInfo"),
    ("lib/sqlalchemy/sql/compiler.py", "DDLCompiler.visit_unique_constraint"),
    ("lib/sqlalchemy/sql/compiler.py", "DDLCompiler.define_constraint_preamble"),
    ("lib/sqlalchemy/sql/compiler.py", "DDLCompiler.define_unique_body"),
    ("lib/sqlalchemy/sql/compiler.py", "DDLCompiler.define_unique_constraint_distinct"),
]


def S(s):
    return [ord(c) for c in s]


def unS(t):
    return "".join(chr(c) for c in t)


def pin_check(repo):
    from translate import fingerprint

    fingerprint.check(repo, ANCHORS, "C15")


# ====================================================================================================
# T1: tables regenerated from the current source / the live dialect
# ====================================================================================================
def _patterns(repo=None):
    """UNIQUE_PATTERN, INLINE_UNIQUE_PATTERN and the _find_cols_in_sig pattern as written in the CURRENT source"""
    repo = repo or os.environ.get("VERIF_REPO", "/repo")
    with open(os.path.join(repo, "lib/sqlalchemy/dialects/sqlite/base.py")) as f:
        tree = ast.parse(f.read())
    out = {}
    for node in ast.walk(tree):
        if isinstance(node, ast.Assign) and len(node.targets) == 1 and isinstance(node.targets[0], ast.Name):
            if node.targets[0].id in ("UNIQUE_PATTERN", "INLINE_UNIQUE_PATTERN"):
                out[node.targets[0].id] = ast.literal_eval(node.value)
            if node.targets[0].id == "partial_pred_re" and isinstance(node.value, ast.Call):
                out["PARTIAL"] = ast.literal_eval(node.value.args[0])
                flags = 0
                for a in node.value.args[1:]:
                    for n in ast.walk(a):
                        if isinstance(n, ast.Attribute) and isinstance(n.value, ast.Name) and n.value.id == "re":
                            flags |= int(getattr(re, n.attr))
                out["PARTIAL_FLAGS"] = flags
        if isinstance(node, ast.FunctionDef) and node.name == "_find_cols_in_sig":
            for c in ast.walk(node):
                if isinstance(c, ast.Call) and getattr(c.func, "attr", "") == "finditer":
                    out["COLS"] = ast.literal_eval(c.args[0])
    if set(out) != {"UNIQUE_PATTERN", "INLINE_UNIQUE_PATTERN", "COLS", "PARTIAL", "PARTIAL_FLAGS"}:
        raise RuntimeError("cannot find the reflection patterns in the source: %s" % sorted(out))
    return out


def _fn(tree, cls, name):
    for node in ast.walk(tree):
        if isinstance(node, ast.ClassDef) and node.name == cls:
            for f in node.body:
                if isinstance(f, ast.FunctionDef) and f.name == name:
                    return f
    raise RuntimeError("cannot find %s.%s" % (cls, name))


def _bool_expr(e):
    """T2: the expression get_columns assigns to `nullable`, over row[3] (notnull) and primary_key -> Gallina"""
    if isinstance(e, ast.UnaryOp) and isinstance(e.op, ast.Not):
        return "negb (%s)" % _bool_expr(e.operand)
    if isinstance(e, ast.BoolOp):
        op = " && " if isinstance(e.op, ast.And) else " || "
        return "(" + op.join(_bool_expr(v) for v in e.values) + ")"
    if isinstance(e, ast.Call) and isinstance(e.func, ast.Name) and e.func.id == "bool" and len(e.args) == 1:
        return _bool_expr(e.args[0])
    if isinstance(e, ast.Name) and e.id == "primary_key":
        return "pk"
    if isinstance(e, ast.Subscript) and isinstance(e.value, ast.Name) and e.value.id == "row" and isinstance(e.slice, ast.Constant):
        if e.slice.value == 3:
            return "nn"
        if e.slice.value == 5:
            return "pk"
    if isinstance(e, ast.Constant) and isinstance(e.value, bool):
        return "true" if e.value else "false"
    raise RuntimeError("nullable rule: expression not understood: %s" % ast.unparse(e))


def source_rules(repo):
    """(Gallina term of the nullable rule, is the partial-index lookup query schema-qualified?)"""
    with open(os.path.join(repo, "lib/sqlalchemy/dialects/sqlite/base.py")) as f:
        tree = ast.parse(f.read())
    gc = _fn(tree, "SQLiteDialect", "get_columns")
    rules = [n.value for n in ast.walk(gc) if isinstance(n, ast.Assign) and len(n.targets) == 1
             and isinstance(n.targets[0], ast.Name) and n.targets[0].id == "nullable"]
    if len(rules) != 1:
        raise RuntimeError("get_columns: expected exactly one assignment to `nullable`, found %d" % len(rules))
    gi = _fn(tree, "SQLiteDialect", "get_indexes")
    queries = []
    for n in ast.walk(gi):
        if isinstance(n, ast.Constant) and isinstance(n.value, str) and "sqlite_master" in n.value:
            queries.append(n.value)
    if not queries:
        raise RuntimeError("get_indexes: no query against sqlite_master found")
    qualified = all("%(schema)ssqlite_master" in q for q in queries)
    return _bool_expr(rules[0]), qualified


def info_fields(repo):
    """(categories of _ReflectionInfo, indices of those its update() merges)"""
    with open(os.path.join(repo, "lib/sqlalchemy/engine/reflection.py")) as f:
        tree = ast.parse(f.read())
    cls = [n for n in ast.walk(tree) if isinstance(n, ast.ClassDef) and n.name == "_ReflectionInfo"]
    if len(cls) != 1:
        raise RuntimeError("cannot find _ReflectionInfo")
    fields = [n.target.id for n in cls[0].body if isinstance(n, ast.AnnAssign) and isinstance(n.target, ast.Name)]
    upd = [n for n in cls[0].body if isinstance(n, ast.FunctionDef) and n.name == "update"]
    if len(upd) != 1 or not fields:
        raise RuntimeError("_ReflectionInfo: fields / update() not found")
    merged = set()
    for n in ast.walk(upd[0]):
        if isinstance(n, ast.For):
            it = ast.unparse(n.iter)
            if it in ("self.__dict__.items()", "self.__dict__", "vars(self).items()", "vars(self)"):
                merged.update(fields)
            elif isinstance(n.iter, (ast.Tuple, ast.List)):
                merged.update(e.value for e in n.iter.elts if isinstance(e, ast.Constant) and isinstance(e.value, str))
        if isinstance(n, ast.Call) and isinstance(n.func, ast.Attribute) and n.func.attr == "update":
            v = n.func.value
            if isinstance(v, ast.Attribute) and isinstance(v.value, ast.Name) and v.value.id == "self" and n.args \
                    and ast.unparse(n.args[0]) == "other." + v.attr:
                merged.add(v.attr)
    return fields, sorted(fields.index(m) for m in merged if m in fields)


PROBE_ARGS = [7, 8, 9, 11, 12, 13]


def facts(_=None):
    """runs in the impl interpreter: the live type tables of the SQLite dialect"""
    import warnings

    from sqlalchemy.dialects import sqlite
    from sqlalchemy import types as sqltypes

    d = sqlite.dialect()
    classes = []

    def idx(c):
        if c not in classes:
            classes.append(c)
        return classes.index(c)

    isch = [[k, idx(v)] for k, v in sorted(d.ischema_names.items())]
    fall = [idx(c) for c in (sqltypes.INTEGER, sqltypes.TEXT, sqltypes.NullType, sqltypes.REAL, sqltypes.NUMERIC)]
    accepts, render, irregular = [], [], []
    for ci, c in enumerate(classes):
        for n in range(0, 7):
            try:
                with warnings.catch_warnings():
                    warnings.simplefilter("ignore")
                    inst = c(*PROBE_ARGS[:n])
            except TypeError:
                continue
            except Exception as e:  # e.g. BOOLEAN(7, 8, 9, 11): not caught by _resolve_type_affinity either
                irregular.append([c.__name__, n, "constructor raises " + type(e).__name__])
                continue
            accepts.append([ci, n])
            try:
                txt = d.type_compiler_instance.process(inst)
            except Exception as e:  # NullType cannot be rendered
                irregular.append([c.__name__, n, type(e).__name__])
                continue
            m = re.fullmatch(r"([\w ]+?)(?:\((\d+(?:, \d+)*)\))?", txt)
            k = 0
            ok = bool(m)
            if ok and m.group(2) is not None:
                got = [int(x) for x in m.group(2).split(", ")]
                k = len(got)
                ok = got == PROBE_ARGS[:k] and k <= n
            if not ok:
                irregular.append([c.__name__, n, txt])
                continue
            render.append([ci, n, m.group(1), k])
    # the identifier preparer, measured on the live object (code points below U+3000)
    prep = d.identifier_preparer
    legal, start = [], None
    for cp in range(0, 0x3001):
        ok = cp < 0x3000 and bool(prep.legal_characters.match(chr(cp)))
        if ok and start is None:
            start = cp
        if not ok and start is not None:
            legal.append([start, cp - 1])
            start = None
    lower = []
    for a, b in legal:
        for cp in range(a, b + 1):
            lo = chr(cp).lower()
            if lo != chr(cp):
                lower.append([cp, [ord(x) for x in lo]])
    ptab = {"reserved": sorted(prep.reserved_words), "legal": legal, "illegal_initial": sorted(ord(c) for c in prep.illegal_initial_characters),
            "lower": lower, "iq": ord(prep.initial_quote), "fq": ord(prep.final_quote), "esc": ord(prep.escape_quote),
            "unesc": ord(prep.escape_quote), "esc_pct": bool(prep._double_percents)}
    return {"classes": [c.__name__ for c in classes], "ischema": isch, "fallbacks": fall, "accepts": accepts,
            "render": render, "irregular": irregular, "prep": ptab}


def _cs(s):
    return "[" + "; ".join(str(ord(c)) for c in s) + "]"


_TABS = {}


def translate(repo, outdir):
    from vlib import implcall

    f = implcall.call("specs.c15", "facts")
    t = f["prep"]
    _TABS["facts"] = f
    _patterns(repo)
    rule, qualified = source_rules(repo)
    ifields, imerged = info_fields(repo)
    src = (
        "(* generated on every run by specs/c15.py from the current source / the live dialect - do not edit *)\n"
        "From Coq Require Import List NArith Bool.\nImport ListNotations.\n"
        "From SAV.base Require Import Tree.\nFrom SAV.sql Require Import Ident Reflect ReflectRun.\nOpen Scope N_scope.\n\n"
        "Definition t_sqlite : prep := {|\n  p_reserved := [\n    %s];\n  p_legal := %s;\n  p_illegal_initial := %s;\n"
        "  p_lower := [%s];\n  p_iq := %d; p_fq := %d; p_esc := %d; p_unesc := %d; p_esc_pct := %s |}.\n\n"
        % (
            ";\n    ".join(_cs(w) for w in t["reserved"]),
            "[" + "; ".join("(%d, %d)" % (a, b) for a, b in t["legal"]) + "]",
            "[" + "; ".join(str(x) for x in t["illegal_initial"]) + "]",
            "; ".join("(%d, [%s])" % (c, "; ".join(str(x) for x in l)) for c, l in t["lower"]),
            t["iq"], t["fq"], t["esc"], t["unesc"], "true" if t["esc_pct"] else "false",
        )
        + "(* classes: %s *)\n" % ", ".join("%d=%s" % (i, n) for i, n in enumerate(f["classes"]))
        + "Definition gen_aff : afftab := {|\n  a_ischema := [\n    %s];\n"
        % ";\n    ".join("(%s, %d)" % (_cs(k), v) for k, v in f["ischema"])
        + "  a_integer := %d; a_text := %d; a_null := %d; a_real := %d; a_numeric := %d;\n" % tuple(f["fallbacks"])
        + "  a_accepts := [%s];\n" % "; ".join("(%d, %d%%nat)" % (c, n) for c, n in f["accepts"])
        + "  a_render := [\n    %s] |}.\n\n" % ";\n    ".join("(%d, %d%%nat, (%s, %d%%nat))" % (c, n, _cs(nm), k) for c, n, nm, k in f["render"])
        + "(* the expression get_columns assigns to `nullable` (nn = PRAGMA notnull, pk = part of the primary key) *)\n"
        + "Definition gen_nullable_rule (nn pk : bool) : bool := %s.\n" % rule
        + "(* does the partial-index lookup of get_indexes name the table's schema? *)\n"
        + "Definition gen_index_query_qualified : bool := %s.\n\n" % ("true" if qualified else "false")
        + "(* _ReflectionInfo: categories %s; the ones update() merges *)\n" % ", ".join("%d=%s" % (i, n) for i, n in enumerate(ifields))
        + "Definition gen_info_nfields : N := %d.\nDefinition gen_info_merged : list N := [%s].\n\n" % (len(ifields), "; ".join(str(i) for i in imerged))
        + "Definition run_case := run_with t_sqlite gen_aff.\n"
    )
    src2 = (
        "(* generated on every run - per-run obligations on the regenerated tables *)\n"
        "From Coq Require Import List NArith Bool.\nImport ListNotations.\n"
        "From SAV.sql Require Import Ident Reflect ReflectProofs ReflectAffinity ReflectTheorems ReflectIndex ReflectInfo.\nRequire Import Gen.Gen_C15.\nOpen Scope N_scope.\n\n"
        "Lemma gen_info_merged_ok : all_below gen_info_nfields gen_info_merged = true.\nProof. vm_compute; reflexivity. Qed.\n"
        "Theorem gen_reflection_info_update_complete : forall self other f k, f < gen_info_nfields ->\n"
        "  lookup (update gen_info_merged self other) f k = match lookup other f k with Some v => Some v | None => lookup self f k end.\n"
        "Proof. exact (update_complete gen_info_merged gen_info_nfields (all_below_spec _ _ gen_info_merged_ok)). Qed.\n"
        "Lemma gen_nullable_rule_ok : forall nn pk, gen_nullable_rule nn pk = negb nn.\nProof. intros [] []; reflexivity. Qed.\n"
        "Lemma gen_index_query_qualified_ok : gen_index_query_qualified = true.\nProof. reflexivity. Qed.\n"
        "Theorem gen_nullable_roundtrip : forall c, reflect_nullable gen_nullable_rule c = c_nullable c.\n"
        "Proof. exact (nullable_roundtrip gen_nullable_rule gen_nullable_rule_ok). Qed.\n"
        "Theorem gen_reflect_where_roundtrip : forall ms schema m iname unique qname qtable qcols w,\n"
        "  assoc_s ms (query_schema gen_index_query_qualified schema) = Some m ->\n"
        "  assoc_s m iname = Some (render_index unique qname qtable qcols (Some w)) -> pred_ok w = true ->\n"
        "  iclean (render_index_head unique qname qtable qcols) (rpar :: [sp] ++ kwWHERE ++ [sp] ++ w) = true ->\n"
        "  reflect_where gen_index_query_qualified ms schema iname = Some w.\n"
        "Proof. rewrite gen_index_query_qualified_ok. intros ms schema m iname unique qname qtable qcols w Hm Hi Hw Hc.\n"
        "  exact (reflect_where_roundtrip ms schema m iname unique qname qtable qcols (Some w) Hm Hi (conj Hw Hc)). Qed.\n"
        "Lemma gen_prep_dq : prep_dq t_sqlite = true.\nProof. vm_compute; reflexivity. Qed.\n"
        "Lemma gen_aff_ok : aff_ok gen_aff = true.\nProof. vm_compute; reflexivity. Qed.\n"
        "(* the property theorems instantiated with the tables the code has NOW *)\n"
        "Theorem gen_type_affinity_stable : forall t text, canon_args t -> render_type gen_aff t = Some text ->\n"
        "  rt_class (affinity gen_aff text) = rt_class t /\\ render_type gen_aff (affinity gen_aff text) = Some text.\n"
        "Proof. exact (type_affinity_stable gen_aff gen_aff_ok). Qed.\n"
        "Theorem gen_ddl_parse_roundtrip : forall uni ps text, wf_parts uni t_sqlite ps = true -> render_parts t_sqlite ps = Ok text ->\n"
        "  parse_uqs uni text = uniques_of ps.\n"
        "Proof. exact (fun uni => ddl_parse_roundtrip uni t_sqlite gen_prep_dq). Qed.\n"
        "Print Assumptions gen_type_affinity_stable.\nPrint Assumptions gen_ddl_parse_roundtrip.\n"
    )
    p1 = os.path.join(outdir, "Gen_C15.v")
    p2 = os.path.join(outdir, "Gen_C15_obl.v")
    with open(p1, "w") as fh:
        fh.write(src)
    with open(p2, "w") as fh:
        fh.write(src2)
    return [p1, p2]


# ====================================================================================================
# Cases
# ====================================================================================================
TOKENS = ["CONSTRAINT", "constraint", "UNIQUE", "unique", " ", "  ", "\n", "\t", '"', '""', "(", ")", ",", "a", "b$", "x y", "Ab_1", "ü",
          "CHECK", "u1", "ſ", ";"]
NAMEPOOL = ["u1", "a b", 'a"b', "a\nb", "b$", "select", "a'b", "a]b", "a,b", "a(b", "a)b", "A", "unique", "constraint", "1a", "a\tb",
            "über", "Ä", "x", "y", "z_9", "my_constraint", "ſ", "K", "a b", "€", "$a", "a.b", 'q"', '"', "uq UNIQUE (x",
            "order", "Mixed", "a;b", "a--b", "☃"]
SAFE_NAMES = ["u1", "a b", "select", "a'b", "a,b", "a(b", "A", "x", "y", "z_9", "über", "Mixed", "order", "a.b", "1a"]


def _uq_texts(rng, tier):
    out = []
    small = ["CONSTRAINT", "UNIQUE", " ", '"', "(", ")", "a", "b$", "\n", ","]
    import itertools

    for n in range(1, 5):
        for tup in itertools.product(small, repeat=n):
            s = "".join(tup)
            if "UNIQUE" in s.upper() and "(" in s:
                out.append(s)
    rng.shuffle(out)
    out = out[: 500 if tier == "quick" else 6000]
    for _ in range(300 if tier == "quick" else 5000):
        k = rng.randint(3, 14)
        out.append("".join(rng.choice(TOKENS) for _ in range(k)))
    # realistic shapes with awkward names
    for _ in range(200 if tier == "quick" else 3000):
        nm = rng.choice(NAMEPOOL)
        q = rng.choice(['"%s"' % nm.replace('"', '""'), nm, "[%s]" % nm, "`%s`" % nm])
        cols = ", ".join(rng.choice(['"%s"' % c.replace('"', '""'), c]) for c in rng.sample(NAMEPOOL, rng.randint(1, 3)))
        sep = rng.choice([" ", "  ", "\n", "\t "])
        out.append("CREATE TABLE t (\n\tx INT, \n\t%sUNIQUE%s(%s)\n)" % (rng.choice(["", "CONSTRAINT%s%s%s" % (sep, q, sep)]), rng.choice(["", " ", "\n"]), cols))
    return out


def _type_strings(rng, tier):
    f = _TABS.get("facts") or {}
    out = set(["", " ", "(", "()", "INT", "INTEGER", "VARCHAR(10)", "VARCHAR (10)", "NUMERIC(10, 2)", "NUMERIC(10,2", "DECIMAL(007,02)",
               "DOUBLE PRECISION", "DOUBLE_PRECISION", "FLOAT(5)", "INTEGER(11)", "BIGINT(20) UNSIGNED", "CHARACTER VARYING(30)", "NVARCHAR(5)",
               "BLOB", "FOO", "FOO(1, 2, 3, 4)", "TIMESTAMP", "DATETIME(6)", "TEXT(3)", "BOOLEAN", "JSON", "REAL(1)", "POINT", "STRING",
               "VARCHAR(10) COLLATE NOCASE", "NUMERIC(1)(2)", "CHAR(a)", "VARCHAR(-5)", "X(1.5)", "INT8", "FLOA", "DOUBT", "CLOB(9)", "MYBLOB(3)",
               "DATE_CHAR", "TIME(3)", "DATE(4)", "NUMERIC(0)", "NUMERIC(00)", "NUMERIC(10 , 2 )", "VARCHAR(10))", "VARCHAR((10))"])
    for k, _ in f.get("ischema", []):
        out.add(k)
        for a in ("(5)", "(5, 3)", "(5, 3, 1)", "()", " (7)"):
            out.add(k + a)
    for c, n, nm, k in f.get("render", []):
        out.add(nm + ("(%s)" % ", ".join(str(x) for x in [12, 4, 3][:k]) if k else ""))
    letters = ["INT", "CHAR", "CLOB", "TEXT", "BLOB", "REAL", "FLOA", "DOUB", "X", "NUM", "_", " ", "9"]
    for _ in range(250 if tier == "quick" else 3000):
        s = "".join(rng.choice(letters) for _ in range(rng.randint(1, 3)))
        r = rng.random()
        if r < 0.5:
            s += "(%s)" % ", ".join(str(rng.choice([0, 1, 7, 10, 255, "007"])) for _ in range(rng.randint(0, 4)))
        elif r < 0.6:
            s += "(" + rng.choice(["", "x", "1,", "1 2", "1.5"])
        out.add(s)
    return sorted(out)


def _uq_specs(rng, tier, pool):
    specs = []
    for _ in range(140 if tier == "quick" else 3000):
        k = rng.randint(1, 3)
        cons = []
        allcols = []
        for _ in range(k):
            cols = rng.sample(pool, rng.randint(1, 3))
            allcols += cols
            cons.append([rng.choice([None, rng.choice(pool), rng.choice(pool)]), cols])
        specs.append(cons)
    return specs


def _guard_name(nm, bare):
    if nm is None:
        return True
    if not nm or '"' in nm or "\n" in nm:
        return False
    if bare:
        return all((c.isalnum() or c == "_") and not c.isspace() for c in nm)
    return True


def gen_cases(rng, tier):
    cases = []
    for s in _uq_texts(rng, tier):
        cases.append({"in": [0, S(s)], "kind": "uq-text"})
    # get_unique_constraints itself on synthetic text
    for _ in range(200 if tier == "quick" else 3000):
        cols = rng.sample(["a", "b", "c d", "e$", 'f"g', "CONSTRAINT", "h"], rng.randint(1, 4))
        cons = []
        for _ in range(rng.randint(0, 3)):
            cc = rng.sample(cols, rng.randint(1, min(2, len(cols))))
            cons.append((rng.choice([None, "uq1", "my uq", 'q"x', "b$"]), cc))
        lines = ["%s %s" % (('"%s"' % c.replace('"', '""')) if not c.replace("$", "").isalnum() or c == "CONSTRAINT" and rng.random() < 0.5 else c,
                            rng.choice(["INTEGER", "VARCHAR(10) NOT NULL", "TEXT UNIQUE", "INTEGER NOT NULL UNIQUE"])) for c in cols]
        for nm, cc in cons:
            q = lambda x: ('"%s"' % x.replace('"', '""')) if not x.replace("$", "").isalnum() or rng.random() < 0.3 else x
            lines.append(("CONSTRAINT %s " % q(nm) if nm else "") + "UNIQUE (%s)" % ", ".join(q(c) for c in cc))
        text = "CREATE TABLE t (\n\t" + ", \n\t".join(lines) + "\n)"
        auto = [list(cc) for _, cc in cons]
        if rng.random() < 0.5:
            auto.append([rng.choice(cols)])
        rng.shuffle(auto)
        seen = []
        auto = [a for a in auto if not (a in seen or seen.append(a))]
        cases.append({"in": [1, [[S(c) for c in a] for a in auto], S(text)], "kind": "uq-join"})
    for cons in _uq_specs(rng, tier, NAMEPOOL):
        cases.append({"in": [2, [[[] if n is None else [S(n)], [S(c) for c in cols]] for n, cols in cons]], "kind": "uq-render"})
    for cons in _uq_specs(rng, "quick", SAFE_NAMES):
        cases.append({"in": [2, [[[] if n is None else [S(n)], [S(c) for c in cols]] for n, cols in cons]], "kind": "uq-render-safe"})
    for s in _type_strings(rng, tier):
        m = re.match(r"[\w ]+\((.*?)\)", s)
        zero = bool(m) and any(int(x) == 0 for x in re.findall(r"\d+", m.group(1)))
        # a zero argument is falsy and some type compilers then leave it out: outside the model, oracle only
        cases.append({"in": [3, S(s)], "kind": "affinity-zero" if zero else "affinity", "model": not zero})
    for s in _index_texts(rng, tier):
        cases.append({"in": [4, S(s)], "kind": "ix-where"})
    cases += _table_cases(rng, tier)
    return cases


def _index_texts(rng, tier):
    toks = [")", " ", "  ", "\n", "\t", "where", "WHERE", "Where", "x > 0", "(", "a", ") where b", "CREATE INDEX i ON t (", "wher", "IS NOT NULL"]
    out = []
    import itertools

    for n in range(1, 4):
        for tup in itertools.product([")", " ", "\n", "where", "x", "("], repeat=n):
            if ")" in tup and "where" in tup:
                out.append("".join(tup))
    for _ in range(150 if tier == "quick" else 2000):
        out.append("".join(rng.choice(toks) for _ in range(rng.randint(2, 9))))
    for _ in range(150 if tier == "quick" else 2000):
        q = lambda x: rng.choice(['"%s"' % x.replace('"', '""'), x])
        cols = ", ".join(q(c) for c in rng.sample(NAMEPOOL, rng.randint(1, 2)))
        pred = rng.choice(["", " WHERE x > 0", " WHERE \"a b\" IS NOT NULL", " where (x > 0) and y", "\nWHERE x", " WHERE  x\ny", " WHERE "])
        out.append("CREATE %sINDEX %s ON %s (%s)%s" % (rng.choice(["", "UNIQUE "]), q(rng.choice(NAMEPOOL)), q(rng.choice(NAMEPOOL)), cols, pred))
    return out


def nontrivial(c):
    t = c["in"]
    if t[0] == 0:
        return "UNIQUE" in unS(t[1]).upper()
    if t[0] == 1:
        return len(t[1]) > 0
    if t[0] == 2:
        return True
    if t[0] == 3:
        s = unS(t[1])
        return "(" in s or " " in s
    if t[0] == 4:
        return "where" in unS(t[1]).lower()
    return bool(c.get("tbl", {}).get("uq") or c.get("tbl", {}).get("fk") or c.get("tbl", {}).get("ix"))


# ====================================================================================================
# Implementation side (model families)
# ====================================================================================================
_RX = {}


def _rx():
    if "uq" not in _RX:
        p = _patterns()
        _RX["uq"] = re.compile(p["UNIQUE_PATTERN"], re.I)
        _RX["inline"] = re.compile(p["INLINE_UNIQUE_PATTERN"], re.I)
        _RX["partial"] = re.compile(p["PARTIAL"], p["PARTIAL_FLAGS"])
    return _RX


def _dialect():
    from sqlalchemy.dialects import sqlite

    if "d" not in _RX:
        _RX["d"] = sqlite.dialect()
    return _RX["d"]


def _cname(d, q, u):
    f = getattr(d, "_constraint_name", None)
    return f(q, u) if f is not None else (q or u)


def _enc_uqs(l):
    return [[[] if n is None else [S(n)], [S(c) for c in cols]] for n, cols in l]


def _class_index(obj):
    f = _RX.get("classes")
    if f is None:
        f = _RX["classes"] = facts()["classes"]
    return f.index(type(obj).__name__)


def impl(c):
    import warnings

    t = c["in"]
    d = _dialect()
    if t[0] == 0:
        text = unS(t[1])
        out = []
        for m in _rx()["uq"].finditer(text):
            q, u, cols = m.group(1, 2, 3)
            out.append((_cname(d, q, u), list(d._find_cols_in_sig(cols))))
        return _enc_uqs(out)
    if t[0] == 1:
        auto = [[unS(x) for x in a] for a in t[1]]
        text = unS(t[2])
        from sqlalchemy.dialects import sqlite

        class D(sqlite.dialect):
            def get_indexes(self, connection, table_name, schema=None, **kw):
                return [{"name": "sqlite_autoindex_t_%d" % (i + 1), "column_names": list(a), "unique": 1} for i, a in enumerate(auto)]

            def _get_table_sql(self, connection, table_name, schema=None, **kw):
                return text

        r = D().get_unique_constraints(None, "t")
        inline = []
        for m in _rx()["inline"].finditer(text):
            inline.append(list(d._find_cols_in_sig(m.group(1) or m.group(2))))
        return [[[S(x) for x in s] for s in inline], _enc_uqs([(e["name"], e["column_names"]) for e in r])]
    if t[0] == 2:
        from sqlalchemy import Column, Integer, MetaData, Table, UniqueConstraint
        from sqlalchemy.schema import CreateTable

        cons = [(None if n == [] else unS(n[0]), [unS(x) for x in cols]) for n, cols in t[1]]
        names = []
        for _, cols in cons:
            for x in cols:
                if x not in names:
                    names.append(x)
        md = MetaData()
        ucs = [UniqueConstraint(*cols, name=n) for n, cols in cons]
        try:
            tb = Table("t", md, *([Column(x, Integer) for x in names] + ucs))
            comp = CreateTable(tb).compile(dialect=d)
            text = str(comp)
            clauses = [comp.process(u) for u in ucs]
        except IndexError:
            return [1]
        segs = []
        pos = 0
        for cl in clauses:
            k = text.index(cl, pos)
            segs.append(text[pos:k])
            pos = k + len(cl)
        segs.append(text[pos:])
        parsed = []
        for m in _rx()["uq"].finditer(text):
            q, u, cols = m.group(1, 2, 3)
            parsed.append((_cname(d, q, u), list(d._find_cols_in_sig(cols))))
        allnames = sorted(set([n for n, _ in cons if n is not None] + names))
        return [0, [S(x) for x in segs], S(text), _enc_uqs(parsed), [[S(n), int(d.identifier_preparer.quote(n) == n)] for n in allnames]]
    if t[0] == 3:
        s = unS(t[1])
        with warnings.catch_warnings():
            warnings.simplefilter("ignore")
            try:
                ty = d._resolve_type_affinity(s)
            except Exception:
                return [-1, []]
            out = [_class_index(ty)]
            try:
                txt = d.type_compiler_instance.process(ty)
            except Exception:
                return [out[0], []]
            ty2 = d._resolve_type_affinity(txt.upper())
            try:
                txt2 = [S(d.type_compiler_instance.process(ty2))]
            except Exception:
                txt2 = []
        return [out[0], [S(txt), _class_index(ty2), txt2]]
    if t[0] == 4:
        m = _rx()["partial"].search(unS(t[1]))
        return [] if m is None else [S(m.group(1))]
    return _table_impl(c)


def model_pair(c, obs):
    """the model input is completed with what only the implementation knows (segments of the real DDL, the
    INLINE_UNIQUE_PATTERN matches); the expected model output is the implementation's observation"""
    t = c["in"]
    if t[0] == 1:
        return [1, t[1], obs[0], t[2]], obs[1]
    if t[0] == 2:
        if obs == [1]:
            return [2, [[1, n, cols] for n, cols in t[1]]], [1]
        segs = obs[1]
        parts = []
        for i, (n, cols) in enumerate(t[1]):
            parts.append([0, segs[i]])
            parts.append([1, n, cols])
        parts.append([0, segs[-1]])
        return [2, parts], [0, obs[2], obs[3]]
    if t[0] == 3:
        return t, obs
    return t, obs


# ====================================================================================================
# The oracle family: generated tables on live SQLite - create, reflect, compare; re-create, reflect, compare
# ====================================================================================================
TYPES = [["Integer"], ["BigInteger"], ["SmallInteger"], ["String", 10], ["String"], ["Text"], ["Unicode", 7], ["Numeric", 10, 2], ["Numeric"],
         ["Float"], ["Boolean"], ["DateTime"], ["Date"], ["Time"], ["LargeBinary"], ["CHAR", 3], ["VARCHAR", 20], ["REAL"], ["DECIMAL", 8, 3],
         ["JSON"], ["TIMESTAMP"], ["Double"], ["NVARCHAR", 5], ["NCHAR", 2], ["Float", 5]]
ACTIONS = [None, None, "CASCADE", "SET NULL", "RESTRICT", "SET DEFAULT", "NO ACTION"]


def _table_cases(rng, tier):
    cases = []
    n = 220 if tier == "quick" else 2500
    for i in range(n):
        awkward = rng.random() < 0.45
        pool = list(NAMEPOOL if awkward else SAFE_NAMES)
        pool = [x for x in pool if x not in ('"',)]
        rng.shuffle(pool)
        ncol = rng.randint(1, 5)
        names = pool[:ncol]
        cols = []
        for nm in names:
            cols.append({"n": nm, "t": rng.choice(TYPES), "null": rng.random() < 0.6,
                         "def": rng.choice([None, None, None, ["text", "0"], ["str", "abc"], ["text", "CURRENT_TIMESTAMP"], ["str", "it's"], ["text", "(1 + 2)"]])})
        pkmode = rng.choice(["none", "one", "one", "two", "int"])
        pk = []
        if pkmode == "int":
            cols[0]["t"] = ["Integer"]
            pk = [names[0]]
        elif pkmode == "one":
            pk = [rng.choice(names)]
        elif pkmode == "two" and ncol >= 2:
            pk = rng.sample(names, 2)
        # primary key members keep their explicit nullability: SQLAlchemy then omits NOT NULL and SQLite
        # really accepts NULL there (unless the column is the rowid alias)
        for c in cols:
            if c["n"] in pk and rng.random() < 0.5:
                c["null"] = False
        other = pool[ncol:]
        tbl = {"name": other.pop() if awkward and rng.random() < 0.3 else "t%d" % (i % 7), "cols": cols, "pk": pk,
               "pkname": (other.pop() if rng.random() < 0.3 else None) if pk else None, "uq": [], "ix": [], "fk": []}
        for _ in range(rng.choice([0, 0, 1, 1, 2])):
            cc = rng.sample(names, rng.randint(1, min(2, ncol)))
            if cc == pk or any(cc == u[1] for u in tbl["uq"]):
                continue
            tbl["uq"].append([other.pop() if rng.random() < 0.6 else None, cc])
        for k in range(rng.choice([0, 0, 1, 2])):
            cc = rng.sample(names, rng.randint(1, min(2, ncol)))
            wh = None
            if rng.random() < 0.5:
                wh = [rng.choice(["gt", "notnull", "and"]), rng.choice(names), rng.choice(names)]
            tbl["ix"].append(["ix%d_%s" % (k, other.pop() if awkward and rng.random() < 0.4 else "n"), cc, rng.random() < 0.4, wh])
        parent = {"name": other.pop() if awkward and rng.random() < 0.3 else "parent", "pk": ["id"] if rng.random() < 0.7 else ["p1", other.pop() if awkward else "p2"]}
        if parent["name"] == tbl["name"]:
            parent["name"] = "parent"
        # the referred table has UNIQUE constraints of its own (plain names: this is about the merge of the
        # reflection data of a table that is pulled in through a foreign key, not about name parsing)
        parent["uq"] = rng.choice([[], [["puq1", ["u1"]]], [[None, ["u1", "u2"]]], [["puq1", ["u2"]], ["puq2", ["u1", "u2"]]]])
        tbl["parent"] = parent
        # how the tables get into the second MetaData: both named / only the referencing one (the referred one is
        # pulled in by resolve_fks) / MetaData.reflect(only=[referencing])
        tbl["rmode"] = rng.choice(["both", "child", "child", "only"])
        for _ in range(rng.choice([0, 0, 1, 1, 2])):
            if len(parent["pk"]) > ncol:
                continue
            cc = rng.sample(names, len(parent["pk"]))
            if any(cc == f["cols"] for f in tbl["fk"]):
                continue
            tbl["fk"].append({"name": other.pop() if rng.random() < 0.6 else None, "cols": cc, "ondelete": rng.choice(ACTIONS),
                              "onupdate": rng.choice(ACTIONS), "deferrable": rng.choice([None, None, True, False]),
                              "initially": rng.choice([None, None, "DEFERRED", "IMMEDIATE"])})
        tbl["schema"] = rng.choice([None, None, "aux"])
        rows = []
        for r in range(5):
            row = []
            for c in cols:
                if c["null"] and rng.random() < 0.35:
                    row.append(None)
                elif c["n"] in pk:
                    row.append(r if rng.random() < 0.8 else 0)
                else:
                    row.append(rng.choice([0, 1, -1, "a", "b"]))
            rows.append(row)
        tbl["rows"] = rows
        cases.append({"in": [9, i], "kind": ("table-awkward" if awkward else "table") + ("-attached" if tbl["schema"] else ""),
                      "model": False, "tbl": tbl})
    return cases


def sqlite_affinity(decl):
    """SQLite's own rule (datatype3.html 3.1) - independent of SQLAlchemy"""
    u = decl.upper()
    if "INT" in u:
        return "INTEGER"
    if "CHAR" in u or "CLOB" in u or "TEXT" in u:
        return "TEXT"
    if "BLOB" in u or not u.strip():
        return "BLOB"
    if "REAL" in u or "FLOA" in u or "DOUB" in u:
        return "REAL"
    return "NUMERIC"


def _build(tbl, md):
    import sqlalchemy as sa

    p = tbl["parent"]
    sch = tbl.get("schema")
    pt = sa.Table(p["name"], md, *([sa.Column(c, sa.Integer, primary_key=True) for c in p["pk"]]
                                   + [sa.Column(c, sa.Integer) for c in ("u1", "u2") if c not in p["pk"]]
                                   + [sa.UniqueConstraint(*cc, name=n) for n, cc in p.get("uq", [])]), schema=sch)
    cols = []
    for c in tbl["cols"]:
        ty = getattr(sa, c["t"][0])(*c["t"][1:])
        d = c["def"]
        sd = None if d is None else (sa.text(d[1]) if d[0] == "text" else d[1])
        cols.append(sa.Column(c["n"], ty, nullable=c["null"], server_default=sd))
    extra = []
    if tbl["pk"]:
        extra.append(sa.PrimaryKeyConstraint(*tbl["pk"], name=tbl["pkname"]))
    for n, cc in tbl["uq"]:
        extra.append(sa.UniqueConstraint(*cc, name=n))
    for f in tbl["fk"]:
        extra.append(sa.ForeignKeyConstraint(f["cols"], [pt.c[x] for x in p["pk"]], name=f["name"], ondelete=f["ondelete"], onupdate=f["onupdate"],
                                             deferrable=f["deferrable"], initially=f["initially"]))
    t = sa.Table(tbl["name"], md, *(cols + extra), schema=sch)
    for ix in tbl["ix"]:
        n, cc, u = ix[:3]
        wh = ix[3] if len(ix) > 3 else None
        kw = {}
        if wh:
            a, b = t.c[wh[1]], t.c[wh[2]]
            kw["sqlite_where"] = {"gt": a > 0, "notnull": a.is_not(None), "and": sa.and_(a > 0, b.is_not(None))}[wh[0]]
        sa.Index(n, *[t.c[x] for x in cc], unique=u, **kw)
    return pt, t


def _engine():
    import sqlalchemy as sa

    e = sa.create_engine("sqlite://")

    @sa.event.listens_for(e, "connect")
    def attach(dbapi_conn, rec):
        dbapi_conn.execute("ATTACH DATABASE ':memory:' AS aux")

    return e


def _ws(x):
    return None if x is None else " ".join(str(x).split())


def _snapshot(insp, name, dialect, schema=None):
    def ty(t):
        try:
            return dialect.type_compiler_instance.process(t)
        except Exception as e:
            return "<%s>" % type(e).__name__

    cols = insp.get_columns(name, schema=schema)
    fks = insp.get_foreign_keys(name, schema=schema)
    pkc = insp.get_pk_constraint(name, schema=schema)

    def where(i):
        w = i.get("dialect_options", {}).get("sqlite_where")
        return None if w is None else _ws(getattr(w, "text", w))

    return {
        "cols": [[c["name"], type(c["type"]).__name__, ty(c["type"]), bool(c["nullable"]), c["default"]] for c in cols],
        "pk": [pkc["constrained_columns"], pkc["name"]],
        "fk": sorted([[f["name"], f["constrained_columns"], f["referred_table"], f["referred_columns"],
                       f["options"].get("ondelete"), f["options"].get("onupdate"), f["options"].get("deferrable"), f["options"].get("initially")] for f in fks],
                     key=lambda x: json.dumps(x)),
        "uq": sorted([[u["name"], u["column_names"]] for u in insp.get_unique_constraints(name, schema=schema)], key=lambda x: json.dumps(x)),
        "ix": sorted([[i["name"], i["column_names"], bool(i["unique"]), where(i)] for i in insp.get_indexes(name, schema=schema)], key=lambda x: json.dumps(x)),
    }


def _table_impl(c):
    import warnings

    import sqlalchemy as sa

    tbl = c["tbl"]
    out = {"created": None, "r1": None, "r2": None, "r1p": None, "r2p": None, "err": None, "bare": {}, "probe": None}
    sch = tbl.get("schema")
    with warnings.catch_warnings():
        warnings.simplefilter("ignore")
        e1 = _engine()
        e2 = _engine()
        md = sa.MetaData()
        try:
            pt, t = _build(tbl, md)
            md.create_all(e1)
        except Exception as ex:
            out["err"] = ["create", type(ex).__name__, str(ex)[:200]]
            return [0, S(json.dumps(out))]
        d = e1.dialect
        prep = d.identifier_preparer
        ddlc = d.ddl_compiler(d, None)
        out["bare"] = {n: (prep.quote(n) == n) for n in set([tbl["name"], tbl["parent"]["name"]] + [x["n"] for x in tbl["cols"]] + tbl["parent"]["pk"]
                                                           + [u[0] for u in tbl["uq"] if u[0]] + [f["name"] for f in tbl["fk"] if f["name"]]
                                                           + ([tbl["pkname"]] if tbl["pkname"] else []))}
        out["created"] = {
            "cols": [[col.name, d.type_compiler_instance.process(col.type), bool(col.nullable),
                      None if col.server_default is None else ddlc.get_column_default_string(col)] for col in t.columns],
            "ix": sorted([[ix.name, [c.name for c in ix.columns], bool(ix.unique),
                           None if ix.dialect_options["sqlite"]["where"] is None else
                           ddlc.sql_compiler.process(ix.dialect_options["sqlite"]["where"], include_table=False, literal_binds=True)]
                          for ix in t.indexes], key=lambda x: json.dumps(x)),
        }
        try:
            out["r1"] = _snapshot(sa.inspect(e1), tbl["name"], d, sch)
            out["r1p"] = _snapshot(sa.inspect(e1), tbl["parent"]["name"], d, sch)
        except Exception as ex:
            out["err"] = ["reflect", type(ex).__name__, str(ex)[:200]]
            return [0, S(json.dumps(out))]
        try:
            m2 = sa.MetaData()
            mode = tbl.get("rmode", "both")
            if mode == "both":
                sa.Table(tbl["parent"]["name"], m2, schema=sch, autoload_with=e1)
            if mode == "only":
                m2.reflect(bind=e1, schema=sch, only=[tbl["name"]])
            else:
                sa.Table(tbl["name"], m2, schema=sch, autoload_with=e1)
            m2.create_all(e2)
            out["r2"] = _snapshot(sa.inspect(e2), tbl["name"], d, sch)
            pkey = tbl["parent"]["name"] if sch is None else sch + "." + tbl["parent"]["name"]
            if pkey in m2.tables:
                out["r2p"] = _snapshot(sa.inspect(e2), tbl["parent"]["name"], d, sch)
        except Exception as ex:
            out["err"] = ["recreate", type(ex).__name__, str(ex)[:200]]
            return [0, S(json.dumps(out))]
        # data probe: a row the original table accepts must be accepted by the re-created one
        import sqlite3

        sql = "INSERT INTO %s (%s) VALUES (%s)" % (prep.format_table(t), ", ".join(prep.quote(c["n"]) for c in tbl["cols"]),
                                                  ", ".join("?" for _ in tbl["cols"]))
        with e1.connect() as c1, e2.connect() as c2:
            for row in tbl.get("rows", []):
                try:
                    c1.exec_driver_sql(sql, tuple(row))
                except sa.exc.DBAPIError:
                    continue
                try:
                    c2.exec_driver_sql(sql, tuple(row))
                except sa.exc.DBAPIError as ex:
                    out["probe"] = [row, str(ex.orig)[:160]]
                    break
    return [0, S(json.dumps(out))]


# ---- what the known defects of the name/column groups do to a constraint (mirrors the _refuted theorems)
def _bad_chars(n, bare):
    return '"' in n or "\n" in n or (bare and "$" in n)


def _defect_name(n, bare):
    # (names containing '"' and bare names containing '$' are read back correctly since /repo ae21374, 24f65cc)
    if n is None:
        return None
    if "\n" in n:
        return None
    return n


ID_DQ = "C15-constraint-name-dquote-doubled"
ID_NL = "C15-constraint-name-newline-none"
ID_DOLLAR = "C15-constraint-name-bare-dollar-none"
ID_UQCOL = "C15-unique-column-chars-dropped"
ID_FKCOL = "C15-fk-column-chars-lose-name-and-options"


def _name_rule(n, bare):
    if n is None:
        return None
    if "\n" in n:
        return ID_NL
    return None


def _which(tbl, bare, asp):
    """the finding the FIRST affected constraint of this aspect belongs to"""
    if asp == "pkname":
        return _name_rule(tbl["pkname"], bare)
    if asp == "uq":
        for n, cc in sorted(tbl["uq"], key=json.dumps):
            if any(_bad_chars(x, bare.get(x)) or ")" in x for x in cc):
                return ID_UQCOL
            if _name_rule(n, bare):
                return _name_rule(n, bare)
    if asp == "fk":
        p = tbl["parent"]
        for f in sorted(tbl["fk"], key=lambda f: json.dumps([f["name"], f["cols"]])):
            if any(_bad_chars(x, bare.get(x)) for x in f["cols"] + p["pk"] + [p["name"]]):
                return ID_FKCOL
            if _name_rule(f["name"], bare):
                return _name_rule(f["name"], bare)
    return None


def _expected(tbl, bare):
    """-> (ideal, with_known_defects) of the uq / fk / pkname aspects"""
    ideal = {"uq": sorted([[n, cc] for n, cc in tbl["uq"]], key=json.dumps)}
    known = {"uq": sorted([[_defect_name(n, bare), cc] for n, cc in tbl["uq"]
                           if not any(_bad_chars(x, bare.get(x)) or ")" in x for x in cc)], key=json.dumps)}
    p = tbl["parent"]
    fi, fk = [], []
    for f in tbl["fk"]:
        od = None if f["ondelete"] in (None, "NO ACTION") else f["ondelete"]
        ou = None if f["onupdate"] in (None, "NO ACTION") else f["onupdate"]
        fi.append([f["name"], f["cols"], p["name"], p["pk"], od, ou])
        lost = any(_bad_chars(x, bare.get(x)) for x in f["cols"] + p["pk"] + [p["name"]])
        fk.append([None, f["cols"], p["name"], p["pk"], None, None] if lost else [_defect_name(f["name"], bare), f["cols"], p["name"], p["pk"], od, ou])
    ideal["fk"] = sorted(fi, key=json.dumps)
    known["fk"] = sorted(fk, key=json.dumps)
    ideal["pkname"] = tbl["pkname"] if tbl["pk"] else None
    known["pkname"] = _defect_name(tbl["pkname"], bare) if tbl["pk"] else None
    return ideal, known


def _norm_default(d):
    """SQLite reports DEFAULT (expr) without the parentheses: compare the expressions"""
    if d is None:
        return None
    d = d.strip()
    while len(d) >= 2 and d[0] == "(" and d[-1] == ")":
        depth = 0
        for i, ch in enumerate(d):
            depth += ch == "("
            depth -= ch == ")"
            if depth == 0 and i < len(d) - 1:
                return d
        d = d[1:-1].strip()
    return d


def _table_oracle(c, obs):
    o = json.loads(unS(obs[1]))
    tbl = c["tbl"]
    if o["err"] and o["err"][0] in ("create",):
        return None  # the definition is not one the backend accepts: outside the property
    if o["err"] and o["err"][0] == "reflect":
        return "ASPECT=reflect known=- :: reflection of the created table raised %s: %s" % (o["err"][1], o["err"][2])
    r1 = o["r1"]
    cr = o["created"]["cols"]
    if [x[0] for x in r1["cols"]] != [x[0] for x in cr]:
        return "ASPECT=columns known=- :: created %s reflected %s" % ([x[0] for x in cr], [x[0] for x in r1["cols"]])
    for a, b in zip(cr, r1["cols"]):
        if sqlite_affinity(a[1]) != sqlite_affinity(b[2]):
            return "ASPECT=affinity known=- :: column %r created as %s (affinity %s) reflected as %s (affinity %s)" % (a[0], a[1], sqlite_affinity(a[1]), b[2], sqlite_affinity(b[2]))
        if a[2] != b[3]:
            return "ASPECT=nullable known=- :: column %r created nullable=%s reflected %s" % (a[0], a[2], b[3])
        if _norm_default(a[3]) != _norm_default(b[4]):
            return "ASPECT=default known=- :: column %r created default %r reflected %r" % (a[0], a[3], b[4])
    if r1["pk"][0] != tbl["pk"]:
        return "ASPECT=pk known=- :: created %s reflected %s" % (tbl["pk"], r1["pk"][0])
    ideal, known = _expected(tbl, o["bare"])
    got = {"uq": r1["uq"], "fk": sorted([f[:6] for f in r1["fk"]], key=json.dumps), "pkname": r1["pk"][1]}
    for asp in ("uq", "fk", "pkname"):
        if got[asp] != ideal[asp]:
            k = "-"
            if got[asp] == known[asp]:
                k = _which(tbl, o["bare"], asp) or "-"
            elif asp == "uq" and any(re.search(r"(?i)unique\s*\(", x) for x in [tbl["name"], tbl["pkname"] or ""] + [c["n"] for c in tbl["cols"]]
                                     + [u[0] or "" for u in tbl["uq"]] + [f["name"] or "" for f in tbl["fk"]] + tbl["parent"]["pk"] + [tbl["parent"]["name"]]):
                k = "C15-unique-pattern-matches-inside-identifier"
            return "ASPECT=%s known=%s :: created %s reflected %s" % (asp, k, json.dumps(ideal[asp]), json.dumps(got[asp]))
    want_ix = [x[:3] + [_ws(x[3])] for x in o["created"]["ix"]]
    if r1["ix"] != want_ix:
        return "ASPECT=indexes known=- :: created %s reflected %s" % (json.dumps(want_ix), json.dumps(r1["ix"]))
    if o["err"]:
        k = "-"
        if o["err"][1] in ("ArgumentError", "NoReferencedTableError", "NoReferencedColumnError", "InvalidRequestError") and tbl["fk"] and any(
            "." in x for x in tbl["parent"]["pk"] + [tbl["parent"]["name"]]
        ):
            k = "C15-fk-dotted-referred-name"
        return "ASPECT=recreate known=%s :: re-creating the reflected table raised %s: %s" % (k, o["err"][1], o["err"][2])
    if o["r2"] != r1:
        diff = [k for k in r1 if r1[k] != o["r2"][k]]
        k = "-"
        return "ASPECT=fixpoint:%s known=%s :: first reflection %s, reflection of the re-created table %s" % (
            ",".join(diff), k, json.dumps({x: r1[x] for x in diff}), json.dumps({x: o["r2"][x] for x in diff}))
    # the referred table: its UNIQUE constraints are reflected, and survive reflection through the foreign key
    puq = sorted([[n, cc] for n, cc in tbl["parent"].get("uq", [])], key=json.dumps)
    if o.get("r1p") and not any(_bad_chars(x, o["bare"].get(x)) or ")" in x for x in tbl["parent"]["pk"]) and o["r1p"]["uq"] != puq:
        return "ASPECT=referred-uq known=- :: referred table created with %s reflected %s" % (json.dumps(puq), json.dumps(o["r1p"]["uq"]))
    if o.get("r2p") and o["r2p"] != o["r1p"]:
        diff = [k for k in o["r1p"] if o["r1p"][k] != o["r2p"][k]]
        return "ASPECT=fixpoint-referred:%s known=- :: the referred table, reflected through the foreign key (%s) and re-created: first reflection %s, after re-creation %s" % (
            ",".join(diff), tbl.get("rmode"), json.dumps({x: o["r1p"][x] for x in diff}), json.dumps({x: o["r2p"][x] for x in diff}))
    if o.get("probe"):
        return "ASPECT=data-probe known=- :: the re-created table rejects the row %s which the original accepted: %s" % (
            json.dumps(o["probe"][0]), o["probe"][1])
    return None


def oracle(c, obs):
    t = c["in"]
    if t[0] == 9:
        return _table_oracle(c, obs)
    if t[0] == 2 and obs and obs[0] == 0:
        # the constraints that were created are the ones the parser finds in the DDL that was emitted
        created = [[None if n == [] else unS(n[0]), [unS(x) for x in cols]] for n, cols in t[1]]
        parsed = [[None if n == [] else unS(n[0]), [unS(x) for x in cols]] for n, cols in obs[3]]
        if created != parsed:
            bare = {unS(n): bool(b) for n, b in obs[4]}
            good = [cn for cn in created if not ((cn[0] is not None and "\n" in cn[0])
                                                 or any(_bad_chars(x, bare.get(x)) or ")" in x for x in cn[1]))]
            it = iter(parsed)
            unharmed = all(any(g == q for q in it) for g in good)
            k = "-"
            if unharmed and len(good) < len(created):
                k = _which({"uq": created}, bare, "uq") or "-"
            return "ASPECT=uq-parse known=%s :: created %s, found in the emitted DDL %s" % (k, json.dumps(created), json.dumps(parsed))
    if t[0] == 3:
        if len(obs) == 2 and obs[1]:
            txt, cls2, txt2 = obs[1]
            if cls2 != obs[0] or txt2 != [txt]:
                return "ASPECT=type-fixpoint known=- :: type %r reflects as class %d rendering %r; that text reflects as class %d rendering %r" % (
                    unS(t[1]), obs[0], unS(txt), cls2, [unS(x) for x in txt2])
    return None


def match_finding(c, what):
    m = re.match(r"ASPECT=(\S+) known=(\S+) ::", what)
    if not m or m.group(2) == "-":
        return None
    return m.group(2)


def impl_facts():
    f = dict(_TABS.get("facts") or {})
    import sqlite3

    return {"sqlite_version": sqlite3.sqlite_version, "irregular_type_renderings": (facts() if not f else f).get("irregular")}
