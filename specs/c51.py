"""C51 - pickling and serializer round trips preserve state and results (PARTIAL: the SQLAlchemy codecs).

Case (tree): [family, ...]   family 0 instance state, 1 load path, 2 Row, 3 FrozenResult, 4 ext.serializer
  [0, kind, muts, proto]   kind: how the object is obtained (0 transient, 1 pending, 2 persistent, 3 loaded with
                           selectinload+undefer, 4 child loaded through an aliased parent with options, 5 child loaded
                           through joinedload+defer, 6 detached, 7 loaded with defer+lazyload options);
                           muts: operations applied before pickling (see _MUTS); proto: pickle protocol 2..5
  [1, path]                path elements [kind, id]: kind 0 mapper, 1 aliased class, 2 property
  [2, orm, cols, proto]    a SELECT of generated (labelled) column expressions; the first row is pickled
  [3, orm, cols, proto]    the same result frozen (Result.freeze()), pickled, thawed
  [4, world, leaves...]    a statement over generated table/column names or the mapped classes, ext.serializer
The observation is [model input, model output, extra...]: the model input is the ABSTRACTION of what the
implementation had before the round trip, the model output what it had afterwards (coq/orm/PickleRun.v);
the extra part feeds the oracle (attribute values read through fresh sessions, SQL text, result rows).
"""
import atexit
import os
import shutil
import tempfile
import warnings
import zlib

ID = "C51"
LEVEL = "proof"
PROPS = "props/C51.v"
RUNNER = ("SAV.orm.PickleRun", "run_case")
STATIC_MODULES = ["SAV.orm.PickleRun", "SAV.orm.PickleProofs"]
RULE = (
    "instance states: 8 ways of obtaining a mapped object (transient, pending, persistent, detached, loaded with "
    "selectinload/undefer, child reached through an aliased parent or a joinedload path with defer(), defer+lazyload "
    "options) x every single and selected pairs of 10 pre-pickle operations (attribute change, expire one/all, load a "
    "deferred column, append to a loaded / unloaded collection, pending backref mutation, info, refresh, flush) x pickle "
    "protocols 2-5; load paths: all alternating mapper/property paths up to length 5 over two classes with every "
    "aliased/plain marking; Rows and FrozenResults of generated Core and ORM column SELECTs (labels, expressions, "
    "repeated columns, a Column whose key differs from its name); ext.serializer on statements over generated "
    "table/column names (incl. ':' , newline, dots, spaces), over schema-qualified tables (SQLite ATTACHed schema with a "
    "same-named table in the default schema, different rows) and over the mapped classes (entities, attributes, relationship properties, aliased). non-trivial = the "
    "object is not a pristine transient / the path has >= 2 elements / the SELECT has >= 2 columns / the statement has >= 2 "
    "persistent ids"
)
TRUSTED = [
    "hand-written Gallina transcription (coq/orm/Pickle.v) of InstanceState.__getstate__/__setstate__ as a table-driven "
    "dict codec, PathRegistry._serialize_path/_deserialize_path, CursorResultMetaData/SimpleResultMetaData "
    "__getstate__/__setstate__, Row.__reduce__, FrozenResult, ext.serializer persistent_id/persistent_load; pinned to the "
    "normalised source; the key tables of __getstate__/__setstate__ are re-extracted from the AST on every run",
    "pickle (CPython) and class lookup by name: Section variables with unpickle (pickle x) = x; nested values of the state "
    "dict (attribute values, loader callables, Load options, parents) are plain data for the model and are compared by a "
    "canonical digest computed by the harness",
    "the harness' abstraction of an InstanceState (which attributes are set on the instance, canonical codes of values)",
]
ASSUMPTIONS = [
    "classes are importable by name in the unpickling process and mapped there; the MetaData given to the Deserializer "
    "contains the tables the statement names",
    "column / property keys (and keys of tables referenced through a column) contain no ':' (otherwise the serializer "
    "is refuted, finding C51-serializer-colon-in-name; newlines are fine since /repo 973ce94)",
]
ANCHORS = [
    ("lib/sqlalchemy/orm/state.py", "InstanceState.__getstate__"),
    ("lib/sqlalchemy/orm/state.py", "InstanceState.__setstate__"),
    ("lib/sqlalchemy/orm/instrumentation.py", "_SerializeManager"),
    ("lib/sqlalchemy/orm/path_registry.py", "PathRegistry._serialize_path"),
    ("lib/sqlalchemy/orm/path_registry.py", "PathRegistry._deserialize_path"),
    ("lib/sqlalchemy/orm/path_registry.py", "PathRegistry.serialize"),
    ("lib/sqlalchemy/orm/path_registry.py", "PathRegistry.deserialize"),
    ("lib/sqlalchemy/engine/_row_cy.py", "BaseRow.__reduce__"),
    ("lib/sqlalchemy/engine/_row_cy.py", "BaseRow.__getstate__"),
    ("lib/sqlalchemy/engine/_row_cy.py", "BaseRow.__setstate__"),
    ("lib/sqlalchemy/engine/_row_cy.py", "rowproxy_reconstructor"),
    ("lib/sqlalchemy/engine/cursor.py", "CursorResultMetaData.__getstate__"),
    ("lib/sqlalchemy/engine/cursor.py", "CursorResultMetaData.__setstate__"),
    ("lib/sqlalchemy/engine/result.py", "SimpleResultMetaData.__getstate__"),
    ("lib/sqlalchemy/engine/result.py", "SimpleResultMetaData.__setstate__"),
    ("lib/sqlalchemy/engine/result.py", "FrozenResult.__init__"),
    ("lib/sqlalchemy/engine/result.py", "FrozenResult.__call__"),
    ("lib/sqlalchemy/ext/serializer.py", "Serializer"),
    ("lib/sqlalchemy/ext/serializer.py", "our_ids"),
    ("lib/sqlalchemy/ext/serializer.py", "Deserializer.persistent_load"),
]

KEY_NAMES = [
    "instance", "class_", "committed_state", "expired_attributes", "_pending_mutations", "modified", "expired",
    "callables", "key", "parents", "load_options", "info", "load_path", "manager", "session_id", "identity_token",
    "insert_order",
]
KEPT = KEY_NAMES[:14]


# ---------------------------------------------------------------- T2: key tables of __getstate__/__setstate__
def _extract_tables(repo):
    import ast

    with open(os.path.join(repo, "lib/sqlalchemy/orm/state.py")) as f:
        tree = ast.parse(f.read())
    cls = next(n for n in tree.body if isinstance(n, ast.ClassDef) and n.name == "InstanceState")
    fns = {n.name: n for n in cls.body if isinstance(n, ast.FunctionDef)}
    gs, ss = fns["__getstate__"], fns["__setstate__"]

    def fail(msg, node=None):
        raise ValueError("T2 cannot read %s%s" % (msg, "" if node is None else ": " + ast.unparse(node)[:200]))

    def is_sd(n):
        return isinstance(n, ast.Name) and n.id == "state_dict"

    writes = []
    body = [s for s in gs.body if not (isinstance(s, ast.Expr) and isinstance(s.value, ast.Constant))]
    for st in body:
        if isinstance(st, (ast.Assign, ast.AnnAssign)):
            tgt = st.targets[0] if isinstance(st, ast.Assign) else st.target
            if is_sd(tgt) and isinstance(st.value, ast.Dict):
                for k in st.value.keys:
                    if not (isinstance(k, ast.Constant) and isinstance(k.value, str)):
                        fail("__getstate__ dict key", k)
                    writes.append((k.value, "WAlways"))
                continue
            if isinstance(tgt, ast.Subscript) and is_sd(tgt.value) and isinstance(tgt.slice, ast.Constant):
                writes.append((tgt.slice.value, "WAlways"))
                continue
            fail("__getstate__ assignment", st)
        elif isinstance(st, ast.Expr) and isinstance(st.value, ast.Call):
            c = st.value
            if not (isinstance(c.func, ast.Attribute) and c.func.attr == "update" and is_sd(c.func.value)
                    and len(c.args) == 1 and isinstance(c.args[0], ast.GeneratorExp)):
                fail("__getstate__ call", st)
            g = c.args[0]
            comp = g.generators[0]
            if not (len(g.generators) == 1 and isinstance(comp.iter, ast.Tuple) and len(comp.ifs) == 1
                    and ast.unparse(comp.ifs[0]) == "k in self.__dict__" and ast.unparse(g.elt) == "(k, self.__dict__[k])"):
                fail("__getstate__ generator", g)
            for k in comp.iter.elts:
                writes.append((k.value, "WIfSet"))
        elif isinstance(st, ast.If):
            if not (isinstance(st.test, ast.Attribute) and ast.unparse(st.test.value) == "self" and not st.orelse
                    and len(st.body) == 1 and isinstance(st.body[0], ast.Assign)):
                fail("__getstate__ if", st)
            tgt = st.body[0].targets[0]
            if not (isinstance(tgt, ast.Subscript) and is_sd(tgt.value) and tgt.slice.value == st.test.attr):
                fail("__getstate__ if-body", st)
            writes.append((tgt.slice.value, "WIfTruthy"))
        elif isinstance(st, ast.Return):
            if not is_sd(st.value):
                fail("__getstate__ return", st)
        else:
            fail("__getstate__ statement", st)

    # __setstate__: every access to state_dict, in source order
    acc = {}  # key -> set of forms; order by first position
    order = []

    def note(k, form, node, dflt=None):
        if k not in acc:
            acc[k] = {}
            order.append(((node.lineno, node.col_offset), k))
        acc[k][form] = dflt

    comp_names = {}
    for n in ast.walk(ss):
        if isinstance(n, ast.ListComp) and len(n.generators) == 1 and isinstance(n.generators[0].iter, ast.Tuple):
            comp = n.generators[0]
            if len(comp.ifs) == 1 and ast.unparse(comp.ifs[0]) == "%s in state_dict" % comp.target.id:
                for k in comp.iter.elts:
                    note(k.value, "in", k)
                    note(k.value, "sub", k)
                comp_names[comp.target.id] = True
    for n in ast.walk(ss):
        if isinstance(n, ast.Subscript) and is_sd(n.value):
            if isinstance(n.slice, ast.Constant):
                if isinstance(n.ctx, ast.Load):
                    note(n.slice.value, "sub", n)
                else:
                    fail("__setstate__ store into state_dict", n)
            elif not (isinstance(n.slice, ast.Name) and n.slice.id in comp_names):
                fail("__setstate__ subscript", n)
        elif isinstance(n, ast.Call) and isinstance(n.func, ast.Attribute) and is_sd(n.func.value):
            if n.func.attr != "get" or len(n.args) != 2 or not isinstance(n.args[0], ast.Constant):
                fail("__setstate__ call on state_dict", n)
            d = n.args[1]
            if isinstance(d, ast.Dict) and not d.keys:
                code = "c_empty_dict"
            elif isinstance(d, ast.Constant) and d.value is False:
                code = "c_false"
            else:
                fail("__setstate__ default", n)
            note(n.args[0].value, "get", n, code)
        elif isinstance(n, ast.Compare) and len(n.comparators) == 1 and is_sd(n.comparators[0]):
            if not (isinstance(n.ops[0], ast.In) and isinstance(n.left, (ast.Constant, ast.Name))):
                fail("__setstate__ test", n)
            if isinstance(n.left, ast.Constant):
                note(n.left.value, "in", n)
        elif isinstance(n, ast.Name) and n.id == "state_dict" and isinstance(n.ctx, ast.Store):
            fail("__setstate__ rebinds state_dict", n)
    reads = []
    for _, k in sorted(order):
        forms = acc[k]
        if "get" in forms:
            reads.append((k, "RGet %s" % forms["get"]))
        elif "in" in forms:
            reads.append((k, "RIfPresent"))
        else:
            reads.append((k, "RRequired"))
    return writes, reads


def pin_check(repo):
    """normalised-source pin of the transcribed functions (the key tables are regenerated independently)"""
    from translate import fingerprint

    fingerprint.check(repo, ANCHORS, "C51")


def translate(repo, outdir):
    writes, reads = _extract_tables(repo)
    path = os.path.join(outdir, "C51_keys.v")
    with open(path, "w") as f:
        f.write("(* generated by specs/c51.py from InstanceState.__getstate__/__setstate__ (lib/sqlalchemy/orm/state.py) *)\n")
        f.write("From Coq Require Import List ZArith Bool String.\nImport ListNotations.\n")
        f.write("From SAV.orm Require Import Pickle PickleProofs.\nOpen Scope string_scope.\n")
        f.write("Definition gen_writes : wtable :=\n  [%s].\n" % ";\n   ".join('("%s", %s)' % kw for kw in writes))
        f.write("Definition gen_reads : rtable :=\n  [%s].\n" % ";\n   ".join('("%s", %s)' % kr for kr in reads))
        f.write("(* every key written is read back and vice versa; fallbacks agree with the class defaults *)\n")
        f.write("Lemma gen_tables_ok : codec_ok gen_writes gen_reads = true.\nProof. vm_compute. reflexivity. Qed.\n")
        f.write("(* the tables the model (and the correspondence runner) uses are the ones of the source *)\n")
        f.write("Lemma gen_tables_are_modelled : gen_writes = model_writes /\\ gen_reads = model_reads.\n"
                "Proof. split; reflexivity. Qed.\n")
        f.write("Theorem gen_state_roundtrip : forall s, state_ok s ->\n"
                "  exists s', setstate gen_reads (getstate gen_writes s) = Some s' /\\\n"
                "    (forall k, mem k (rkeys gen_reads) = true -> getattr s' k = norm (getattr s k)) /\\\n"
                "    (forall k, mem k (rkeys gen_reads) = false -> getattr s' k = class_default k).\n"
                "Proof. intros s Hs. exact (state_roundtrip_tables _ _ s gen_tables_ok Hs). Qed.\n"
                "Print Assumptions gen_state_roundtrip.\n")
    return [path]


# ---------------------------------------------------------------- canonical codes of values
def _crc(s):
    return zlib.crc32(s.encode("utf8", "backslashreplace")) % 900000


def _path_tokens(path):
    """PathRegistry / raw path -> [[kind, id]] ; classes by index in _ENV['classes'], properties by name index"""
    env = _ENV
    out = []
    for tok in path:
        if getattr(tok, "is_mapper", False):
            out.append([0, env["classes"].index(tok.class_)])
        elif getattr(tok, "is_aliased_class", False):
            out.append([1, env["classes"].index(tok.mapper.class_)])
        elif hasattr(tok, "key") and hasattr(tok, "parent"):
            out.append([2, env["propkeys"].index(tok.key)])
        else:
            out.append([3, _crc(str(tok))])
    return out


def _canon(v, depth=0):
    """a repr that is equal for equal plain data before and after pickling"""
    from sqlalchemy.orm.path_registry import PathRegistry

    if depth > 6:
        return "..."
    if v is None or isinstance(v, (bool, int, str, float)):
        return repr(v)
    if isinstance(v, dict) or hasattr(v, "items") and hasattr(v, "keys"):
        return "{" + ",".join(sorted("%s:%s" % (_canon(k, depth + 1), _canon(x, depth + 1)) for k, x in v.items())) + "}"
    if isinstance(v, (set, frozenset)):
        return "S{" + ",".join(sorted(_canon(x, depth + 1) for x in v)) + "}"
    if isinstance(v, (list, tuple)):
        return "[" + ",".join(_canon(x, depth + 1) for x in v) + "]"
    if isinstance(v, type):
        return "cls:" + v.__name__
    if isinstance(v, PathRegistry):
        return "path:" + repr([[0 if k == 1 else k, i] for k, i in _path_tokens(v.path)])
    st = getattr(v, "_sa_instance_state", None)
    if st is not None:
        return "obj:%s:%s" % (type(v).__name__, st.dict.get("id"))
    tn = type(v).__name__
    if tn == "InstanceState":
        return "state:%s:%s" % (v.class_.__name__, v.dict.get("id") if v.obj() is not None else None)
    if tn == "PendingCollection":
        return "pc:%s:%s" % (_canon(list(v.added_items), depth + 1), _canon(list(v.deleted_items), depth + 1))
    if tn == "Load":
        return "load:%s:%s" % (_canon(v.path, depth + 1), _canon(list(v.context), depth + 1))
    if tn.endswith("LoadElement"):
        return "%s:%s:%s:%s" % (tn, _canon(v.path, depth + 1), _canon(v.strategy, depth + 1),
                                _canon(getattr(v, "local_opts", None), depth + 1))
    if hasattr(v, "name") and hasattr(v, "value") and tn.endswith(("Status", "Flag", "symbol")):
        return "sym:" + str(v.name)
    if hasattr(v, "key") and tn.startswith("_Load"):
        return "%s:%s" % (tn, v.key)
    return "<" + tn + ">"


def _code(v):
    if v is None:
        return 0
    if v is False:
        return 2
    if isinstance(v, (set, frozenset)) and not v:
        return 3
    if isinstance(v, tuple) and not v:
        return 4
    if not isinstance(v, (str, int, list, tuple, set, frozenset)) and hasattr(v, "keys") and len(v) == 0:
        return 1
    return 100 + _crc(_canon(v))


def _inst_code(st):
    o = st.obj()
    if o is None:
        return 0
    return 100 + _crc("inst:%s:%s" % (type(o).__name__, _canon({k: x for k, x in st.dict.items() if k != "_sa_instance_state"})))


def _sval(k, st, v):
    if k == "load_path":
        return [1, _path_tokens(v.path)]
    if k == "instance":
        return [0, _inst_code(st)]
    if k == "manager":
        return [0, 100 + _crc("mgr:" + v.class_.__name__)]
    if k == "session_id":
        return [0, 0 if v is None else 7]
    if k == "insert_order":
        return [0, 0 if v is None else 8]
    return [0, _code(v)]


def _abstract(st):
    """-> (entries of the model's state dict, effective values of all keys)"""
    ents = [[0, _sval("instance", st, None)], [1, _sval("class_", st, st.class_)],
            [2, _sval("committed_state", st, st.committed_state)],
            [3, _sval("expired_attributes", st, st.expired_attributes)],
            [13, _sval("manager", st, st.manager)]]
    for i, k in enumerate(KEY_NAMES):
        if i >= 4 and i != 13 and k in st.__dict__:
            ents.append([i, _sval(k, st, st.__dict__[k])])
    eff = []
    for k in KEY_NAMES:
        eff.append(_sval(k, st, None if k == "instance" else getattr(st, k, None)))
    return ents, eff


# ---------------------------------------------------------------- environment
_ENV = {}
A = B = None  # the mapped classes must be importable as specs.c51.A / specs.c51.B


def _env():
    global A, B
    if _ENV:
        return _ENV
    from sqlalchemy import Column, ForeignKey, Integer, create_engine
    from sqlalchemy.orm import Session, configure_mappers, declarative_base, deferred, relationship

    warnings.simplefilter("ignore")
    base = "/dev/shm" if os.path.isdir("/dev/shm") else None
    d = tempfile.mkdtemp(prefix="c51_", dir=base)
    atexit.register(shutil.rmtree, d, True)
    Base = declarative_base()

    class A_(Base):
        __tablename__ = "a"
        id = Column(Integer, primary_key=True)
        x = Column(Integer)
        y = deferred(Column(Integer))
        bs = relationship("B", back_populates="a", order_by="B.id")

    class B_(Base):
        __tablename__ = "b"
        id = Column(Integer, primary_key=True)
        a_id = Column(ForeignKey("a.id"))
        z = Column(Integer)
        a = relationship("A", back_populates="bs")

    from sqlalchemy import Table

    kt = Table("kt", Base.metadata, Column("id", Integer, primary_key=True), Column("name", Integer, key="k"))
    A_.__name__ = A_.__qualname__ = "A"
    B_.__name__ = B_.__qualname__ = "B"
    A_.__module__ = B_.__module__ = __name__
    A, B = A_, B_
    Base.registry._class_registry["A"] = A
    Base.registry._class_registry["B"] = B
    configure_mappers()
    eng = create_engine("sqlite:///" + os.path.join(d, "db.sqlite"))
    Base.metadata.create_all(eng)
    with Session(eng) as s:
        s.add_all([A(id=1, x=5, y=6, bs=[B(id=1, z=1), B(id=2, z=2)]), A(id=2, x=7, y=8), B(id=3, z=3)])
        s.execute(kt.insert(), [{"id": 1, "k": 7}, {"id": 2, "k": 9}])
        s.commit()
    _ENV.update(Base=Base, eng=eng, classes=[A, B], propkeys=["bs", "a", "x", "z", "y", "id", "a_id"])
    return _ENV


# ---------------------------------------------------------------- family 0: instance state
_MUTS = 10


def _obtain(kind, s):
    from sqlalchemy import select
    from sqlalchemy.orm import aliased, defer, joinedload, lazyload, selectinload, undefer

    if kind == 0:
        return A(id=10, x=1)
    if kind == 1:
        o = A(id=10, x=1)
        s.add(o)
        return o
    if kind == 2:
        return s.get(A, 1)
    if kind == 3:
        return s.execute(select(A).where(A.id == 1).options(selectinload(A.bs), undefer(A.y))).scalars().one()
    if kind == 4:
        aa = aliased(A)
        a = s.execute(select(aa).where(aa.id == 1).options(selectinload(aa.bs).defer(B.z))).scalars().one()
        return a.bs[0]
    if kind == 5:
        a = s.execute(select(A).where(A.id == 1).options(joinedload(A.bs).defer(B.z))).unique().scalars().one()
        return a.bs[1]
    if kind == 6:
        o = s.get(A, 1)
        s.expunge(o)
        return o
    return s.execute(select(B).where(B.id == 1).options(defer(B.z), lazyload(B.a))).scalars().one()


def _mutate(m, o, s):
    from sqlalchemy import inspect

    st = inspect(o)
    isA = isinstance(o, A)
    attached = st.session is not None
    if m == 0:
        if isA:
            o.x = 9
        else:
            o.z = 9
    elif m == 1:
        if attached and st.key:
            s.expire(o, ["x" if isA else "z"])
    elif m == 2:
        if attached and st.key:
            s.expire(o)
    elif m == 3:
        if attached:
            getattr(o, "y" if isA else "z")
    elif m == 4:
        if isA and (attached or "bs" in st.dict):
            s.info["n50"] = s.info.get("n50", 0) + 1  # a fresh primary key per application
            o.bs.append(B(id=48 + 2 * s.info["n50"], z=5))
    elif m == 5:
        if isA:
            s.info["n51"] = s.info.get("n51", 0) + 1
            B(id=49 + 2 * s.info["n51"], z=6).a = o  # queued on o.bs when that collection is not loaded
        else:
            o.a = None
    elif m == 6:
        st.info["note"] = 3
    elif m == 7:
        if attached and st.persistent:
            s.refresh(o)
    elif m == 8:
        if attached:
            s.flush()
    elif m == 9:
        if isA:
            o.x = o.x  # no net change, history only


def _values(o):
    """canonical values of all mapped attributes, read through the attribute API (may load)"""
    out = []
    names = ["id", "x", "y", "bs"] if isinstance(o, A) else ["id", "a_id", "z", "a"]
    for n in names:
        try:
            v = getattr(o, n)
            if isinstance(v, list):
                v = [(type(x).__name__, x.id) for x in v]
            elif hasattr(v, "_sa_instance_state"):
                v = (type(v).__name__, v.id)
            out.append(100 + _crc(repr(v)))
        except Exception as e:  # DetachedInstanceError and friends: part of the observable behaviour
            out.append(_crc(type(e).__name__) % 90)
    return out


def _impl_state(c):
    import pickle

    from sqlalchemy import inspect
    from sqlalchemy.orm import Session

    env = _env()
    _, kind, muts, proto = c["in"]
    s = Session(env["eng"], autoflush=False)
    s2 = Session(env["eng"], autoflush=False)
    s3 = Session(env["eng"], autoflush=False)
    try:
        o = _obtain(kind, s)
        for m in muts:
            _mutate(m, o, s)
        pre_ents, pre_eff = _abstract(inspect(o))
        data = pickle.dumps(o, proto)
        o2 = pickle.loads(data)
        _, post_eff = _abstract(inspect(o2))
        life = [int(inspect(o).transient), int(inspect(o).pending), int(inspect(o).persistent), int(inspect(o).detached)]
        life2 = [int(inspect(o2).transient), int(inspect(o2).pending), int(inspect(o2).persistent), int(inspect(o2).detached)]
        # behaviour: the original in its session against a second unpickled copy re-attached with
        # session.add() to a fresh session on the same (committed) data; nothing is flushed.  Skipped when the
        # program flushed: the copy's session cannot see the original's uncommitted rows
        o3 = pickle.loads(data)
        if inspect(o).session is not None:
            s3.add(o3)
        vals, vals3 = ([], []) if 8 in muts else (_values(o), _values(o3))
        return [[0, pre_ents], post_eff, pre_eff, life, life2, vals, vals3]
    finally:
        for x in (s, s2, s3):
            x.rollback()
            x.close()


# ---------------------------------------------------------------- family 1: load paths
def _impl_path(c):
    from sqlalchemy import inspect
    from sqlalchemy.orm import aliased
    from sqlalchemy.orm.path_registry import PathRegistry

    env = _env()
    toks = []
    for kind, i in c["in"][1]:
        if kind == 0:
            toks.append(inspect(env["classes"][i]))
        elif kind == 1:
            toks.append(inspect(aliased(env["classes"][i])))
        else:
            owner = toks[-1].mapper
            toks.append(owner.attrs[env["propkeys"][i]])
    p = PathRegistry.coerce(tuple(toks))
    try:
        p2 = PathRegistry.deserialize(p.serialize())
        out = [1, _path_tokens(p2.path)]
    except Exception:
        out = [0]
    return [[1, c["in"][1]], out]


# ---------------------------------------------------------------- families 2 and 3: rows, frozen results
def _select(orm, cols):
    from sqlalchemy import literal, select

    env = _env()
    if orm == 2:  # Core table with a Column whose .key differs from its name
        kt = env["Base"].metadata.tables["kt"]
        return select(kt).order_by(kt.c.id)
    t = env["Base"].metadata.tables["a"] if not orm else None
    exprs = []
    for n, (kind, which, arg) in enumerate(cols):
        base = ([t.c.id, t.c.x, t.c.y] if not orm else [A.id, A.x, A.y])[which % 3]
        if kind == 0:
            exprs.append(base)
        elif kind == 1:
            exprs.append(base.label("l%d" % n))
        elif kind == 2:
            exprs.append((base + arg).label("e%d" % n))
        else:
            exprs.append(literal(arg).label("k%d" % n))
    return select(*exprs).select_from(t if not orm else A).order_by(t.c.id if not orm else A.id)


def _impl_row(c):
    import pickle

    from sqlalchemy.orm import Session

    env = _env()
    _, orm, cols, proto = c["in"]
    stmt = _select(orm, cols)
    objs = []

    def kcode(k):
        if isinstance(k, str):
            return [0, _crc(str(k))]
        if isinstance(k, int):
            return [1, k]
        for i, x in enumerate(objs):
            if x is k:
                return [2, i]
        objs.append(k)
        return [2, len(objs) - 1]

    with Session(env["eng"]) as s:
        res = s.execute(stmt) if orm == 1 else s.connection().execute(stmt)
        row = res.all()[0]
    md = row._parent
    keys = [_crc(str(k)) for k in md._keys]
    kmap, lookups, lobjs = [], [], []
    for k, rec in md._keymap.items():
        if rec[0] is None:
            continue
        kmap.append(kcode(k) + [rec[0]])
        lookups.append(kcode(k))
        lobjs.append(k)
    lookups.append([0, 424242])
    lobjs.append("no_such_key")
    data = [(-1 if v is None else v) for v in row._data]
    row2 = pickle.loads(pickle.dumps(row, proto))
    res2 = []
    for k in lobjs:
        try:
            v = row2._mapping[k]
            res2.append([-1 if v is None else v])
        except Exception:
            res2.append([])
    out = [[_crc(str(k)) for k in row2._parent._keys], [(-1 if v is None else v) for v in row2._data], res2]
    same = [int(row2 == row), int(tuple(row2) == tuple(row)), int(list(row2._fields) == list(row._fields))]
    return [[2, keys, kmap, data, lookups], out, same, [int(isinstance(k, str)) for k in lobjs]]


def _impl_frozen(c):
    import pickle

    from sqlalchemy.orm import Session

    env = _env()
    _, orm, cols, proto = c["in"]
    stmt = _select(orm, cols)
    with Session(env["eng"]) as s:
        fr = (s.execute(stmt) if orm == 1 else s.connection().execute(stmt)).freeze()
    objs = []

    def kcode(k):
        if isinstance(k, str):
            return [0, _crc(str(k))]
        if isinstance(k, int):
            return [1, k]
        for i, x in enumerate(objs):
            if x is k:
                return [2, i]
        objs.append(k)
        return [2, len(objs) - 1]

    keys = [_crc(str(k)) for k in fr.metadata._keys]
    rows = [[(-1 if v is None else v) for v in r] for r in fr().all()]
    kmap, lookups, lobjs = [], [], []
    for k, rec in fr.metadata._keymap.items():
        if rec[0] is None:
            continue
        kmap.append(kcode(k) + [rec[0]])
        lookups.append(kcode(k))
        lobjs.append(k)
    lookups.append([0, 424242])
    lobjs.append("no_such_key")
    fr2 = pickle.loads(pickle.dumps(fr, proto))
    res = []
    for k in lobjs:
        rec = fr2.metadata._keymap.get(k)
        res.append([] if rec is None or rec[0] is None else [rec[0]])
    out = [[_crc(str(k)) for k in fr2().keys()], int(bool(fr2._source_supports_scalars)),
           [[(-1 if v is None else v) for v in r] for r in fr2().all()], res]
    # for the oracle: which lookups are strings, and is the string one of the result keys
    kinds = [[int(isinstance(k, str)), int(isinstance(k, str) and str(k) in [str(x) for x in fr.metadata._keys])] for k in lobjs]
    return [[3, keys, int(bool(fr._source_supports_scalars)), rows, kmap, lookups], out, kinds]


# ---------------------------------------------------------------- family 4: ext.serializer
_NAMES = ["t", "u", "a:b", "w\nz", "s t", "q.r", "x", "y", "id", "c:d", "n\nm", "tab:le"]


def _impl_serializer(c):
    import pickle
    from io import BytesIO

    from sqlalchemy import Column, Integer, MetaData, Table, create_engine, select
    from sqlalchemy.ext import serializer
    from sqlalchemy.orm import Mapper, MapperProperty, Session, aliased, class_mapper
    from sqlalchemy.util import b64encode

    env = _env()
    spec = c["in"]
    world = spec[1]
    log = []

    class Rec(serializer.Serializer):
        def persistent_id(self, obj):
            r = super().persistent_id(obj)
            if r is not None:
                log.append((obj, r))
            return r

    if world == 0:
        # Core: [4, 0, tables [[name idx, [col name idx..]]..], picks [[table no, col no]..], whole [table no..]]
        md = MetaData()
        tabs = []
        for tn, cns in spec[2]:
            tabs.append(Table(_NAMES[tn], md, *[Column(_NAMES[cn], Integer, primary_key=(k == 0)) for k, cn in enumerate(cns)]))
        cols = [list(tabs[a].c)[b] for a, b in spec[3]]
        stmt = select(*(cols + [tabs[a] for a in spec[4]]))
        if cols:
            stmt = stmt.where(cols[0] >= 0).order_by(cols[0])
        eng = create_engine("sqlite://")
        md.create_all(eng)
        with eng.begin() as conn:
            for t in tabs:
                conn.execute(t.insert(), [{c_.key: 1 + i + j for j, c_ in enumerate(t.c)} for i in range(2)])
        run = lambda st: [list(r) for r in eng.connect().execute(st).all()]
    elif world == 2:
        # schema-qualified tables: [4, 2, form, proto]; "item" in the default schema and in the ATTACHed schema
        # "archive" (different rows), "only" in "archive" alone
        from sqlalchemy import event
        from sqlalchemy.pool import StaticPool

        md = MetaData()
        item = Table("item", md, Column("id", Integer, primary_key=True), Column("label", Integer))
        arch = Table("item", md, Column("id", Integer, primary_key=True), Column("label", Integer), schema="archive")
        only = Table("only", md, Column("v", Integer, primary_key=True), schema="archive")
        eng = create_engine("sqlite://", poolclass=StaticPool)

        @event.listens_for(eng, "connect")
        def _attach(dbapi_con, rec):
            dbapi_con.execute("ATTACH DATABASE ':memory:' AS archive")

        md.create_all(eng)
        with eng.begin() as conn:
            conn.execute(item.insert(), [{"id": 1, "label": 10}, {"id": 2, "label": 20}, {"id": 3, "label": 30}])
            conn.execute(arch.insert(), [{"id": 1, "label": 20}, {"id": 2, "label": 77}])
            conn.execute(only.insert(), [{"v": 4}, {"v": 5}])
        stmt = [
            select(arch.c.id, arch.c.label).order_by(arch.c.id),
            select(arch).where(arch.c.id >= 2),
            select(item.c.label, arch.c.label).join_from(item, arch, item.c.id == arch.c.id).order_by(item.c.id),
            select(only.c.v).order_by(only.c.v),
            select(item.c.id).where(item.c.label.in_(select(arch.c.label))).order_by(item.c.id),
            select(arch.c.label.label("l"), item.c.label).where(arch.c.id == item.c.id).order_by(item.c.id),
        ][spec[2] % 6]

        def run(st):
            with eng.connect() as conn:
                return [list(r) for r in conn.execute(st).all()]
    else:
        # ORM: [4, 1, form]
        md = env["Base"].metadata
        form = spec[2]
        aa = aliased(A)
        stmt = [
            select(A).order_by(A.id),
            select(A.id, A.x).where(A.x > 1).order_by(A.id),
            select(B).join(B.a).where(A.x == 5).order_by(B.id),
            select(A.id, B.z).join(A.bs).order_by(B.id),
            select(aa.id).where(aa.x > 1).order_by(aa.id),
            select(B.id).where(B.a.has(A.x == 5)).order_by(B.id),
            select(A).where(A.bs.any(B.z == 2)),
        ][form % 7]

        def run(st):
            with Session(env["eng"]) as s:
                return [[(x.id if hasattr(x, "_sa_instance_state") else (-1 if x is None else x)) for x in r]
                        for r in s.execute(st).all()]

    buf = BytesIO()
    Rec(buf, 2 + spec[-1] % 4).dump(stmt)
    tables_env = [[list(map(ord, t.key)), [list(map(ord, c_.key)) for c_ in t.c]] for t in md.tables.values()]
    classes_env = []
    for i, cl in enumerate(env["classes"]):
        classes_env.append([i, list(map(ord, b64encode(pickle.dumps(cl)))), [list(map(ord, p.key)) for p in class_mapper(cl).attrs]])
    leaves, ids = [], []
    for obj, pid in log:
        ids.append(list(map(ord, pid)))
        if isinstance(obj, Mapper):
            leaves.append([2, env["classes"].index(obj.class_)])
        elif isinstance(obj, MapperProperty):
            leaves.append([3, env["classes"].index(obj.parent.class_), list(map(ord, obj.key))])
        elif isinstance(obj, Table):
            if "parententity" in obj._annotations:
                leaves.append([4, env["classes"].index(obj._annotations["parententity"].class_)])
            else:
                leaves.append([0, list(map(ord, obj.key))])
        else:
            leaves.append([1, list(map(ord, obj.table.key)), list(map(ord, obj.key))])
    code, sql_same, rows_same, what = 0, 1, 1, []
    try:
        stmt2 = serializer.loads(buf.getvalue(), md)
        sql_same = int(str(stmt2) == str(stmt))
        rows_same = int(run(stmt2) == run(stmt))
    except ValueError as e:
        code, what = 2, list(map(ord, "ValueError: %s" % e))
    except KeyError as e:
        code, what = 3, list(map(ord, "KeyError: %s" % e))
    return [[4, tables_env, classes_env, leaves], [ids, code], [sql_same, rows_same], what]


def _orig(c):
    """the generated case: the framework overwrites c["in"] with the model input (model_pair) after impl ran"""
    return c.get("orig", c["in"])


def impl(c):
    c = {"in": _orig(c)}
    return [_impl_state, _impl_path, _impl_row, _impl_frozen, _impl_serializer][c["in"][0]](c)


def model_pair(c, obs):
    return obs[0], obs[1]


# ---------------------------------------------------------------- generators
def _paths():
    """all alternating paths over A(0)/B(1): A -bs-> B -a-> A ..., optional final column property"""
    out = []
    rel = {0: (0, 1), 1: (1, 0)}  # class -> (relationship prop index, target class)
    colp = {0: 2, 1: 3}

    def go(prefix, cls, depth):
        for alias in (0, 1):
            p = prefix + [[alias, cls]]
            out.append(p)
            out.append(p + [[2, colp[cls]]])
            if depth < 2:
                out.append(p + [[2, rel[cls][0]]])
                go(p + [[2, rel[cls][0]]], rel[cls][1], depth + 1)

    go([], 0, 0)
    go([], 1, 0)
    return out


def _rand_cols(rng):
    return [[rng.randint(0, 3), rng.randint(0, 2), rng.randint(1, 9)] for _ in range(rng.randint(1, 5))]


def _rand_core_stmt(rng, weird):
    pool = list(range(len(_NAMES))) if weird else [0, 1, 4, 5, 6, 7, 8]
    tn = rng.sample(pool, rng.randint(1, 3))
    tabs = []
    for t in tn:
        tabs.append([t, rng.sample(pool, rng.randint(1, 3))])
    picks = [[a, rng.randrange(len(tabs[a][1]))] for a in [rng.randrange(len(tabs)) for _ in range(rng.randint(0, 3))]]
    whole = [rng.randrange(len(tabs))] if (not picks or rng.random() < 0.3) else []
    return [4, 0, tabs, picks, whole, rng.randint(0, 3)]


def gen_cases(rng, tier):
    cases = []
    pairs = [(0, 1), (0, 2), (1, 3), (2, 3), (0, 4), (4, 1), (5, 0), (5, 2), (0, 8), (4, 8), (5, 8), (0, 7), (6, 2),
             (3, 0), (9, 1), (0, 9), (8, 0), (2, 0), (1, 0), (4, 5)]
    n = 0
    for kind in range(8):
        for muts in [[]] + [[m] for m in range(_MUTS)]:
            for proto in (2, 3, 4, 5):
                cases.append({"in": [0, kind, muts, proto], "kind": "state"})
        for a, b in pairs:
            cases.append({"in": [0, kind, [a, b], 2 + n % 4], "kind": "state2"})
            n += 1
    if tier == "thorough":
        for kind in range(8):
            for _ in range(150):
                cases.append({"in": [0, kind, [rng.randrange(_MUTS) for _ in range(rng.randint(2, 4))], rng.randint(2, 5)], "kind": "state-random"})
    for p in _paths():
        cases.append({"in": [1, p], "kind": "path"})
    for _ in range(600 if tier == "thorough" else 90):
        cases.append({"in": [2, rng.randint(0, 1), _rand_cols(rng), rng.randint(2, 5)], "kind": "row"})
    for _ in range(400 if tier == "thorough" else 60):
        cases.append({"in": [3, rng.randint(0, 1), _rand_cols(rng), rng.randint(2, 5)], "kind": "frozen"})
    for _ in range(600 if tier == "thorough" else 100):
        cases.append({"in": _rand_core_stmt(rng, False), "kind": "serializer-core"})
    for _ in range(200 if tier == "thorough" else 30):
        cases.append({"in": _rand_core_stmt(rng, True), "kind": "serializer-names"})
    for form in range(7):
        for proto in range(4):
            cases.append({"in": [4, 1, form, proto], "kind": "serializer-orm"})
    for form in range(6):
        for proto in range(4):
            cases.append({"in": [4, 2, form, proto], "kind": "serializer-schema"})
    for proto in range(2, 6):
        cases.append({"in": [2, 2, [], proto], "kind": "row"})
        cases.append({"in": [3, 2, [], proto], "kind": "frozen"})
    for c in cases:
        c["orig"] = c["in"]
    return cases


def nontrivial(c):
    i = _orig(c)  # the generated case or, for a witness without "orig", the model input derived from it
    if i[0] == 0:
        if len(i) == 2:
            return any(e[0] in (4, 7, 8, 9, 10, 11, 12) for e in i[1])
        return i[1] != 0 or bool(i[2])
    if i[0] == 1:
        return len(i[1]) >= 2
    if i[0] in (2, 3):
        return i[1] == 2 or len(i[1] if isinstance(i[1], list) else i[2]) >= 2
    if isinstance(i[1], list):
        return len(i[3]) >= 2
    return i[1] in (1, 2) or len(i[3]) + len(i[4]) >= 2


# ---------------------------------------------------------------- the property itself
def _erase(sv):
    return [sv[0], [[0 if k == 1 else k, i] for k, i in sv[1]]] if sv[0] == 1 else sv


def oracle(c, obs):
    c = {"in": _orig(c)}
    fam = c["in"][0]
    if fam == 0:
        _, post, pre, life, life2, vals, vals3 = obs
        for i, k in enumerate(KEY_NAMES[:14]):
            if _erase(pre[i]) != _erase(post[i]):
                return "InstanceState.%s differs after the pickle round trip (canonical codes %s -> %s)" % (k, pre[i], post[i])
        if vals != vals3:
            return "attribute values read from the unpickled copy differ from the detached original: %s vs %s" % (vals3, vals)
        return None
    if fam == 1:
        want = [[0 if k == 1 else k, i] for k, i in c["in"][1]]
        if obs[1] != [1, want]:
            return "load path %s came back as %s" % (c["in"][1], obs[1])
        return None
    if fam == 2:
        mi, out, same, isstr = obs
        if out[0] != mi[1] or out[1] != mi[3]:
            return "row keys/data changed: %s %s -> %s %s" % (mi[1], mi[3], out[0], out[1])
        if same != [1, 1, 1]:
            return "unpickled Row does not compare equal to the original (%s)" % (same,)
        for (kind, z, idx), strkey, r in zip(mi[2], isstr, out[2]):
            if strkey and r != [mi[3][idx]]:
                return "string key lookup %s on the unpickled row gives %s, expected %s" % (z, r, mi[3][idx])
        return None
    if fam == 3:
        mi, out, kinds = obs
        if out[0] != mi[1] or out[1] != mi[2] or out[2] != mi[3]:
            return "frozen result changed: keys %s rows %s -> keys %s rows %s" % (mi[1], mi[3], out[0], out[2])
        for (kind, z, idx), (isstr, iskey), r in zip(mi[4], kinds, out[3]):
            if isstr and r != [idx]:
                return "%s %s of the frozen result resolved to column %d, after pickling to %s" % (
                    "result key" if iskey else "string alias (Column.key / table_column label)", z, idx, r)
        return None
    mi, out, same, what = obs
    if out[1] != 0:
        return "serializer.loads(serializer.dumps(stmt)) raised %s" % "".join(chr(x) for x in what)
    if same != [1, 1]:
        return "deserialized statement differs (same SQL text, same rows) = %s" % (same,)
    return None


def match_finding(c, what):
    i = _orig(c)
    if i[0] == 3 and what.startswith("string alias"):
        return "C51-frozen-result-loses-string-aliases"
    if i[0] == 4 and (isinstance(i[1], list) or i[1] == 0) and "raised" in what:
        if isinstance(i[1], list):  # the framework has replaced the case input by the model input (model_pair)
            used = {"".join(map(chr, t)) for t, _ in i[1]} | {"".join(map(chr, x)) for _, cs in i[1] for x in cs}
        else:
            used = {_NAMES[t] for t, _ in i[2]} | {_NAMES[x] for _, cs in i[2] for x in cs}
        if "ValueError: too many values to unpack" in what and any(":" in n for n in used):
            return "C51-serializer-colon-in-name"
        if ("KeyError" in what or "ValueError: not enough values to unpack" in what) and any("\n" in n for n in used):
            return "C51-serializer-newline-in-name"
    return None


LEVEL_TEXT = (
    "PARTIAL. Machine-checked proofs (Coq) about the SQLAlchemy-side codecs, with pickle itself a Section variable "
    "(unpickle (pickle x) = x on plain data): (1) InstanceState.__getstate__/__setstate__ as a dict codec driven by two "
    "key tables - general theorem for EVERY pair of tables satisfying a boolean side condition (every key written is "
    "read back and vice versa, unconditional reads are always written, fallbacks equal the class defaults): all 14 "
    "attributes keep their value for every state (every lifecycle, expired attributes, pending collection mutations, "
    "callables, loader options and load path), everything else falls back to the class default; the tables of the "
    "current source are extracted from the AST on every run and the side condition is discharged by vm_compute; (2) "
    "PathRegistry.serialize/deserialize = identity on all alternating paths up to replacing aliased classes by their "
    "mappers (refuted for aliases, guarded otherwise); (3) Row / CursorResultMetaData and FrozenResult / "
    "SimpleResultMetaData: data, keys and every string key lookup (incl. Column.key and table_column aliases, since /repo "
    "dd3ca1b) are preserved, lookups by Column objects are lost; (4) "
    "ext.serializer: loads(dumps(stmt)) = stmt for every statement tree whose persistent objects exist in the target "
    "environment and whose column/property keys contain no ':' - refuted otherwise (one known finding; the newline "
    "and frozen-alias findings are fixed and kept as revert witnesses)."
)
LEVEL_NOTE = (
    "Outside the proof: the pickle byte format, class import by name, the nested __getstate__ methods of attribute "
    "values / loader callables / Load options / MetaData (treated as plain data, compared by digest in the "
    "correspondence), the re-derivation of identity_token from key, MutableComposite/extension pickle events. The "
    "execution-equivalence clause is checked on SQLite by the oracle only. Trusted: Coq kernel, the hand "
    "transcription (pin + correspondence), the AST key-table extractor (fails closed). No axioms."
)
TECHNIQUE = (
    "Coq: table-driven codec with a reflective side condition (T1/T2: key tables regenerated from the AST), "
    "round-trip theorems with refuted/guarded pairs; trace-style correspondence (abstraction of the real objects "
    "before/after) + behavioural oracle through fresh sessions"
)
