"""C09 - column types round-trip values; bind/result processing applied exactly once."""

ID = "C09"
LEVEL = "proof"
PROPS = "props/C09.v"
RUNNER = ("SAV.sql.TypesRun", "run_case")
STATIC_MODULES = ["SAV.sql.TypesRun"]
RULE = (
    "families (all on SQLite, wire = the parameter the DBAPI cursor receives, captured with "
    "before_cursor_execute): dt = DATETIME/DATE/TIME x {fromisoformat, custom regexp, truncate_microseconds} "
    "x boundary values (0001-01-01, 9999-12-31 23:59:59.999999, 29 Feb of leap/non-leap/century years, "
    "microsecond 0/1/999999, date given to DATETIME, datetime given to DATE, wrong Python type) + random "
    "valid values; wire = crafted strings of the storage-format shapes (month 0/13, day 0/30/31/32 per "
    "month, hour 24, second 60, leap days) through the result processors; interval = timedelta incl. "
    "negative, +-1 us, day boundaries, the extremes that keep epoch+td inside datetime, and overflow; "
    "boolean (True/False/None/0/1/2/-1/str and raw integers); numeric = Numeric/Float x asdecimal x scale x "
    "decimal_return_scale: chosen processors and Decimal results; enum = non-native Enum over an enum class "
    "with values_callable / over plain strings, members, value strings, unknown strings, validate_strings; "
    "uuid = Uuid as CHAR(32) incl. 0, 2^128-1 and malformed stored strings; json none_as_null x {None, "
    "JSON.NULL, null(), document}; asm = counting TypeDecorators (1 or 2 nested, with/without "
    "process_bind_param/process_result_value, over String or a base type with processors) under every "
    "nesting of label/subquery/CTE/UNION/scalar subquery/type_coerce up to depth 4, finally selected, "
    "RETURNED or loaded through the ORM: the executed processor steps vs the model, for a stored value AND for a "
    "stored NULL; the same decorators over the real impl types that have a SQLite result processor (Boolean, "
    "DateTime, Numeric, Interval, PickleType, Uuid, JSON(none_as_null), Enum; oracle only). Oracle-only families: "
    "Integer/BigInteger/String/Unicode/Text/LargeBinary/PickleType/JSON documents/Float round trips via "
    "SELECT, RETURNING and ORM load. non-trivial = a boundary value of the type's domain or a nesting depth >= 2"
)
TRUSTED = [
    "hand-written Gallina transcription of the SQLite DATETIME/DATE/TIME processors, str_to_datetime_processor_factory, "
    "int_to_boolean, to_decimal_processor_factory, NumericCommon/Numeric/Float processor selection, Interval, "
    "Enum lookups, Uuid, JSON/PickleType None handling, TypeDecorator.bind_processor/result_processor, pinned to "
    "the normalised source and compared behaviourally on every run (pure-Python _processors_cy loaded from source)",
    "CPython library behaviour on the strings the processors produce: '%0Nd' % n (digs), date/time/datetime."
    "fromisoformat on the fixed-width shapes of the storage formats, re.match of the three documented regexps, "
    "datetime +/- timedelta via _ymd2ord/_ord2ymd (their inverse law is PROVED for all 3652059 ordinals), "
    "UUID.hex / UUID(hex) - hand transcriptions validated against CPython 3.12 by the same correspondence",
    "float(Decimal) and '%.Nf' % float are exact for values of at most 15 significant digits (IEEE-754 "
    "DBL_DIG); json/pickle round-trip their documents (Section hypotheses)",
]
ASSUMPTIONS = [
    "SQLite only. Documented SQLite limits are classified, not reported: timezone information is not stored, "
    "Numeric beyond 15 significant digits or beyond the return scale is rounded, -0.0 may lose its sign as Decimal, "
    "Interval values whose epoch+value leaves 0001..9999 raise OverflowError",
    "ARRAY, native Enum/Uuid/Interval/Boolean and the PostgreSQL/MySQL dialect types are not executable here "
    "and not modelled",
]
ANCHORS = [
    ("lib/sqlalchemy/dialects/sqlite/base.py", "_DateTimeMixin"),
    ("lib/sqlalchemy/dialects/sqlite/base.py", "DATETIME"),
    ("lib/sqlalchemy/dialects/sqlite/base.py", "DATE"),
    ("lib/sqlalchemy/dialects/sqlite/base.py", "TIME"),
    ("lib/sqlalchemy/engine/_processors_cy.py", "int_to_boolean"),
    ("lib/sqlalchemy/engine/_processors_cy.py", "to_float"),
    ("lib/sqlalchemy/engine/_processors_cy.py", "str_to_datetime"),
    ("lib/sqlalchemy/engine/_processors_cy.py", "str_to_time"),
    ("lib/sqlalchemy/engine/_processors_cy.py", "str_to_date"),
    ("lib/sqlalchemy/engine/_processors_cy.py", "to_decimal_processor_factory"),
    ("lib/sqlalchemy/engine/processors.py", "str_to_datetime_processor_factory"),
    ("lib/sqlalchemy/sql/sqltypes.py", "NumericCommon._effective_decimal_return_scale"),
    ("lib/sqlalchemy/sql/sqltypes.py", "NumericCommon.bind_processor"),
    ("lib/sqlalchemy/sql/sqltypes.py", "Numeric.result_processor"),
    ("lib/sqlalchemy/sql/sqltypes.py", "Float.result_processor"),
    ("lib/sqlalchemy/sql/sqltypes.py", "Boolean._strict_as_bool"),
    ("lib/sqlalchemy/sql/sqltypes.py", "Boolean.bind_processor"),
    ("lib/sqlalchemy/sql/sqltypes.py", "Boolean.result_processor"),
    ("lib/sqlalchemy/sql/sqltypes.py", "Interval.bind_processor"),
    ("lib/sqlalchemy/sql/sqltypes.py", "Interval.result_processor"),
    ("lib/sqlalchemy/sql/sqltypes.py", "Interval.epoch"),
    ("lib/sqlalchemy/sql/sqltypes.py", "Enum._parse_into_values"),
    ("lib/sqlalchemy/sql/sqltypes.py", "Enum._setup_for_values"),
    ("lib/sqlalchemy/sql/sqltypes.py", "Enum._db_value_for_elem"),
    ("lib/sqlalchemy/sql/sqltypes.py", "Enum._object_value_for_elem"),
    ("lib/sqlalchemy/sql/sqltypes.py", "Enum.bind_processor"),
    ("lib/sqlalchemy/sql/sqltypes.py", "Enum.result_processor"),
    ("lib/sqlalchemy/sql/sqltypes.py", "Uuid.bind_processor"),
    ("lib/sqlalchemy/sql/sqltypes.py", "Uuid.result_processor"),
    ("lib/sqlalchemy/sql/sqltypes.py", "_Binary.bind_processor"),
    ("lib/sqlalchemy/sql/sqltypes.py", "_Binary.result_processor"),
    ("lib/sqlalchemy/sql/sqltypes.py", "JSON._make_bind_processor"),
    ("lib/sqlalchemy/sql/sqltypes.py", "JSON.bind_processor"),
    ("lib/sqlalchemy/sql/sqltypes.py", "JSON.result_processor"),
    ("lib/sqlalchemy/sql/sqltypes.py", "PickleType.bind_processor"),
    ("lib/sqlalchemy/sql/sqltypes.py", "PickleType.result_processor"),
    ("lib/sqlalchemy/sql/type_api.py", "TypeDecorator.bind_processor"),
    ("lib/sqlalchemy/sql/type_api.py", "TypeDecorator.result_processor"),
    ("lib/sqlalchemy/engine/default.py", "DefaultExecutionContext.get_result_processor"),
]


def translate(repo, outdir):
    from translate import fingerprint

    fingerprint.check(repo, ANCHORS, "C09")
    return []


# ---------------------------------------------------------------- generator
OP_DT, OP_WIRE, OP_INTERVAL, OP_BOOL, OP_NUM, OP_ENUM, OP_UUID, OP_ASM, OP_JSON = range(9)
OP_UUIDWIRE = 16
OP_ORACLE = 30          # oracle-only round trips (not evaluated by the model)
US_DAY = 86400 * 10**6
EPOCH_ORD = 719163
MAX_ORD = 3652059

_DATES = [
    (1, 1, 1), (9999, 12, 31), (2020, 2, 29), (2000, 2, 29), (1900, 2, 28), (2100, 3, 1), (1970, 1, 1),
    (1969, 12, 31), (2024, 12, 31), (4, 2, 29), (400, 2, 29), (9999, 1, 1), (1, 12, 31), (2023, 2, 28),
    (1582, 10, 10), (10, 10, 10), (999, 9, 9),
]
_TIMES = [
    (0, 0, 0, 0), (23, 59, 59, 999999), (0, 0, 0, 1), (12, 30, 45, 500000), (1, 2, 3, 4), (23, 0, 0, 0),
    (0, 59, 0, 999), (9, 9, 9, 90909), (0, 0, 59, 100000),
]


def _rand_date(rng):
    import datetime as dt

    return tuple(dt.date.fromordinal(rng.randint(1, MAX_ORD)).timetuple()[:3])


def _rand_time(rng):
    return (rng.randrange(24), rng.randrange(60), rng.randrange(60), rng.choice([0, 1, 999999, rng.randrange(10**6)]))


def _s(text):
    return [ord(c) for c in text]


def _wire_cases(rng, n):
    out = []
    months = [0, 1, 2, 4, 12, 13, 99]
    days = [0, 1, 28, 29, 30, 31, 32]
    years = [0, 1, 4, 100, 1900, 2000, 2023, 2024, 9999]
    for _ in range(n):
        y, m, d = rng.choice(years), rng.choice(months), rng.choice(days)
        h, mi, s = rng.choice([0, 23, 24, 12]), rng.choice([0, 59, 60]), rng.choice([0, 59, 60, 61])
        us = rng.choice([0, 1, 999999, 123456])
        variant = rng.choice([0, 0, 1])
        kind = rng.randrange(3)
        frac = rng.random() < 0.7
        if kind == 0:
            w = "%04d-%02d-%02d" % (y, m, d)
            if rng.random() < 0.9:
                w += " %02d:%02d:%02d" % (h, mi, s) + (".%06d" % us if frac else "")
            elif variant == 1:
                variant = 0
        elif kind == 1:
            w = "%04d-%02d-%02d" % (y, m, d)
        else:
            w = "%02d:%02d:%02d" % (h, mi, s) + (".%06d" % us if frac else "")
        out.append({"in": [OP_WIRE, kind, variant, _s(w)], "kind": "wire"})
    # the regexp is not anchored at the end and accepts fields of any width
    for w, kind in (("2020-1-5", 1), ("02020-01-05xyz", 1), ("2020-01-05 1:2:3", 0), ("2020-01-05 01:02:03.5", 0),
                    ("1:2:3.000007", 2), ("2020-01-05T01:02:03", 0), ("x2020-01-05", 1), ("12:00", 2),
                    ("2020-13-05", 1), ("2020-02-30 00:00:00.000000", 0), ("25:00:00", 2)):
        out.append({"in": [OP_WIRE, kind, 1, _s(w)], "kind": "wire"})
    return out


def _ty(rng, depth=0):
    """type tree: [0, has_proc] | [1, id, has_bind, has_result, impl]"""
    if depth >= 2 or (depth > 0 and rng.random() < 0.6):
        return [0, rng.randrange(2)]
    hb, hr = rng.choice([(1, 1), (1, 1), (1, 1), (0, 1), (1, 0)])
    return [1, depth + 1, hb, hr, _ty(rng, depth + 1)]


def _cexpr(rng, depth, base):
    if depth == 0:
        return [0, base]
    k = rng.choice([1, 1, 2, 2, 3, 4, 5, 6])
    if k == 4:
        other = [0, rng.choice([base, [0, 0], [1, 7, 1, 1, [0, 0]]])]
        return [4, _cexpr(rng, depth - 1, base), other]
    if k == 6:
        t2 = rng.choice([base, [1, 5, 1, 1, [0, 0]], [0, 0]])
        return [6, t2, _cexpr(rng, depth - 1, base)]
    return [k, _cexpr(rng, depth - 1, base)]


def gen_cases(rng, tier):
    cases = []
    big = tier == "thorough"
    # ---- date / time round trips
    vals = []
    for d in _DATES:
        for t in rng.sample(_TIMES, 3) + [_TIMES[0], _TIMES[1]]:
            vals.append([0, *d, *t])
        vals.append([1, *d])
    for t in _TIMES:
        vals.append([2, *t])
    for _ in range(400 if big else 30):
        vals.append([0, *_rand_date(rng), *_rand_time(rng)])
        vals.append([1, *_rand_date(rng)])
        vals.append([2, *_rand_time(rng)])
    vals += [[], [3]]
    for v in vals:
        for kind in range(3):
            for variant in ((0, 1, 2) if kind != 1 else (0, 1)):
                if not v or v == [3] or rng.random() < ((0.9 if big else 0.45) if (v and v[0] == [0, 1, 2][kind]) else 0.2):
                    cases.append({"in": [OP_DT, kind, variant, v], "kind": "dt"})
    cases += _wire_cases(rng, 1500 if big else 160)
    # ---- interval
    lo, hi = (1 - EPOCH_ORD) * US_DAY, (MAX_ORD - EPOCH_ORD + 1) * US_DAY - 1
    tds = [0, 1, -1, US_DAY, -US_DAY, US_DAY - 1, -US_DAY + 1, -US_DAY - 1, lo, hi, lo - 1, hi + 1, 999999,
           -999999, 10**6, 3600 * 10**6 + 1, -(10**18), 10**18, 59 * US_DAY + 5, -11 * US_DAY]
    tds += [rng.randint(lo, hi) for _ in range(300 if big else 40)]
    tds += [rng.randint(-400 * US_DAY, 400 * US_DAY) for _ in range(300 if big else 40)]
    for td in tds:
        cases.append({"in": [OP_INTERVAL, td], "kind": "interval"})
    cases.append({"in": [OP_INTERVAL, []], "kind": "interval"})
    # ---- boolean
    for v in ([], [0], [1], [2, 0], [2, 1], [2, 2], [2, -1], [3], [4, 0], [4, 1], [4, 2], [4, -1], [4, 255]):
        cases.append({"in": [OP_BOOL, v], "kind": "boolean"})
    # ---- numeric
    for fl in (0, 1):
        for ad in (0, 1):
            for sc in ([], 0, 2, 4, 12):
                if fl and sc != []:
                    continue
                for drs in ([], 0, 3, 6):
                    for _ in range(4 if big else 2):
                        e = rng.choice([0, 1, 2, 3, 5])
                        # keep the value within 15 significant digits at the return scale (the documented
                        # precision of a float-backed Numeric) and away from exact rounding ties
                        s_eff = drs if drs != [] else sc if sc != [] else 10
                        nd = max(1, 15 - max(0, s_eff - e))
                        k = rng.choice([0, 1, -1, 5, 10**min(nd, 9) - 1, rng.randint(-(10**nd) + 1, 10**nd - 1)])
                        if e > s_eff and k % 10**(e - s_eff) == 5 * 10**(e - s_eff - 1):
                            k += 1
                        cases.append({"in": [OP_NUM, fl, ad, sc, drs, k, e], "kind": "numeric"})
    # ---- enum
    for _ in range(300 if big else 35):
        n = rng.randint(1, 4)
        if rng.random() < 0.6:
            vals_ = rng.sample(range(1, 8), n)                       # enum class + values_callable
            objs = [[0, i] for i in range(n)]
            inputs = [[0, rng.randrange(n)], [1, rng.choice(vals_)], [1, 9], []]
        else:
            vals_ = rng.sample(range(1, 8), n)                       # plain strings
            objs = [[1, v] for v in vals_]
            inputs = [[1, rng.choice(vals_)], [1, 9], []]
        for inp in inputs:
            cases.append({"in": [OP_ENUM, vals_, objs, rng.randrange(2), inp], "kind": "enum"})
    # ---- uuid
    for u in [0, 1, 2**128 - 1, 2**127, 0xDEADBEEF, 2**64, 2**64 - 1] + [rng.getrandbits(128) for _ in range(30)]:
        cases.append({"in": [OP_UUID, u], "kind": "uuid"})
    cases.append({"in": [OP_UUID, []], "kind": "uuid"})
    for w in ["0" * 32, "F" * 32, "g" * 32, "0123456789abcdefABCDEF0123456789", "0" * 31 + "-", "1" * 31 + "z"]:
        cases.append({"in": [OP_UUIDWIRE, _s(w)], "kind": "uuid"})
    # ---- json none handling
    for nan in (0, 1):
        for v in ([0], [1], [2], [3, 5], [3, 0]):
            cases.append({"in": [OP_JSON, nan, v], "kind": "json"})
    # ---- processor assembly under nesting
    bases = [[1, 1, 1, 1, [0, 0]], [1, 1, 1, 1, [0, 1]], [1, 1, 1, 1, [1, 2, 1, 1, [0, 0]]], [1, 1, 0, 1, [0, 0]],
             [1, 1, 1, 0, [0, 1]], [1, 1, 1, 1, [1, 2, 0, 1, [0, 1]]], [0, 1], [0, 0]]
    for b in bases:
        for fin in ([0, b], [7, [0, b]], [8, [0, b]], [1, [0, b]], [2, [0, b]], [3, [0, b]], [5, [0, b]],
                    [4, [0, b], [0, [0, 0]]], [4, [0, [0, 0]], [0, b]], [6, [1, 5, 1, 1, [0, 0]], [0, b]], [6, b, [0, [0, 0]]]):
            cases.append({"in": [OP_ASM, fin], "kind": "asm"})
    for _ in range(1200 if big else 150):
        b = rng.choice(bases[:6]) if rng.random() < 0.8 else _ty(rng)
        cases.append({"in": [OP_ASM, _cexpr(rng, rng.randint(1, 4), b)], "kind": "asm"})
    # the same with a NULL stored: the processors run for None as well
    for b in bases[:6]:
        for fin in ([0, b], [7, [0, b]], [8, [0, b]], [1, [0, b]], [2, [0, b]], [3, [0, b]], [5, [0, b]],
                    [4, [0, b], [0, [0, 0]]], [6, [1, 5, 1, 1, [0, 1]], [0, b]]):
            cases.append({"in": [OP_ASM, fin, 1], "kind": "asm-null"})
    for _ in range(300 if big else 60):
        cases.append({"in": [OP_ASM, _cexpr(rng, rng.randint(1, 3), rng.choice(bases[:6])), 1], "kind": "asm-null"})
    # decorators over the real impl types that have a result processor on SQLite (oracle only)
    for k in range(2, 10):
        for nul in (0, 1):
            for b in ([1, 1, 1, 1, [0, k]], [1, 1, 1, 1, [1, 2, 1, 1, [0, k]]]):
                for fin in ([0, b], [7, [0, b]], [8, [0, b]], [1, [0, b]], [2, [0, b]], [3, [0, b]],
                            [4, [0, b], [0, b]], [5, [0, b]], [2, [1, [3, [0, b]]]]):
                    cases.append({"in": [OP_ASM, fin, nul], "kind": "asm-real", "model": False})
    # ---- oracle-only round trips
    for i in range(27):
        for ctx in range(3):
            cases.append({"in": [OP_ORACLE, i, ctx], "kind": "roundtrip", "model": False})
    return cases


def nontrivial(c):
    i = c["in"]
    if i[0] == OP_ASM:
        import json

        return json.dumps(i).count("[") > 6
    if i[0] == OP_DT:
        v = i[3]
        return bool(v) and v != [3]
    return True


# ---------------------------------------------------------------- implementation side
_ST = {}
_RE = [r"(\d+)-(\d+)-(\d+) (\d+):(\d+):(\d+)(?:\.(\d+))?", r"(\d+)-(\d+)-(\d+)", r"(\d+):(\d+):(\d+)(?:\.(\d+))?"]
_EXN = {"TypeError": 1, "ValueError": 2, "LookupError": 3, "OverflowError": 4}
TRACE = []


def _setup():
    if _ST:
        return _ST
    import sqlalchemy as sa
    from sqlalchemy import event

    eng = sa.create_engine("sqlite://")
    conn = eng.connect()
    captured = []

    @event.listens_for(eng, "before_cursor_execute")
    def _cap(conn_, cursor, statement, parameters, context, executemany):
        captured.append((statement, parameters))

    _ST.update(sa=sa, eng=eng, conn=conn, captured=captured, tables={}, n=0)
    return _ST


def _table(key, type_factory):
    st = _setup()
    sa = st["sa"]
    if key not in st["tables"]:
        st["n"] += 1
        md = sa.MetaData()
        t = sa.Table("t%d" % st["n"], md, sa.Column("id", sa.Integer, primary_key=True), sa.Column("v", type_factory()))
        md.create_all(st["conn"])
        st["conn"].commit()
        st["tables"][key] = t
    t = st["tables"][key]
    st["conn"].execute(t.delete())
    return t


def _exn_code(e):
    orig = getattr(e, "orig", None) or e
    for cls in type(orig).__mro__:
        if cls.__name__ in _EXN:
            return _EXN[cls.__name__]
    raise e


def _insert(t, value):
    """returns ("ok", wire) or ("exn", code); wire = the DBAPI parameter for column v, None for SQL NULL"""
    st = _setup()
    from sqlalchemy import exc

    del st["captured"][:]
    try:
        st["conn"].execute(t.insert().values(v=value))
    except (exc.StatementError,) as e:
        if isinstance(e, exc.DBAPIError):
            raise
        return "exn", _exn_code(e)
    stmt, params = st["captured"][-1]
    return "ok", (params[0] if params else None)


def _select(t):
    st = _setup()
    try:
        return "ok", st["conn"].execute(st["sa"].select(t.c.v)).scalar()
    except (ValueError, LookupError, TypeError, OverflowError) as e:
        return "exn", _exn_code(e)


def _raw_insert(t, wire):
    _setup()["conn"].exec_driver_sql("INSERT INTO %s (v) VALUES (?)" % t.name, (wire,))


def _dt_type(kind, variant):
    from sqlalchemy.dialects import sqlite

    cls = [sqlite.DATETIME, sqlite.DATE, sqlite.TIME][kind]
    if variant == 1:
        return cls(regexp=_RE[kind])
    if variant == 2:
        return cls(truncate_microseconds=True)
    return cls()


def _pyval(v):
    import datetime as dt

    if not v:
        return None
    if v[0] == 0:
        return dt.datetime(*v[1:])
    if v[0] == 1:
        return dt.date(*v[1:])
    if v[0] == 2:
        return dt.time(*v[1:])
    return "not a date"


def _dt_tree(x):
    import datetime as dt

    if x is None:
        return []
    if isinstance(x, dt.datetime):
        return [x.year, x.month, x.day, x.hour, x.minute, x.second, x.microsecond]
    if isinstance(x, dt.date):
        return [x.year, x.month, x.day]
    if isinstance(x, dt.time):
        return [x.hour, x.minute, x.second, x.microsecond]
    raise AssertionError("unexpected result %r" % (x,))


def _res(kind_val, enc):
    k, v = kind_val
    return [0, enc(v)] if k == "ok" else [1, v]


def _wire_str(w):
    return [] if w is None else _s(w)


# ---- counting decorators for the assembly family
def _mk_type(tt, sa):
    from sqlalchemy.types import TypeDecorator, UserDefinedType

    if tt[0] == 0:
        if not tt[1]:
            return sa.String()
        if tt[1] >= 2:
            # real impl types with a result processor on SQLite (oracle-only cases)
            return [sa.Boolean(create_constraint=False), sa.DateTime(), sa.Numeric(10, 2), sa.Interval(),
                    sa.PickleType(), sa.Uuid(), sa.JSON(none_as_null=True),
                    sa.Enum("x", "y", native_enum=False, length=5)][tt[1] - 2]

        class TracedBase(UserDefinedType):
            cache_ok = True

            def get_col_spec(self, **kw):
                return "VARCHAR"

            def bind_processor(self, dialect):
                def process(value):
                    TRACE.append(0)
                    return value

                return process

            def result_processor(self, dialect, coltype):
                def process(value):
                    TRACE.append(0)
                    return value

                return process

        return TracedBase()
    _, id_, hb, hr, impl = tt
    impl_t = _mk_type(impl, sa)
    ns = {"impl": impl_t, "cache_ok": True, "_id": id_}
    if hb:
        def process_bind_param(self, value, dialect):
            TRACE.append([1, self._id])
            return value

        ns["process_bind_param"] = process_bind_param
    if hr:
        def process_result_value(self, value, dialect):
            TRACE.append([2, self._id])
            return value

        ns["process_result_value"] = process_result_value
    return type("Dec%d" % id_, (TypeDecorator,), ns)()


def _type_of(e):
    k = e[0]
    if k == 0:
        return e[1]
    if k == 6:
        return e[1]
    return _type_of(e[1])


def _base_kind(tt):
    while tt[0] == 1:
        tt = tt[4]
    return tt[1]


def _asm_value(tt):
    import datetime as dt
    import decimal
    import uuid

    k = _base_kind(tt)
    if k < 2:
        return "x"
    return [True, dt.datetime(2020, 1, 2, 3, 4, 5, 6), decimal.Decimal("1.50"), dt.timedelta(days=-1, seconds=5),
            {"a": (1, 2)}, uuid.UUID(int=5), {"k": 1}, "x"][k - 2]


def _asm(e, isnull=False):
    import json

    st = _setup()
    sa, conn = st["sa"], st["conn"]
    counter = [0]

    def col(tt):
        t = _table("asm" + json.dumps(tt), lambda: _mk_type(tt, sa))
        conn.execute(t.insert().values(v=None if isnull else _asm_value(tt)))
        return t

    def expr(x):
        k = x[0]
        counter[0] += 1
        n_ = counter[0]
        if k == 0:
            return col(x[1]).c.v
        if k == 1:
            return expr(x[1]).label("l%d" % n_)
        if k == 2:
            return list(sa.select(expr(x[1])).subquery().c)[0]
        if k == 3:
            return list(sa.select(expr(x[1])).cte("c%d" % n_).c)[0]
        if k == 4:
            return list(sa.union_all(sa.select(expr(x[1])), sa.select(expr(x[2]))).subquery().c)[0]
        if k == 5:
            return sa.select(expr(x[1])).scalar_subquery()
        if k == 6:
            return sa.type_coerce(expr(x[2]), _mk_type(x[1], sa))
        raise AssertionError(k)

    k = e[0]
    if k == 7:                                   # RETURNING of the table column
        t = col(e[1][1])
        del TRACE[:]
        conn.execute(t.update().values(id=t.c.id).returning(t.c.v)).scalar()
        rsteps = list(TRACE)
        ex = t.c.v
    elif k == 8:                                 # ORM load of the mapped attribute
        from sqlalchemy.orm import Session, registry

        t = col(e[1][1])
        reg = registry()

        class Ent:
            pass

        reg.map_imperatively(Ent, t)
        with Session(conn) as s:
            del TRACE[:]
            obj = s.execute(sa.select(Ent)).scalars().first()
            assert isnull or obj.v == _asm_value(e[1][1])
            rsteps = list(TRACE)
            del TRACE[:]
            s.execute(sa.select(Ent.v)).scalar()
            if list(TRACE) != rsteps:
                rsteps = [99] + rsteps + [98] + list(TRACE)
        reg.dispose()
        ex = t.c.v
    else:
        ex = expr(e)
        del TRACE[:]
        conn.execute(sa.select(ex)).scalar()
        rsteps = list(TRACE)
    del TRACE[:]
    tt_ = _type_of(e)
    if isnull:
        # a NULL bound through the expression's type ("= NULL": the row does not matter, the parameter does)
        conn.execute(sa.select(sa.literal(1)).where(ex == sa.bindparam("pnull", None, type_=ex.type))).scalar()
    elif _base_kind(tt_) in (6, 8):
        # no equality on pickled / JSON documents: bind through an UPDATE-free comparison of the parameter
        conn.execute(sa.select(sa.literal(1)).where(sa.bindparam("pv", _asm_value(tt_), type_=ex.type).is_not(None))).scalar()
    else:
        conn.execute(sa.select(sa.literal(1)).where(ex == _asm_value(tt_))).scalar()
    bsteps = list(TRACE)
    return [rsteps, bsteps]


# ---- oracle-only round trips
def _oracle_values():
    import datetime as dt
    import decimal
    import uuid

    import sqlalchemy as sa

    return [
        (sa.Integer, 0), (sa.Integer, -1), (sa.Integer, 2**63 - 1), (sa.Integer, -(2**63)), (sa.BigInteger, 2**63 - 1),
        (sa.SmallInteger, -32768), (sa.String, ""), (sa.String, "é"), (sa.String, "\x00a"), (sa.Unicode, "\U0001d4b3"),
        (sa.Text, "x" * 70000), (sa.String, "a\nb'\"\\"), (sa.LargeBinary, b""), (sa.LargeBinary, b"\x00\xff"),
        (sa.PickleType, {"a": (1, 2)}), (sa.PickleType, None), (sa.PickleType, []), (sa.JSON, {"a": None, "b": [1, 2.5, "x", {"c": {}}]}),
        (sa.JSON, []), (sa.JSON, "s"), (sa.JSON, {"é": "ü"}), (sa.Float, 0.1), (sa.Float, 1.7976931348623157e308),
        (sa.Float, 5e-324), (lambda: sa.Numeric(12, 4), decimal.Decimal("-12345678.9100")),
        (lambda: sa.Uuid(as_uuid=False), "00000000-0000-0000-0000-000000000001"), (sa.Boolean, True),
    ]


def _oracle_roundtrip(i, ctx):
    st = _setup()
    sa, conn = st["sa"], st["conn"]
    tf, value = _oracle_values()[i]
    t = _table("orc%d" % i, tf)
    if ctx == 1:
        got = conn.execute(t.insert().values(v=value).returning(t.c.v)).scalar()
    else:
        conn.execute(t.insert().values(v=value))
        if ctx == 0:
            got = conn.execute(sa.select(t.c.v)).scalar()
        else:
            from sqlalchemy.orm import Session, registry

            reg = registry()

            class Ent:
                pass

            reg.map_imperatively(Ent, t)
            with Session(conn) as s:
                got = s.execute(sa.select(Ent)).scalars().first().v
            reg.dispose()
    ok = got == value and type(got) is type(value)
    return [1 if ok else 0, _s(repr(got)[:60]), _s(repr(value)[:60])]


def impl(case):
    import datetime as dt
    import decimal
    import json
    import uuid
    import warnings

    warnings.simplefilter("ignore")
    st = _setup()
    sa, conn = st["sa"], st["conn"]
    i = case["in"]
    op = i[0]
    try:
        if op == OP_DT:
            _, kind, variant, v = i
            t = _table(("dt", kind, variant), lambda: _dt_type(kind, variant))
            b = _insert(t, _pyval(v))
            if b[0] == "exn":
                return [[1, b[1]], []]
            return [[0, _wire_str(b[1])], _res(_select(t), _dt_tree)]
        if op == OP_WIRE:
            _, kind, variant, w = i
            t = _table(("dt", kind, variant), lambda: _dt_type(kind, variant))
            _raw_insert(t, "".join(chr(c) for c in w))
            return [_res(_select(t), _dt_tree)]
        if op == OP_INTERVAL:
            t = _table("interval", sa.Interval)
            v = None if i[1] == [] else dt.timedelta(microseconds=1) * i[1] if abs(i[1]) < 8 * 10**19 else None
            if i[1] != [] and v is None:
                # beyond timedelta itself: the model must say OverflowError as well (epoch + td)
                v = dt.timedelta.max if i[1] > 0 else dt.timedelta.min
            b = _insert(t, v)
            if b[0] == "exn":
                return [[1, b[1]], []]
            return [[0, _wire_str(b[1])], _res(_select(t), lambda x: [] if x is None else x // dt.timedelta(microseconds=1))]
        if op == OP_BOOL:
            v = i[1]
            t = _table("bool", lambda: sa.Boolean(create_constraint=False))
            if v and v[0] == 4:
                _raw_insert(t, v[1])
                k, x = _select(t)
                return [[] if x is None else int(x)]
            pv = None if not v else True if v[0] == 0 else False if v[0] == 1 else v[1] if v[0] == 2 else "x"
            b = _insert(t, pv)
            if b[0] == "exn":
                return [[1, b[1]], []]
            k, x = _select(t)
            return [[0, [] if b[1] is None else int(b[1])], [] if x is None else int(x)]
        if op == OP_NUM:
            _, fl, ad, sc, drs, k, e = i
            kw = {"asdecimal": bool(ad)}
            if drs != []:
                kw["decimal_return_scale"] = drs
            if fl:
                ty = sa.Float(**kw)
            else:
                ty = sa.Numeric(30, sc, **kw) if sc != [] else sa.Numeric(**kw)
            from sqlalchemy.engine import processors

            im = ty.dialect_impl(st["eng"].dialect)
            bp, rp = im.bind_processor(st["eng"].dialect), im.result_processor(st["eng"].dialect, None)

            def code(p):
                if p is None:
                    return 0
                if p is processors.to_float:
                    return 1
                if isinstance(p, processors.to_decimal_processor_factory):
                    return [2, int(p.format_[2:-1])]
                raise AssertionError("unknown processor %r" % (p,))

            out = [code(bp), code(rp), []]
            if isinstance(out[1], list):
                t = _table("num" + json.dumps([fl, ad, sc, drs]), lambda: ty)
                val = decimal.Decimal(k).scaleb(-e)
                b = _insert(t, val)
                kx, x = _select(t)
                s_ = out[1][1]
                out[2] = [int(x.scaleb(s_)), -x.as_tuple().exponent]
            return out
        if op == OP_ENUM:
            import enum

            _, vals, objs, vs, inp = i
            ekey = "enum" + json.dumps([vals, objs, vs])
            cache = st.setdefault("enums", {})
            if ekey not in cache:
                if objs and objs[0][0] == 0:
                    E = enum.Enum("E", {"m%d" % o[1]: "payload%d" % o[1] for o in objs})
                    cache[ekey] = (list(E), sa.Enum(E, values_callable=lambda cls: ["v%d" % v for v in vals],
                                                    native_enum=False, validate_strings=bool(vs), length=10))
                else:
                    cache[ekey] = ([], sa.Enum(*["v%d" % v for v in vals], native_enum=False,
                                               validate_strings=bool(vs), length=10))
            members, ty = cache[ekey]
            t = _table(ekey, lambda: ty)
            pv = None if inp == [] else members[inp[1]] if inp[0] == 0 else "v%d" % inp[1]
            b = _insert(t, pv)
            if b[0] == "exn":
                return [[1, b[1]], []]

            def enc(x):
                if x is None:
                    return []
                if isinstance(x, str):
                    return [1, int(x[1:])]
                return [0, members.index(x)]

            return [[0, [] if b[1] is None else int(b[1][1:])], _res(_select(t), enc)]
        if op == OP_UUID:
            t = _table("uuid", sa.Uuid)
            b = _insert(t, None if i[1] == [] else uuid.UUID(int=i[1]))
            return [_wire_str(b[1]), _res(_select(t), lambda x: [] if x is None else x.int)]
        if op == OP_UUIDWIRE:
            t = _table("uuid", sa.Uuid)
            _raw_insert(t, "".join(chr(c) for c in i[1]))
            return [_res(_select(t), lambda x: [] if x is None else x.int)]
        if op == OP_ASM:
            r, b = _asm(i[1], len(i) > 2 and bool(i[2]))
            return [r, b]
        if op == OP_JSON:
            _, nan, v = i
            t = _table(("json", nan), lambda: sa.JSON(none_as_null=bool(nan)))
            pv = None if v[0] == 0 else sa.JSON.NULL if v[0] == 1 else sa.null() if v[0] == 2 else {"k": v[1]}
            b = _insert(t, pv)

            def enc(x):
                if x is None:
                    return []
                d = json.loads(x) if isinstance(x, str) else x
                return -1 if d is None else d["k"]

            wire = enc(b[1])
            k, x = _select(t)
            return [wire, [] if x is None else x["k"]]
        if op == OP_ORACLE:
            return _oracle_roundtrip(i[1], i[2])
    finally:
        conn.rollback()
    raise AssertionError("unknown op %r" % (op,))


def oracle(c, obs):
    """C09 directly: the value selected back equals the value bound; every decorator step runs exactly once"""
    i = c["in"]
    op = i[0]
    if op == OP_DT:
        _, kind, variant, v = i
        if not v or v == [3] or obs[0][0] != 0 or not obs[1]:
            if v and v != [3] and v[0] == [0, 1, 2][kind] and obs[0][0] != 0:
                return "binding a valid value raised (code %s)" % obs[0][1]
            return None
        if v[0] != [0, 1, 2][kind]:
            return None                                   # a date bound to DATETIME etc.: not the type's domain
        want = list(v[1:])
        if variant == 2 and kind in (0, 2):
            want[-1] = 0                                  # truncate_microseconds: documented precision
        if obs[1] != [0, want]:
            return "%s value %s came back as %s" % (["DATETIME", "DATE", "TIME"][kind], v[1:], obs[1])
        return None
    if op == OP_INTERVAL:
        td = i[1]
        if td == [] or obs[0][0] != 0:
            if td != [] and obs[0][0] != 0 and (1 - EPOCH_ORD) * US_DAY <= td < (MAX_ORD - EPOCH_ORD + 1) * US_DAY:
                return "Interval %s us could not be bound (code %s)" % (td, obs[0][1])
            return None
        if obs[1] != [0, td]:
            return "Interval of %s us came back as %s" % (td, obs[1])
        return None
    if op == OP_BOOL:
        v = i[1]
        if v in ([0], [1]) and obs[1] != (1 if v == [0] else 0):
            return "Boolean %s came back as %s" % (v, obs[1])
        if v == [] and obs != [[0, []], []]:
            return "Boolean None came back as %s" % (obs,)
        return None
    if op == OP_NUM:
        _, fl, ad, sc, drs, k, e = i
        if ad and obs[2]:
            # documented: decimal_return_scale, else the Numeric's scale, else 10 places
            s_ = drs if drs != [] else sc if sc != [] else 10
            if e <= s_ and len(str(abs(k))) + max(0, s_ - e) <= 15:
                k2, e2 = obs[2]
                if k * 10**e2 != k2 * 10**e:
                    return "Decimal %se-%s came back as %se-%s" % (k, e, k2, e2)
        return None
    if op == OP_ENUM:
        _, vals, objs, vs, inp = i
        if inp and inp[0] == 0 and obs[0][0] == 0 and obs[1] != [0, inp]:
            return "enum member %s came back as %s" % (inp, obs[1])
        if inp and inp[0] == 0 and obs[0][0] != 0:
            return "enum member %s could not be bound" % (inp,)
        return None
    if op == OP_UUID:
        if i[1] != [] and obs[1] != [0, i[1]]:
            return "uuid %x came back as %s" % (i[1], obs[1])
        return None
    if op == OP_JSON:
        _, nan, v = i
        want = v[1] if v[0] == 3 else []
        if obs[1] != want:
            return "JSON value %s came back as %s" % (v, obs[1])
        return None
    if op == OP_ASM:
        e = i[1]
        tt = _type_of(e)
        ids_r, ids_b = [], []
        while tt[0] == 1:
            if tt[3]:
                ids_r.append(tt[1])
            if tt[2]:
                ids_b.append(tt[1])
            tt = tt[4]
        rs, bs = obs
        for id_ in ids_r:
            n = sum(1 for s in rs if s == [2, id_])
            if n != 1:
                return "process_result_value of decorator %d applied %d times (steps %s)" % (id_, n, rs)
        for id_ in ids_b:
            n = sum(1 for s in bs if s == [1, id_])
            if n != 1:
                return "process_bind_param of decorator %d applied %d times (steps %s)" % (id_, n, bs)
        return None
    if op == OP_ORACLE:
        if obs[0] != 1:
            return "value %s came back as %s (context %d)" % (
                "".join(map(chr, obs[2])), "".join(map(chr, obs[1])), i[2])
        return None
    return None


def match_finding(c, what):
    return None


LEVEL_TEXT = (
    "Machine-checked proof (Coq) over the Gallina transcription of the SQLAlchemy-side processors: "
    "DATETIME/DATE/TIME storage format + fromisoformat / custom-regexp parsing round-trip every valid value "
    "(microseconds, years 1..9999, leap days); Interval (negative included) round-trips whenever epoch+td is a "
    "datetime; Boolean, non-native Enum (distinct db values), Uuid hex, Decimal at the return scale, JSON/Pickle "
    "None handling; the processor of a result column is that of the outermost expression's type and contains "
    "each TypeDecorator's process_result_value / process_bind_param exactly once for every nesting."
)
LEVEL_NOTE = (
    "partial: only SQLite is executable; PostgreSQL/MySQL dialect types, ARRAY and native enum/uuid/interval are "
    "not modelled. CPython's fromisoformat / '%0Nd' / ordinal arithmetic / uuid hex are hand transcriptions "
    "validated against CPython by the correspondence; float exactness and json/pickle are hypotheses."
)
TECHNIQUE = "Coq proof (digit-string round trips, reflection over all 3652059 ordinals, induction on nesting); source pin; wire-level model/impl correspondence on SQLite"
