"""C18 - LIMIT/OFFSET and their dialect emulations return exactly the requested slice."""
import ast
import os
import re

ID = "C18"
LEVEL = "proof"
PROPS = "props/C18.v"
RUNNER = ("SAV.sql.LimitRun", "run_case")
STATIC_MODULES = ["SAV.sql.LimitRun"]
RULE = (
    "small-scope exhaustive block: 8 dialect configurations (default, sqlite, mysql, pg, mssql with/without "
    "OFFSET-FETCH, oracle with/without OFFSET-FETCH) x {plain, DISTINCT} ordered query x {no limit, "
    "limit int in {0,2,beyond} / expression, fetch int in {0,2} / expression x {plain, WITH TIES, PERCENT}} x "
    "{no offset, offset int in {0,1,beyond} / expression} (thorough: all values also as expressions); plus "
    "compound selects (UNION / UNION ALL .. ORDER BY, dialect code + 10); correlated scalar subqueries with "
    "limit/offset (oracle only, no model); random cases over 10 query shapes (desc, "
    "join, DISTINCT, DISTINCT join, GROUP BY, subquery, non-total order for WITH TIES, no ORDER BY) on "
    "random small tables with limit/offset values relative to the result length (0, 1, len-1, len, "
    "len+k); plus cache histories: 2-3 statements of one structure with different limit/offset values (a "
    "zero first / later / never) compiled through ONE compiled cache (_compile_w_cache, construct_params with "
    "the extracted parameters, post-compile rendering), each execution's final SQL read back and executed / "
    "interpreted. non-trivial = ordered statement with a row limiting clause on a non-empty result"
)
TRUSTED = [
    "hand-written Gallina transcription (coq/sql/Limit.v which_form) of the limit/fetch/TOP/ROW_NUMBER/ROWNUM "
    "decisions of sql/compiler.py and the sqlite, mysql, postgresql, mssql, oracle compilers, pinned to the "
    "normalised source and compared with the real compilers on every case (plan extracted from the rendered "
    "SQL / the translated Select)",
    "T2: the comparison operators and the `limit + offset` arithmetic of both translate_select_structure "
    "bodies and the no-limit constants (-1, 0, 18446744073709551615) are regenerated from the Python AST on "
    "every run and proved equal to the model's by reflexivity",
    "database semantics of each form (Limit.v exec): SQLite's LIMIT/OFFSET incl. negative LIMIT, its "
    "`LIMIT o, l`, and ROW_NUMBER() (MSSQL wrapper executed on SQLite) are validated against the live "
    "engine; OFFSET..FETCH, TOP, PERCENT, WITH TIES, LIMIT ALL, MySQL's 2^64-1 and Oracle ROWNUM "
    "(assign-while-filtering) are transcriptions of vendor documentation: no such server exists here; for "
    "them the harness interprets the form extracted from the real SQL with an independent Python reading",
]
ASSUMPTIONS = [
    "limit/offset/fetch values are non-negative integers at run time (ints, bound parameters, literal columns)",
    "the ORDER BY is a total order on the projected rows, except in WITH TIES cases",
    "rows are tuples of integers; the ORDER BY key is a prefix of the projection",
    "MySQL: at most 2^64-1 rows remain after the offset (theorem c18_mysql_huge_limit_iff is an iff)",
    "wrapper forms (ROW_NUMBER / ROWNUM) are compared as multisets: their outer SELECT has no ORDER BY "
    "(the list statement is c18_*_outer_order_partial with that hypothesis explicit)",
]
ANCHORS = [
    ("lib/sqlalchemy/sql/compiler.py", "SQLCompiler._row_limit_clause"),
    ("lib/sqlalchemy/sql/compiler.py", "SQLCompiler.visit_compound_select"),
    ("lib/sqlalchemy/sql/compiler.py", "SQLCompiler.limit_clause"),
    ("lib/sqlalchemy/sql/compiler.py", "SQLCompiler.fetch_clause"),
    ("lib/sqlalchemy/sql/selectable.py", "GenerativeSelect._simple_int_clause"),
    ("lib/sqlalchemy/sql/selectable.py", "GenerativeSelect._has_row_limiting_clause"),
    ("lib/sqlalchemy/sql/selectable.py", "GenerativeSelect.limit"),
    ("lib/sqlalchemy/sql/selectable.py", "GenerativeSelect.fetch"),
    ("lib/sqlalchemy/sql/selectable.py", "GenerativeSelect.offset"),
    ("lib/sqlalchemy/dialects/sqlite/base.py", "SQLiteCompiler.limit_clause"),
    ("lib/sqlalchemy/dialects/mysql/base.py", "MySQLCompiler.limit_clause"),
    ("lib/sqlalchemy/dialects/postgresql/base.py", "PGCompiler.limit_clause"),
    ("lib/sqlalchemy/dialects/postgresql/base.py", "PGCompiler.fetch_clause"),
    ("lib/sqlalchemy/dialects/mssql/base.py", "MSSQLCompiler.get_select_precolumns"),
    ("lib/sqlalchemy/dialects/mssql/base.py", "MSSQLCompiler._get_limit_or_fetch"),
    ("lib/sqlalchemy/dialects/mssql/base.py", "MSSQLCompiler._use_top"),
    ("lib/sqlalchemy/dialects/mssql/base.py", "MSSQLCompiler.limit_clause"),
    ("lib/sqlalchemy/dialects/mssql/base.py", "MSSQLCompiler._check_can_use_fetch_limit"),
    ("lib/sqlalchemy/dialects/mssql/base.py", "MSSQLCompiler._row_limit_clause"),
    ("lib/sqlalchemy/dialects/mssql/base.py", "MSSQLCompiler.translate_select_structure"),
    ("lib/sqlalchemy/dialects/mssql/base.py", "MSSQLCompiler.order_by_clause"),
    ("lib/sqlalchemy/dialects/oracle/base.py", "OracleCompiler._row_limit_clause"),
    ("lib/sqlalchemy/dialects/oracle/base.py", "OracleCompiler._get_limit_or_fetch"),
    ("lib/sqlalchemy/dialects/oracle/base.py", "OracleCompiler.fetch_clause"),
    ("lib/sqlalchemy/dialects/oracle/base.py", "OracleCompiler.translate_select_structure"),
    ("lib/sqlalchemy/dialects/oracle/base.py", "OracleCompiler.limit_clause"),
]


# =====================================================================================================
# T2: predicates of the two translate_select_structure bodies, regenerated from the AST
# =====================================================================================================
class T2Error(Exception):
    pass


_CMP = {ast.Lt: "CLt", ast.LtE: "CLe", ast.Gt: "CGt", ast.GtE: "CGe", ast.Eq: "CEq", ast.NotEq: "CNe"}
_RNCOL = {"ROWNUM": "RowNum", "ora_rn": "OraRn", "mssql_rn": "MssqlRn"}
_TRACKED = ("limit_clause", "offset_clause")


def _rncol(node, names):
    """the numbering column an expression denotes, or None"""
    if isinstance(node, ast.Name) and node.id in names:
        return names[node.id]
    if (
        isinstance(node, ast.Call)
        and isinstance(node.func, ast.Attribute)
        and node.func.attr in ("literal_column", "column")
        and len(node.args) == 1
        and isinstance(node.args[0], ast.Constant)
        and node.args[0].value in _RNCOL
    ):
        return _RNCOL[node.args[0].value]
    return None


class _Sym:
    """symbolic run of one translate_select_structure body under one truth assignment"""

    def __init__(self, has_lim, has_off, opaque, assume_true):
        self.has = {"limit_clause": has_lim, "offset_clause": has_off}
        self.opaque = opaque  # dict: ast.dump(atom) -> bool ; filled lazily with False, recorded
        self.assume_true = assume_true
        self.env = {"limit_clause": "ALim", "offset_clause": "AOff"}
        self.names = {}  # python variable -> numbering column
        self.preds = []
        self.atoms_seen = []

    # ---- expressions
    def arith(self, node):
        if isinstance(node, ast.Name):
            if node.id in self.env:
                return self.env[node.id]
            raise T2Error("arithmetic over unknown name %s" % node.id)
        if isinstance(node, ast.BinOp) and isinstance(node.op, ast.Add):
            return "(AAdd %s %s)" % (self.arith(node.left), self.arith(node.right))
        raise T2Error("untranslatable arithmetic: %s" % ast.unparse(node))

    def cond(self, node):
        if isinstance(node, ast.BoolOp):
            vals = [self.cond(v) for v in node.values]  # no side effects: evaluate all
            return all(vals) if isinstance(node.op, ast.And) else any(vals)
        if isinstance(node, ast.UnaryOp) and isinstance(node.op, ast.Not):
            return not self.cond(node.operand)
        if (
            isinstance(node, ast.Compare)
            and len(node.ops) == 1
            and isinstance(node.left, ast.Name)
            and node.left.id in _TRACKED
            and isinstance(node.comparators[0], ast.Constant)
            and node.comparators[0].value is None
        ):
            if isinstance(node.ops[0], ast.IsNot):
                return self.has[node.left.id]
            if isinstance(node.ops[0], ast.Is):
                return not self.has[node.left.id]
        key = ast.dump(node)
        if key not in self.atoms_seen:
            self.atoms_seen.append(key)
        return self.opaque.get(key, False)

    # ---- statements
    def _mentions(self, node):
        """does a skipped statement touch what we track?"""
        for n in ast.walk(node):
            if isinstance(n, ast.Compare) and _rncol(n.left, self.names) is not None:
                return True
            if isinstance(n, (ast.Assign, ast.AugAssign)):
                tg = n.targets if isinstance(n, ast.Assign) else [n.target]
                for t in tg:
                    for m in ast.walk(t):
                        if isinstance(m, ast.Name) and (m.id in _TRACKED or m.id == "max_row" or m.id in self.names):
                            return True
        return False

    def block(self, stmts):
        for st in stmts:
            if self.stmt(st):
                return True
        return False

    def stmt(self, st):
        if isinstance(st, ast.Return):
            return True
        if isinstance(st, ast.If):
            # the entry conditions of the emulation (row limiting clause present, wrapper wanted) hold
            if any(pat in ast.unparse(st.test) for pat in self.assume_true):
                return self.block(st.body)
            return self.block(st.body) if self.cond(st.test) else self.block(st.orelse)
        if isinstance(st, ast.Assign) and len(st.targets) == 1 and isinstance(st.targets[0], ast.Name):
            tgt = st.targets[0].id
            v = st.value
            if tgt in _TRACKED:
                ok = (
                    (isinstance(v, ast.Attribute) and v.attr in ("_limit_clause", "_offset_clause")
                     and v.attr == "_" + tgt)
                    or (isinstance(v, ast.Call) and isinstance(v.func, ast.Attribute)
                        and v.func.attr == "_get_limit_or_fetch" and tgt == "limit_clause")
                    or (isinstance(v, ast.Call) and isinstance(v.func, ast.Attribute)
                        and v.func.attr == "render_literal_execute" and not v.args
                        and isinstance(v.func.value, ast.Name) and v.func.value.id == tgt)
                )
                if not ok:
                    raise T2Error("unexpected rebinding: %s" % ast.unparse(st))
                return False
            if tgt == "max_row":
                self.env["max_row"] = self.arith(v)
                return False
            col = _rncol(v, {})
            if col is not None and not isinstance(v, ast.Name):
                self.names[tgt] = col  # mssql_rn = sql.column("mssql_rn")
                return False
            # X = X.where(<rn> <cmp> <arith>)
            if (
                isinstance(v, ast.Call)
                and isinstance(v.func, ast.Attribute)
                and v.func.attr == "where"
                and len(v.args) == 1
                and isinstance(v.args[0], ast.Compare)
                and _rncol(v.args[0].left, self.names) is not None
            ):
                c = v.args[0]
                if len(c.ops) != 1 or type(c.ops[0]) not in _CMP:
                    raise T2Error("untranslatable comparison: %s" % ast.unparse(c))
                self.preds.append(
                    "(%s, (%s, %s))" % (_rncol(c.left, self.names), _CMP[type(c.ops[0])], self.arith(c.comparators[0]))
                )
                return False
        if self._mentions(st):
            raise T2Error("statement outside the skeleton touches the numbering predicates: %s" % ast.unparse(st)[:200])
        return False


def _func(repo, rel, qual):
    from translate import fingerprint

    with open(os.path.join(repo, rel)) as f:
        tree = ast.parse(f.read())
    return fingerprint.find_node(tree, qual)


def _tr_table(fn, assume_true):
    """{(has_lim, has_off): 'gallina list of tpred'}; fails closed if it depends on anything else"""
    table = {}
    for has_lim in (True, False):
        for has_off in (True, False):
            # enumerate the truth assignments of the opaque conditions (new ones may show up under new
            # assignments); the predicates must not depend on them
            results = set()
            tried = 0
            stack = [{}]
            done = set()
            while stack:
                asg = stack.pop()
                key = tuple(sorted(asg.items()))
                if key in done:
                    continue
                done.add(key)
                tried += 1
                if tried > 20000:
                    raise T2Error("too many opaque conditions in %s" % fn.name)
                s = _Sym(has_lim, has_off, asg, assume_true)
                s.block(fn.body)
                results.add("[" + "; ".join(s.preds) + "]")
                for a in s.atoms_seen:
                    if a not in asg:
                        n1 = dict(asg)
                        n1[a] = True
                        stack.append(n1)
                        n0 = dict(asg)
                        n0[a] = False
                        stack.append(n0)
            if len(results) != 1:
                raise T2Error(
                    "%s: predicates for (has_lim=%s, has_off=%s) depend on a condition the model does not "
                    "have: %s" % (fn.name, has_lim, has_off, sorted(results))
                )
            table[(has_lim, has_off)] = results.pop()
    return table


def _consts(repo):
    out = {}
    fn = _func(repo, "lib/sqlalchemy/dialects/sqlite/base.py", "SQLiteCompiler.limit_clause")
    lits = []
    for n in ast.walk(fn):
        if isinstance(n, ast.Call) and isinstance(n.func, ast.Attribute) and n.func.attr == "literal" and len(n.args) == 1:
            try:
                lits.append((n.lineno, n.col_offset, int(ast.literal_eval(n.args[0]))))
            except Exception:
                raise T2Error("sqlite limit_clause: non constant sql.literal()")
    lits.sort()
    if len(lits) != 2:
        raise T2Error("sqlite limit_clause: expected two sql.literal(<int>) calls, found %d" % len(lits))
    out["sqlite_no_limit"], out["sqlite_no_offset"] = lits[0][2], lits[1][2]
    fn = _func(repo, "lib/sqlalchemy/dialects/mysql/base.py", "MySQLCompiler.limit_clause")
    nums = [n.value for n in ast.walk(fn) if isinstance(n, ast.Constant) and isinstance(n.value, str) and re.fullmatch(r"-?\d+", n.value)]
    if len(nums) != 1:
        raise T2Error("mysql limit_clause: expected one numeric string constant, found %s" % nums)
    out["mysql_no_limit"] = int(nums[0])
    fn = _func(repo, "lib/sqlalchemy/sql/compiler.py", "SQLCompiler.limit_clause")
    nums = []
    for n in ast.walk(fn):
        if isinstance(n, ast.Constant) and isinstance(n.value, str):
            nums += re.findall(r"LIMIT\s+(-?\d+)", n.value)
    if len(nums) != 1:
        raise T2Error("compiler limit_clause: expected one literal LIMIT <int>, found %s" % nums)
    out["default_no_limit"] = int(nums[0])
    return out


def _gallina_table(name, table):
    b = lambda v: "true" if v else "false"
    rows = "\n".join(
        "  | %s, %s => %s" % (b(hl), b(ho), table[(hl, ho)]) for hl in (True, False) for ho in (True, False)
    )
    return (
        "Definition %s (has_lim has_off : bool) : list tpred :=\n  match has_lim, has_off with\n%s\n  end.\n" % (name, rows)
    )


def translate(repo, outdir):
    from translate import fingerprint

    fingerprint.check(repo, ANCHORS, "C18")
    ms = _func(repo, "lib/sqlalchemy/dialects/mssql/base.py", "MSSQLCompiler.translate_select_structure")
    orc = _func(repo, "lib/sqlalchemy/dialects/oracle/base.py", "OracleCompiler.translate_select_structure")
    tm = _tr_table(ms, ["_has_row_limiting_clause"])
    to = _tr_table(orc, ["_has_row_limiting_clause", "_oracle_visit"])
    k = _consts(repo)
    z = lambda v: "(%d)%%Z" % v
    src = (
        "(* generated on every run from the Python AST of the two translate_select_structure bodies and the\n"
        "   native limit_clause methods - do not edit *)\n"
        "From Coq Require Import List ZArith Bool.\nImport ListNotations.\n"
        "From SAV.sql Require Import Limit.\n\n"
        + _gallina_table("gen_mssql_tr", tm)
        + "\n"
        + _gallina_table("gen_oracle_tr", to)
        + "\nDefinition gen_sqlite_no_limit : Z := %s.\nDefinition gen_sqlite_no_offset : Z := %s.\n"
        "Definition gen_mysql_no_limit : Z := %s.\nDefinition gen_default_no_limit : Z := %s.\n\n"
        % (z(k["sqlite_no_limit"]), z(k["sqlite_no_offset"]), z(k["mysql_no_limit"]), z(k["default_no_limit"]))
        + "(* per-run obligations: the code's predicates and constants are the model's.  The row limiting\n"
        "   clause is present, so has_lim || has_off; MSSQL without OFFSET always has a limit. *)\n"
        "Lemma gen_mssql_tr_ok : forall has_lim has_off, has_lim || has_off = true ->\n"
        "  gen_mssql_tr has_lim has_off = mssql_tr has_lim has_off.\n"
        "Proof. intros [] [] H; try discriminate H; reflexivity. Qed.\n"
        "Lemma gen_oracle_tr_ok : forall has_lim has_off,\n"
        "  gen_oracle_tr has_lim has_off = oracle_tr has_lim has_off.\n"
        "Proof. intros [] []; reflexivity. Qed.\n"
        "Lemma gen_sqlite_consts_ok : gen_sqlite_no_limit = sqlite_no_limit /\\ gen_sqlite_no_offset = sqlite_no_offset.\n"
        "Proof. split; reflexivity. Qed.\n"
        "Lemma gen_mysql_const_ok : gen_mysql_no_limit = mysql_no_limit.\nProof. reflexivity. Qed.\n"
        "Lemma gen_default_const_ok : default_limit_clause (LO_offset 0) = PLimit gen_default_no_limit (Some 0%Z).\n"
        "Proof. reflexivity. Qed.\n"
    )
    p = os.path.join(outdir, "Gen_C18.v")
    with open(p, "w") as fh:
        fh.write(src)
    return [p]


# =====================================================================================================
# cases
# =====================================================================================================
DIALECTS = 8  # 0 default 1 sqlite 2 mysql 3 pg 4 mssql<2012 5 mssql>=2012 6 oracle<12c 7 oracle>=12c
Q_PLAIN, Q_DESC, Q_JOIN, Q_DISTINCT, Q_DISTINCT2, Q_GROUP, Q_SUBQ, Q_DISTINCT_JOIN, Q_TIES, Q_UNORDERED = range(10)
Q_UNION, Q_UNION_ALL = 10, 11  # compound selects: dialect code + 10 in the case input


def _reference(qid, t_rows, u_rows):
    """(pre = projected rows in ORDER BY order before DISTINCT, distinct, nkey, ordered) in pure Python"""
    T = [tuple(r) for r in t_rows]  # (id, x, g)
    U = [tuple(r) for r in u_rows]  # (id, tid)
    if qid == Q_PLAIN:
        return sorted([x, i] for i, x, g in T), 0, 2, 1
    if qid == Q_DESC:
        return sorted(([x, i] for i, x, g in T), key=lambda r: (-r[0], r[1])), 0, 2, 1
    if qid == Q_JOIN:
        return sorted([x, ui, i] for ui, tid in U for i, x, g in T if tid == i), 0, 2, 1
    if qid == Q_DISTINCT:
        return sorted([x] for i, x, g in T), 1, 1, 1
    if qid == Q_DISTINCT2:
        return sorted([g, x] for i, x, g in T), 1, 2, 1
    if qid == Q_GROUP:
        cnt = {}
        for i, x, g in T:
            cnt[g] = cnt.get(g, 0) + 1
        return sorted(([n, g] for g, n in cnt.items()), key=lambda r: (-r[0], r[1])), 0, 2, 1
    if qid == Q_SUBQ:
        return sorted([x, i] for i, x, g in T if x > 0), 0, 2, 1
    if qid == Q_DISTINCT_JOIN:
        return sorted([g] for ui, tid in U for i, x, g in T if tid == i), 1, 1, 1
    if qid == Q_TIES:
        return sorted([x, i] for i, x, g in T), 0, 1, 1
    if qid == Q_UNORDERED:
        return [], 0, 0, 0
    if qid == Q_UNION:
        return sorted([v] for v in {x for i, x, g in T} | {tid for ui, tid in U}), 0, 1, 1
    if qid == Q_UNION_ALL:
        return sorted([v] for v in [x for i, x, g in T] + [tid for ui, tid in U]), 0, 1, 1
    raise ValueError(qid)


def _dedup(rows):
    out = []
    seen = set()
    for r in rows:
        k = tuple(r)
        if k not in seen:
            seen.add(k)
            out.append(r)
    return out


def _pack(t_rows, u_rows):
    """tables as one integer per row (the model does not read them; keeps the case files small):
    t(id, x, g) -> id*100 + x*10 + g ;  u(id, tid) -> id*100 + tid"""
    return [i * 100 + x * 10 + g for i, x, g in t_rows], [j * 100 + tid for j, tid in u_rows]


def _unpack(tp, up):
    return [[v // 100, v // 10 % 10, v % 10] for v in tp], [[v // 100, v % 100] for v in up]


def _mk(dialect, lim, off, qid, ek, t_rows, u_rows):
    pre, distinct, nkey, ordered = _reference(qid, t_rows, u_rows)
    tp, up = _pack(t_rows, u_rows)
    return [dialect, lim, off, ordered, distinct, nkey, pre, [qid, ek, tp, up]]


def _dataset(rng, nmax=8):
    n = rng.randint(0, nmax)
    t = [[i, rng.randint(0, 3), rng.randint(0, 2)] for i in range(1, n + 1)]
    m = rng.randint(0, 6)
    u = [[j, rng.randint(1, n + 1)] for j in range(1, m + 1)]
    return t, u


D0 = (
    [[1, 2, 0], [2, 0, 1], [3, 2, 1], [4, 1, 0], [5, 2, 2]],
    [[1, 1], [2, 3], [3, 3], [4, 6]],
)


def _lim_specs(vals, fvals, evals=None, efvals=None):
    """no limit; limit int in vals / expression in evals; fetch int in fvals / expression in efvals,
    each plain, WITH TIES, PERCENT"""
    evals = vals if evals is None else evals
    efvals = fvals if efvals is None else efvals
    out = [[]]
    for s, vs, fs in ((1, vals, fvals), (0, evals, efvals)):
        for v in vs:
            out.append([0, s, v])
        for v in fs:
            for pc, ti in ((0, 0), (0, 1), (1, 0)):
                out.append([1, s, v, pc, ti])
    return out


def _off_specs(vals, evals=None):
    evals = vals if evals is None else evals
    return [[]] + [[1, v] for v in vals] + [[0, v] for v in evals]


def gen_cases(rng, tier):
    cases = []
    # ---- small-scope exhaustive block
    for d in range(DIALECTS):
        for qid in (Q_PLAIN, Q_DISTINCT):
            full = tier == "thorough"
            for lim in _lim_specs([0, 2, 9], [0, 2], None if full else [2], None if full else [2]):
                for off in _off_specs([0, 1, 9], None if full else [1]):
                    cases.append({"in": _mk(d, lim, off, qid, rng.randint(0, 1), D0[0], D0[1]), "kind": "exhaustive"})
    # ---- random block
    nrand = 12000 if tier == "thorough" else 1200
    ndata = 60 if tier == "thorough" else 12
    datasets = [_dataset(rng) for _ in range(ndata)]
    for _ in range(nrand):
        t, u = rng.choice(datasets)
        d = rng.randrange(DIALECTS)
        if rng.random() < 0.3:
            d = rng.choice([4, 4, 6, 1])  # the emulations and the executable dialect more often
        qid = rng.choice([Q_PLAIN, Q_DESC, Q_JOIN, Q_DISTINCT, Q_DISTINCT2, Q_GROUP, Q_SUBQ, Q_DISTINCT_JOIN, Q_UNORDERED])
        pre, distinct, nkey, ordered = _reference(qid, t, u)
        n = len(_dedup(pre) if distinct else pre)
        vals = [0, 1, 2, max(n - 1, 0), n, n + 1, n + 5, rng.randint(0, n + 2)]
        r = rng.random()
        kind = "random"
        if r < 0.12:
            lim = []
        elif r < 0.7:
            lim = [0, rng.randint(0, 1), rng.choice(vals)]
        else:
            pc, ti = rng.choice([(0, 0), (0, 0), (0, 1), (1, 0), (1, 1)])
            v = rng.choice([0, 10, 34, 50, 100, 150]) if pc else rng.choice(vals)
            lim = [1, rng.randint(0, 1), v, pc, ti]
            if ti and qid != Q_UNORDERED:
                qid = rng.choice([Q_TIES, Q_TIES, qid])
                kind = "ties" if qid == Q_TIES else kind
        off = [] if rng.random() < 0.35 else [rng.randint(0, 1), rng.choice(vals)]
        if qid == Q_UNORDERED:
            kind = "unordered"
        cases.append({"in": _mk(d, lim, off, qid, rng.randint(0, 1), t, u), "kind": kind})
    # ---- compound selects (UNION / UNION ALL ... ORDER BY): dialect code + 10
    for d in range(DIALECTS):
        for qid in (Q_UNION, Q_UNION_ALL):
            for lim in _lim_specs([0, 2, 9], [2], [2], [2]):
                for off in _off_specs([0, 1, 9], [1]):
                    if rng.random() < (1.0 if tier == "thorough" else 0.5):
                        t, u = D0 if rng.random() < 0.5 else rng.choice(datasets)
                        cases.append({"in": _mk(d + 10, lim, off, qid, rng.randint(0, 1), t, u), "kind": "compound"})
    # ---- a limited ordered select used as a correlated scalar subquery (oracle only, no model):
    #      per outer row, the value is the first row of the slice of ITS correlated ordered rows
    for _ in range(400 if tier == "thorough" else 60):
        t, u = rng.choice(datasets + [D0])
        d = rng.choice([0, 1, 2, 3, 4, 4])
        lim = [] if rng.random() < 0.2 else [0, rng.randint(0, 1), rng.choice([0, 1, 1, 2])]
        off = [] if (rng.random() < 0.3 and lim) else [rng.randint(0, 1), rng.choice([0, 1, 2])]
        tp, up = _pack(t, u)
        cases.append({"in": [200, d, lim, off, [tp, up]], "kind": "correlated-subquery", "model": False})
    # ---- cache histories: statements of ONE structure, different values, through one compiled cache
    nhist = 2500 if tier == "thorough" else 320
    for k in range(nhist):
        t, u = (D0 if k % 3 == 0 else rng.choice(datasets))
        d = k % DIALECTS if k < 5 * DIALECTS else rng.choice([4, 6, 6, 1, rng.randrange(DIALECTS)])
        qid = rng.choice([Q_PLAIN, Q_PLAIN, Q_DESC, Q_JOIN, Q_DISTINCT, Q_GROUP, Q_SUBQ])
        pre, distinct, nkey, ordered = _reference(qid, t, u)
        n = len(_dedup(pre) if distinct else pre)
        vals = [0, 0, 1, 2, 3, max(n - 1, 0), n, n + 2]
        r = rng.random()
        if r < 0.15:
            shape = None
        elif r < 0.8:
            shape = [0, rng.randint(0, 1)]
        else:
            pc, ti = rng.choice([(0, 0), (0, 0), (0, 1), (1, 0)])
            shape = [1, rng.randint(0, 1), pc, ti]
            if ti:
                qid = Q_TIES
                pre, distinct, nkey, ordered = _reference(qid, t, u)
        if rng.random() < 0.12 and not (shape and shape[0] == 1 and shape[3]):
            qid = rng.choice([Q_UNION, Q_UNION_ALL])  # compound statements go through the cache too
            d = d % 10 + 10
            pre, distinct, nkey, ordered = _reference(qid, t, u)
        oshape = None if (rng.random() < 0.25 and shape is not None) else [rng.randint(0, 1)]
        nsteps = rng.randint(2, 3)
        zero_at = rng.randrange(nsteps + 1)  # a step whose values are 0 (first / later / never)
        steps = []
        for i in range(nsteps):
            z = i == zero_at
            lv = 0 if z and rng.random() < 0.5 else rng.choice(vals)
            ov = 0 if z else rng.choice(vals)
            if shape is None:
                lim = []
            elif shape[0] == 0:
                lim = [0, shape[1], lv]
            else:
                lim = [1, shape[1], (rng.choice([0, 34, 50, 100]) if shape[2] else lv), shape[2], shape[3]]
            steps.append([lim, [] if oshape is None else [oshape[0], ov]])
        tp, up = _pack(t, u)
        cases.append({"in": [100, d, steps, ordered, distinct, nkey, pre, [qid, 2, tp, up]], "kind": "cache-history"})
    return cases


def _is_hist(inp):
    return inp[0] == 100


def _is_corr(inp):
    return inp[0] == 200


def _step_inputs(inp):
    """a history as the list of single-statement inputs it consists of"""
    _, d, steps, ordered, distinct, nkey, pre, impl_part = inp
    return [[d, lim, off, ordered, distinct, nkey, pre, impl_part] for lim, off in steps]


def nontrivial(c):
    if _is_corr(c["in"]):
        return bool(c["in"][4][1])
    if _is_hist(c["in"]):
        return any(nontrivial({"in": x}) for x in _step_inputs(c["in"]))
    d, lim, off, ordered, distinct, nkey, pre, _ = c["in"]
    return bool(ordered and (lim or off) and pre)


# =====================================================================================================
# implementation side
# =====================================================================================================
_S = {}


def impl_setup():
    import warnings

    warnings.simplefilter("ignore")
    import sqlalchemy as sa
    from sqlalchemy.dialects import mssql, mysql, oracle, postgresql, sqlite
    from sqlalchemy.dialects.sqlite.base import SQLiteCompiler
    from sqlalchemy.engine import default

    class WrapperInnerCompiler(SQLiteCompiler):
        """SQLite compiler that, like the MSSQL / Oracle ones, renders no LIMIT for the numbered inner
        select of a wrapper (it still carries the original _limit_clause)"""

        def limit_clause(self, select, **kw):
            if getattr(select, "_mssql_visit", None) or getattr(select, "_oracle_visit", None):
                return ""
            return super().limit_clause(select, **kw)

        def fetch_clause(self, select, **kw):
            if getattr(select, "_mssql_visit", None) or getattr(select, "_oracle_visit", None):
                return ""
            return super().fetch_clause(select, **kw)

    ms0 = mssql.dialect()
    ms0._supports_offset_fetch = False
    ms1 = mssql.dialect()
    ms1._supports_offset_fetch = True
    or0 = oracle.dialect()
    or0._supports_offset_fetch = False
    or1 = oracle.dialect()
    or1._supports_offset_fetch = True
    sdw = sqlite.dialect()
    sdw.statement_compiler = WrapperInnerCompiler
    # the same eight configurations with named parameters, for the compiled-cache path (the final SQL
    # is obtained by substituting the re-bound values for :name)
    named = [default.DefaultDialect(paramstyle="named"), sqlite.dialect(paramstyle="named"),
             mysql.dialect(paramstyle="named"), postgresql.dialect(paramstyle="named"),
             mssql.dialect(paramstyle="named"), mssql.dialect(paramstyle="named"),
             oracle.dialect(paramstyle="named"), oracle.dialect(paramstyle="named")]
    named[4]._supports_offset_fetch = False
    named[5]._supports_offset_fetch = True
    named[6]._supports_offset_fetch = False
    named[7]._supports_offset_fetch = True
    _S["named"] = named
    _S.update(
        sa=sa,
        dialects=[default.DefaultDialect(), sqlite.dialect(), mysql.dialect(), postgresql.dialect(), ms0, ms1, or0, or1],
        sdw=sdw,
        engines={},
        facts={"executed_on_sqlite": 0, "interpreted": 0, "wrapper_executed": 0, "wrapper_order_kept": 0,
               "oracle_interpreted": 0, "compile_errors": 0, "cache_hits": 0, "cache_misses": 0},
    )
    m = sa.MetaData()
    _S["t"] = sa.Table("t", m, sa.Column("id", sa.Integer, primary_key=True), sa.Column("x", sa.Integer), sa.Column("g", sa.Integer))
    _S["u"] = sa.Table("u", m, sa.Column("id", sa.Integer, primary_key=True), sa.Column("tid", sa.Integer))
    _S["meta"] = m


def impl_facts():
    return dict(_S.get("facts", {}))


def _conn(t_rows, u_rows):
    key = (tuple(map(tuple, t_rows)), tuple(map(tuple, u_rows)))
    c = _S["engines"].get(key)
    if c is None:
        sa = _S["sa"]
        e = sa.create_engine("sqlite://")
        _S["meta"].create_all(e)
        c = e.connect()
        if t_rows:
            c.execute(_S["t"].insert(), [dict(id=i, x=x, g=g) for i, x, g in t_rows])
        if u_rows:
            c.execute(_S["u"].insert(), [dict(id=i, tid=tid) for i, tid in u_rows])
        _S["engines"][key] = c
    return c


def _base(qid):
    sa = _S["sa"]
    t, u = _S["t"], _S["u"]
    if qid == Q_PLAIN:
        return sa.select(t.c.x, t.c.id).order_by(t.c.x, t.c.id)
    if qid == Q_DESC:
        return sa.select(t.c.x, t.c.id).order_by(t.c.x.desc(), t.c.id)
    if qid == Q_JOIN:
        return sa.select(t.c.x, u.c.id.label("uid"), t.c.id).join(u, u.c.tid == t.c.id).order_by(t.c.x, u.c.id)
    if qid == Q_DISTINCT:
        return sa.select(t.c.x).distinct().order_by(t.c.x)
    if qid == Q_DISTINCT2:
        return sa.select(t.c.g, t.c.x).distinct().order_by(t.c.g, t.c.x)
    if qid == Q_GROUP:
        n = sa.func.count().label("n")
        return sa.select(n, t.c.g).group_by(t.c.g).order_by(sa.func.count().desc(), t.c.g)
    if qid == Q_SUBQ:
        sq = sa.select(t.c.id, t.c.x).where(t.c.x > 0).subquery()
        return sa.select(sq.c.x, sq.c.id).order_by(sq.c.x, sq.c.id)
    if qid == Q_DISTINCT_JOIN:
        return sa.select(t.c.g).join(u, u.c.tid == t.c.id).distinct().order_by(t.c.g)
    if qid == Q_TIES:
        return sa.select(t.c.x, t.c.id).order_by(t.c.x)
    if qid == Q_UNORDERED:
        return sa.select(t.c.x, t.c.id)
    if qid == Q_UNION:
        return sa.union(sa.select(t.c.x), sa.select(u.c.tid)).order_by("x")
    if qid == Q_UNION_ALL:
        return sa.union_all(sa.select(t.c.x), sa.select(u.c.tid)).order_by("x")
    raise ValueError(qid)


def _clause(simple, v, ek, name):
    sa = _S["sa"]
    if simple:
        return v
    return sa.bindparam(name, v) if ek == 0 else sa.literal_column(str(v))


def _apply(base, lim, off, ek):
    # ek: how a non-int clause is given: 0 limit=bindparam offset=literal_column, 1 the reverse,
    # 2 both bindparam (cache histories: the values stay out of the cache key)
    ek, oek = (ek, 1 - ek) if ek < 2 else (0, 0)
    st = base
    if lim:
        if lim[0] == 0:
            st = st.limit(_clause(lim[1], lim[2], ek, "lim_p"))
        else:
            st = st.fetch(_clause(lim[1], lim[2], ek, "fetch_p"), percent=bool(lim[3]), with_ties=bool(lim[4]))
    if off:
        st = st.offset(_clause(off[0], off[1], oek, "off_p"))
    return st


def _ws(s):
    return " ".join(s.split())


def _sql(stmt, dialect):
    c = stmt.compile(dialect=dialect, compile_kwargs={"literal_binds": True})
    s = str(c)
    if "?" in s and c.positiontup:  # SQLite's literal(-1) / literal(0) are rendered as binds
        vals = [c.params[n] for n in c.positiontup]
        parts = s.split("?")
        if len(parts) == len(vals) + 1:
            s = "".join(p + str(int(v)) for p, v in zip(parts, vals)) + parts[-1]
    return _ws(s)


_RE_LIMIT = re.compile(r"LIMIT (-?\d+|ALL)(?: OFFSET (-?\d+))?")
_RE_MYSQL = re.compile(r"LIMIT (-?\d+)(?:, (-?\d+))?")
_RE_FETCH = re.compile(
    r"(?:OFFSET \(?(-?\d+)\)? ROWS)?(?: ?FETCH FIRST \(?(-?\d+)\)?( PERCENT)? ROWS (ONLY|WITH TIES))?"
)
_RE_TOP = re.compile(r"^SELECT (DISTINCT )?TOP (-?\d+) (PERCENT )?(WITH TIES )?")


def _opt(v):
    return [] if v is None else int(v)


def _text_plan(d, sql, base_sql):
    """the row limiting form read back from the rendered statement (everything else must be the
    unlimited statement, character for character)"""
    if sql == base_sql:
        return [0]
    m = _RE_TOP.match(sql)
    if m:
        rest = "SELECT " + (m.group(1) or "") + sql[m.end():]
        if rest != base_sql:
            return [99, 1]
        return [5, int(m.group(2)), int(bool(m.group(3))), int(bool(m.group(4)))]
    if not sql.startswith(base_sql + " "):
        return [99, 2]
    tail = sql[len(base_sql) + 1:]
    if d == 2:
        m = _RE_MYSQL.fullmatch(tail)
        if m:
            if m.group(2) is None:
                return [3, [], int(m.group(1))]
            return [3, int(m.group(1)), int(m.group(2))]
    m = _RE_LIMIT.fullmatch(tail)
    if m:
        if m.group(1) == "ALL":
            return [2, int(m.group(2))] if m.group(2) is not None else [99, 3]
        return [1, int(m.group(1)), _opt(m.group(2))]
    m = _RE_FETCH.fullmatch(tail)
    if m and tail:
        return [4, _opt(m.group(1)), _opt(m.group(2)), int(bool(m.group(3))), int(m.group(4) == "WITH TIES")]
    return [99, 4]


def _cmp_code(op):
    from sqlalchemy.sql import operators

    table = [operators.lt, operators.le, operators.gt, operators.ge, operators.eq, operators.ne]
    for k, o in enumerate(table):
        if op is o:
            return k
    return 9


def _arith_tree(e, conn):
    from sqlalchemy.sql import elements, operators

    if isinstance(e, elements.Grouping):
        return _arith_tree(e.element, conn)
    if isinstance(e, elements.BinaryExpression) and e.operator is operators.add:
        return [1, _arith_tree(e.left, conn), _arith_tree(e.right, conn)]
    if isinstance(e, elements.BindParameter):
        return [0, int(e.effective_value)]
    if isinstance(e, elements.ColumnClause) and e.is_literal and re.fullmatch(r"-?\d+", e.name):
        return [0, int(e.name)]
    return [0, int(conn.scalar(_S["sa"].select(e)))]  # any other expression: let SQLite evaluate it


def _conjuncts(w):
    from sqlalchemy.sql import elements, operators

    if w is None:
        return []
    if isinstance(w, elements.BooleanClauseList) and w.operator is operators.and_:
        return [c for x in w.clauses for c in _conjuncts(x)]
    if isinstance(w, elements.Grouping):
        return _conjuncts(w.element)
    return [w]


def _preds(sel, colname, conn):
    """predicates `colname <cmp> <arith>` of a wrapper's WHERE; anything else is reported as code 9"""
    from sqlalchemy.sql import elements

    out = []
    for c in _conjuncts(sel.whereclause):
        if (
            isinstance(c, elements.BinaryExpression)
            and isinstance(c.left, elements.ColumnClause)
            and c.left.name == colname
        ):
            out.append([_cmp_code(c.operator), _arith_tree(c.right, conn)])
        else:
            out.append([9, [2]])
    return out


def _arith_val(t):
    return t[1] if t[0] == 0 else _arith_val(t[1]) + _arith_val(t[2])


def _holds(preds, rn):
    fn = [lambda a, b: a < b, lambda a, b: a <= b, lambda a, b: a > b, lambda a, b: a >= b,
          lambda a, b: a == b, lambda a, b: a != b]
    return all(fn[c](rn, _arith_val(a)) for c, a in preds)


def _mssql_wrapper(tr, conn, base):
    """[plan, rows] for the ROW_NUMBER() wrapper: structure read from the translated Select, rows by
    executing it on SQLite"""
    from sqlalchemy.sql import elements

    froms = tr.get_final_froms()
    inner = froms[0].element if len(froms) == 1 and hasattr(froms[0], "element") else None
    shape = 2
    if inner is not None and getattr(inner, "_mssql_visit", None):
        cols = list(inner.selected_columns)
        rn = cols[-1] if cols else None
        over = getattr(rn, "element", None)
        ok = (
            isinstance(rn, elements.Label)
            and rn.name == "mssql_rn"
            and isinstance(over, elements.Over)
            and str(over.order_by) == str(base._order_by_clause)
            and len(inner._order_by_clauses) == 0
            and len(tr._order_by_clauses) == 0
            and len(list(tr.selected_columns)) == len(cols) - 1
        )
        if ok:
            shape = 1 if inner._distinct else 0
    plan = [6, _preds(tr, "mssql_rn", conn), shape]
    sql = str(tr.compile(dialect=_S["sdw"], compile_kwargs={"literal_binds": True}))
    rows = [list(r) for r in conn.exec_driver_sql(sql)]
    return plan, rows


def _oracle_wrapper(tr, conn):
    """[plan, rows] for the ROWNUM wrapper(s): structure read from the translated Select; rows by
    executing the innermost (original, unlimited) select on SQLite and applying Oracle's ROWNUM rules
    to the predicates found in the structure"""
    layers = []
    sel = tr
    while getattr(sel, "_is_wrapper", False) and len(layers) < 4:
        layers.append(sel)
        fr = sel.get_final_froms()
        if len(fr) != 1 or not hasattr(fr[0], "element"):
            return [99, 5], []
        sel = fr[0].element
    if not layers or len(layers) > 2 or not getattr(sel, "_oracle_visit", None):
        return [99, 6], []
    sql = str(sel.compile(dialect=_S["sdw"], compile_kwargs={"literal_binds": True}))
    rows = [list(r) for r in conn.exec_driver_sql(sql)]
    inner_sel = layers[-1]
    inner = _preds(inner_sel, "ROWNUM", conn)
    if len(layers) == 2:
        names = [getattr(c, "name", None) for c in inner_sel.selected_columns]
        if names.count("ora_rn") != 1 or names[-1] != "ora_rn":
            return [99, 7], []
        outer = _preds(layers[0], "ora_rn", conn)
        plan = [7, inner, [outer]]
    else:
        outer = None
        plan = [7, inner, []]
    if any(c == 9 for c, _ in inner + (outer or [])):
        return plan, []
    # ROWNUM: assigned to each candidate row, advances only when the row passes the WHERE clause
    lvl = []
    k = 1
    for r in rows:
        if _holds(inner, k):
            lvl.append((r, k))
            k += 1
    if outer is not None:
        lvl = [(r, n) for r, n in lvl if _holds(outer, n)]
    return plan, [r for r, _ in lvl]


def _with_ties(rows, n, nkey):
    """declarative: positions < n plus every row with the ORDER BY key of the n-th row"""
    if n <= 0 or not rows:
        return []
    if n >= len(rows):
        return list(rows)
    pivot = rows[n - 1][:nkey]
    return [r for i, r in enumerate(rows) if i < n or r[:nkey] == pivot]


def _interpret(plan, full, nkey):
    """independent Python reading of a native form on the full ordered result"""
    tag = plan[0]
    if tag == 0:
        return list(full)
    if tag == 1:
        l, o = plan[1], plan[2] if plan[2] != [] else 0
        r = full[max(o, 0):]
        return r if l < 0 else r[:l]
    if tag == 2:
        return full[max(plan[1], 0):]
    if tag == 3:
        o = plan[1] if plan[1] != [] else 0
        return full[max(o, 0):][: max(plan[2], 0)]
    if tag in (4, 5):
        if tag == 4:
            o, f, pc, ti = plan[1], plan[2], plan[3], plan[4]
        else:
            o, f, pc, ti = [], plan[1], plan[2], plan[3]
        r = full[max(o if o != [] else 0, 0):]
        if f == []:
            return r
        cnt = -((-f * len(full)) // 100) if pc else f
        if ti:
            # prefix plus the following run of rows tied with its last row
            h = r[: max(cnt, 0)]
            if not h:
                return []
            k = len(h)
            while k < len(r) and r[k][:nkey] == h[-1][:nkey]:
                k += 1
            return r[:k]
        return r[: max(cnt, 0)]
    raise ValueError(plan)


_OPS = {"<": 0, "<=": 1, ">": 2, ">=": 3, "=": 4, "!=": 5}
_RE_PRED = re.compile(r"(ROWNUM|ora_rn|mssql_rn) (<=|>=|!=|<|>|=) (-?\d+(?: \+ -?\d+)*)")


def _text_preds(where, col):
    out = []
    for part in where.split(" AND "):
        m = _RE_PRED.fullmatch(part.strip())
        if not m or m.group(1) != col:
            out.append([9, [2]])
            continue
        nums = [int(x) for x in m.group(3).split(" + ")]
        tree = [0, nums[0]]
        for n in nums[1:]:
            tree = [1, tree, [0, n]]
        out.append([_OPS[m.group(2)], tree])
    return out


def _peel(sql):
    """SELECT <cols> FROM (<inner>) [AS] anon_k [WHERE <w>]  ->  (cols, inner, w or None)"""
    i = sql.find(" FROM (")
    if not sql.startswith("SELECT ") or i < 0:
        return None
    depth = 0
    j = i + 6
    for j in range(i + 6, len(sql)):
        if sql[j] == "(":
            depth += 1
        elif sql[j] == ")":
            depth -= 1
            if depth == 0:
                break
    else:
        return None
    m = re.fullmatch(r" (?:AS )?anon_\d+(?: WHERE (.*))?", sql[j + 1:])
    if not m:
        return None
    return sql[7:i], sql[i + 7:j], m.group(1)


def _final_sql(stmt, dialect, cache):
    """the SQL an execution would send: compiled through the cache, values re-bound, post-compile
    (literal_execute) parameters rendered - as DefaultExecutionContext._init_compiled does"""
    compiled, extracted, pdict, hit = stmt._compile_w_cache(
        dialect, compiled_cache=cache, column_keys=[], for_executemany=False, schema_translate_map=None
    )
    params = compiled.construct_params(None, escape_names=False, extracted_parameters=extracted, _collected_params=pdict)
    sql = compiled.string
    if compiled.literal_execute_params or compiled.post_compile_params:
        es = compiled._process_parameters_for_postcompile(params)
        sql = es.statement
        params = dict(params)
        params.update(es.additional_parameters)
    sql = re.sub(r"(?<![:\w]):(\w+)", lambda mo: str(int(params[mo.group(1)])), sql)
    return _ws(sql.replace("::INTEGER", "")), "HIT" in str(hit)


def _run_text(d, sql, base_sql, conn, full_ref, nkey):
    """[plan, rows] from the final SQL text of one execution"""
    facts = _S["facts"]
    if " AS mssql_rn " in sql:
        p = _peel(sql)
        if p is None or p[2] is None:
            return [99, 10], [[-1]]
        inner = p[1]
        m = re.search(r", ROW_NUMBER\(\) OVER \(ORDER BY (.+?)\) AS mssql_rn FROM ", inner)
        mb = re.search(r" ORDER BY (.*)$", base_sql)
        shape = 2
        anon = lambda x: re.sub(r"anon_\d+", "anon", x)  # subquery aliases are renumbered inside the wrapper
        if m and mb and anon(m.group(1)) == anon(mb.group(1)) and inner.count(" ORDER BY ") == 0 and inner.count("ORDER BY ") == 1:
            shape = 1 if inner.startswith("SELECT DISTINCT ") else 0
        rows = [list(r) for r in conn.exec_driver_sql(sql)]  # the MSSQL text is SQLite syntax too
        facts["wrapper_executed"] += 1
        return [6, _text_preds(p[2], "mssql_rn"), shape], sorted(rows)
    if "ROWNUM" in sql:
        p1 = _peel(sql)
        if p1 is None:
            return [99, 11], [[-1]]
        if p1[1].split(" FROM (")[0].endswith(", ROWNUM AS ora_rn"):
            p2 = _peel(p1[1])
            if p2 is None or p1[2] is None:
                return [99, 12], [[-1]]
            outer = _text_preds(p1[2], "ora_rn")
            inner = _text_preds(p2[2], "ROWNUM") if p2[2] else []
            plan = [7, inner, [outer]]
            base_text = p2[1]
        else:
            if p1[2] is None:
                return [99, 13], [[-1]]
            outer = None
            inner = _text_preds(p1[2], "ROWNUM")
            plan = [7, inner, []]
            base_text = p1[1]
        if any(c == 9 for c, _ in inner + (outer or [])):
            return plan, [[-1]]
        rows = [list(r) for r in conn.exec_driver_sql(base_text)]  # innermost = the unlimited statement
        lvl = []
        k = 1
        for r in rows:  # ROWNUM advances only when the row passes
            if _holds(inner, k):
                lvl.append((r, k))
                k += 1
        if outer is not None:
            lvl = [(r, n) for r, n in lvl if _holds(outer, n)]
        facts["oracle_interpreted"] += 1
        return plan, sorted(r for r, _ in lvl)
    plan = _text_plan(d, sql, base_sql)
    if (plan[0] == 1 and abs(plan[1]) < 2**63) or (plan[0] == 3 and abs(plan[2]) < 2**63):
        rows = [list(r) for r in conn.exec_driver_sql(sql)]
        facts["executed_on_sqlite"] += 1
    elif plan[0] == 99:
        rows = [[-1]]
    else:
        rows = _interpret(plan, full_ref, nkey)
        facts["interpreted"] += 1
    return plan, rows


def _impl_history(inp):
    from sqlalchemy import exc

    _, d, steps, ordered, distinct, nkey, pre, (qid, ek, tp, up) = inp
    d = d % 10
    t_rows, u_rows = _unpack(tp, up)
    conn = _conn(t_rows, u_rows)
    dialect = _S["named"][d]
    base = _base(qid)
    full_ref = _dedup(pre) if distinct else pre
    base_sql = _sql(base, dialect)
    cache = {}
    out = []
    for lim, off in steps:
        stmt = _apply(base, lim, off, ek)
        try:
            sql, hit = _final_sql(stmt, dialect, cache)
        except exc.CompileError as e:
            msg = str(e)
            out.append([[8, 1 if "requires an order_by" in msg else 2 if "needs TOP" in msg else 3], []])
            continue
        _S["facts"]["cache_hits" if hit else "cache_misses"] += 1
        plan, rows = _run_text(d, sql, base_sql, conn, full_ref, nkey)
        out.append([plan, rows if ordered else []])
    return out


def _impl_correlated(inp):
    """[[t.id, value or 0 for NULL], ...] of
         SELECT t.id, (SELECT u.id FROM u WHERE u.tid = t.id ORDER BY u.id LIMIT l OFFSET o) FROM t ORDER BY t.id
    as rendered by the dialect; [[-2]] when the rendered text is not SQLite syntax"""
    sa = _S["sa"]
    _, d, lim, off, (tp, up) = inp
    t_rows, u_rows = _unpack(tp, up)
    conn = _conn(t_rows, u_rows)
    t, u = _S["t"], _S["u"]
    inner = _apply(sa.select(u.c.id).where(u.c.tid == t.c.id).order_by(u.c.id), lim, off, 2)
    stmt = sa.select(t.c.id, inner.scalar_subquery().label("v")).order_by(t.c.id)
    if d == 1:
        rows = conn.execute(stmt)
    else:
        sql = _sql(stmt, _S["dialects"][d])
        if " TOP " in sql or " ROWS" in sql or "LIMIT ALL" in sql or "18446744073709551615" in sql:
            return [[-2]]
        rows = conn.exec_driver_sql(sql)
    return [[r[0], 0 if r[1] is None else int(r[1])] for r in rows]


def impl(c):
    from sqlalchemy import exc

    if _is_hist(c["in"]):
        return _impl_history(c["in"])
    if _is_corr(c["in"]):
        return _impl_correlated(c["in"])
    d, lim, off, ordered, distinct, nkey, pre, (qid, ek, tp, up) = c["in"]
    compound = d >= 10
    d = d % 10
    t_rows, u_rows = _unpack(tp, up)
    facts = _S["facts"]
    conn = _conn(t_rows, u_rows)
    dialect = _S["dialects"][d]
    base = _base(qid)
    stmt = _apply(base, lim, off, ek)
    full_ref = _dedup(pre) if distinct else pre
    if ordered:
        full = [list(r) for r in conn.execute(base)]
        same = full == full_ref if qid != Q_TIES else (
            sorted(full) == sorted(full_ref) and [r[:nkey] for r in full] == [r[:nkey] for r in full_ref]
        )
        if not same:
            raise AssertionError("harness: reference evaluation of query %d disagrees with SQLite: %s vs %s" % (qid, full_ref, full))
    # ---- the form
    try:
        compiler = dialect.statement_compiler(dialect, stmt)
    except exc.CompileError as e:
        facts["compile_errors"] += 1
        msg = str(e)
        code = 1 if "requires an order_by" in msg else 2 if "needs TOP" in msg else 3
        return [[8, code], []]
    # (a CompoundSelect never reaches translate_select_structure: visit_compound_select does not call it)
    tr = compiler.translate_select_structure(stmt) if d >= 4 and not compound else stmt
    if tr is not stmt:
        if d in (4, 5):
            plan, rows = _mssql_wrapper(tr, conn, base)
            facts["wrapper_executed"] += 1
        else:
            plan, rows = _oracle_wrapper(tr, conn)
            facts["oracle_interpreted"] += 1
        if not ordered:
            return [plan, []]
        if d in (4, 5) and rows == _slice_spec(c["in"]):
            facts["wrapper_order_kept"] += 1  # informational: SQLite kept the derived table's order
        return [plan, sorted(rows)]
    sql = _sql(stmt, dialect)
    plan = _text_plan(d, sql, _sql(base, dialect))
    if not ordered:
        return [plan, []]
    # ---- the rows
    if d == 1 and plan[0] == 1:
        rows = [list(r) for r in conn.execute(stmt)]
        facts["executed_on_sqlite"] += 1
    elif (plan[0] == 1 and abs(plan[1]) < 2**63) or (plan[0] == 3 and abs(plan[2]) < 2**63):
        # LIMIT l [OFFSET o] and LIMIT o, l are also SQLite syntax: run the other dialect's text as it is
        rows = [list(r) for r in conn.exec_driver_sql(sql)]
        facts["executed_on_sqlite"] += 1
    elif plan[0] == 99:
        rows = [[-1]]
    else:
        rows = _interpret(plan, full_ref, nkey)
        facts["interpreted"] += 1
    return [plan, rows]


# =====================================================================================================
# the property itself, on the implementation's observation
# =====================================================================================================
def _slice_spec(inp):
    d, lim, off, ordered, distinct, nkey, pre, _ = inp
    full = _dedup(pre) if distinct else list(pre)
    o = off[1] if off else 0
    r = full[o:]
    if not lim:
        return r
    if lim[0] == 0:
        return r[: lim[2]]
    v, pc, ti = lim[2], lim[3], lim[4]
    n = -((-v * len(full)) // 100) if pc else v
    return _with_ties(r, n, nkey) if ti else r[:n]


def _oracle_correlated(inp, obs):
    _, d, lim, off, (tp, up) = inp
    if obs == [[-2]]:
        return None  # the form cannot be executed here
    t_rows, u_rows = _unpack(tp, up)
    want = []
    for i, x, g in sorted(t_rows):
        us = sorted(j for j, tid in u_rows if tid == i)[(off[1] if off else 0):]
        if lim:
            us = us[: lim[2]]
        want.append([i, us[0] if us else 0])
    if obs != want:
        return "correlated scalar subquery (limit %s offset %s) gave %s per outer row, the first row of each outer row's own slice is %s" % (lim, off, obs, want)
    return None


def oracle(c, obs):
    if _is_corr(c["in"]):
        return _oracle_correlated(c["in"], obs)
    if _is_hist(c["in"]):
        # every execution of the history must return the slice for ITS OWN values
        for k, (inp, ob) in enumerate(zip(_step_inputs(c["in"]), obs)):
            v = oracle({"in": inp}, ob)
            if v:
                return "execution %d of the cache history %s: %s" % (k + 1, c["in"][2], v)
        return None
    d, lim, off, ordered, distinct, nkey, pre, _ = c["in"]
    if not ordered:
        return None  # no ORDER BY: "the fully ordered result" is not defined
    if (lim and lim[2] < 0) or (off and off[1] < 0):
        return None
    plan, rows = obs
    if plan[0] == 8:
        return None  # the statement is refused at compile time: no rows to be wrong
    want = _slice_spec(c["in"])
    if plan[0] in (6, 7):
        if sorted(rows) != sorted(want):
            return "wrapper form %s returned %s (any order), the slice of the ordered result is %s" % (plan, rows, want)
        return None
    if rows != want:
        return "form %s returned %s, the slice of the ordered result is %s" % (plan, rows, want)
    return None


def match_finding(c, what):
    if _is_corr(c["in"]):
        return "C18-mssql-rownumber-correlation-lost" if c["in"][1] == 4 else None
    inp = _step_inputs(c["in"])[0] if _is_hist(c["in"]) else c["in"]
    d, lim, off, ordered, distinct, nkey, pre, _ = inp
    if d >= 10:
        # compound select on MSSQL / legacy Oracle and the statement came out without any limiting clause
        if d - 10 in (4, 5, 6) and "form [0] returned" in what:
            return "C18-compound-limit-dropped"
        return None
    if d == 4 and distinct and len({tuple(r) for r in pre}) < len(pre) and "wrapper form [6" in what:
        return "C18-mssql-rownumber-inside-distinct"
    return None


LEVEL_TEXT = (
    "Machine-checked proof (Coq): for ALL row lists and all non-negative limit/offset/fetch values, every "
    "row limiting form the compilers render - LIMIT/OFFSET (generic, SQLite `LIMIT -1 OFFSET n` / `OFFSET 0`, "
    "PG `LIMIT ALL`, MySQL `LIMIT o, l` and `LIMIT o, 2^64-1`), OFFSET..FETCH, MSSQL TOP, the MSSQL "
    "ROW_NUMBER() wrapper, the Oracle double ROWNUM wrapper, PERCENT (ceiling) and WITH TIES - read with the "
    "database's semantics, is the requested slice of the fully ordered result; which_form (the transcription "
    "of _use_top / _supports_offset_fetch / translate_select_structure) is total, raises exactly where the "
    "code raises CompileError, and always picks a form whose theorem applies.  The MSSQL ROW_NUMBER() wrapper "
    "is refuted for DISTINCT with duplicate rows (known finding) and proved on the complement."
)
LEVEL_NOTE = (
    "Wrapper forms are proved as multisets for every behaviour of their ORDER-BY-less outer SELECT; the list "
    "(order) statement carries that hypothesis explicitly (*_outer_order_partial).  Only SQLite executes: the "
    "MSSQL wrapper is executed on SQLite, Oracle ROWNUM / TOP / OFFSET..FETCH / PERCENT / WITH TIES semantics "
    "are transcriptions of vendor documentation (model-only).  No axioms."
)
TECHNIQUE = (
    "Coq proofs by induction over Z-indexed list programs; T2 regeneration of the wrapper predicates from the "
    "Python AST compared by reflexivity; source pin; model/impl correspondence on plan structure and rows "
    "(SQLite execution of native forms and of the translated ROW_NUMBER structure)"
)
