"""C03 - statements are immutable values; compilation is deterministic."""
import os

ID = "C03"
LEVEL = "proof"
PROPS = "props/C03.v"
RUNNER = ("SAV.sql.GenerativeRun", "run_case")
STATIC_MODULES = ["SAV.sql.GenerativeRun"]
RULE = (
    "random chains (length 2-12 quick, up to 40 thorough) of generative calls on real select/insert/update/delete/"
    "compound statements drawn from a catalogue of ~60 (method, argument) recipes, including .ext() syntax extensions and SQLite/PostgreSQL ON CONFLICT chains; every object of the chain is "
    "compiled on 5 dialects when it is created and again after the whole chain (also after copy / pickle round "
    "trips, and twice in a row for determinism). The model replays the regenerated effect lists of the same "
    "methods on the heap model and predicts which ancestors are unchanged. non-trivial = chain length >= 3 and at "
    "least one ancestor compiled after a descendant was built (always true here) and >= 2 distinct methods"
)
TRUSTED = [
    "translate/generative.py: syntactic effect classification of every @_generative method (assignment to self.attr = "
    "rebind; self.attr.append/extend/... , self.attr[k] = v = in-place mutation; helper calls inlined one level); "
    "'+=' on an attribute is resolved at run time from the class default: no __iadd__ on its type => rebind; an instance "
    "attribute without class default that is annotated Tuple[...] in the class body counts as a tuple",
    "OPAQUE_OK: helper calls that are not followed (_reset_memoizations: pops memoized entries of the copy's own "
    "__dict__; _assert_no_memoizations: asserts only)",
    "aliasing introduced OUTSIDE generative methods (a caller mutating a list it passed in) is out of scope; "
    "mutation through a local alias (x = self.attr / getattr(self, ..); x.b = v) is tracked until x is re-assigned, in source "
    "order; deeper aliasing (an alias of an alias, a value returned by a call) is covered only by the chains",
    "extension protocol: ext() is followed through every apply_to_<kind>() of the scanned files into "
    "apply_syntax_extension_point; third-party SyntaxExtension classes are out of scope",
    "compile_pure (compilation writes only memo cells) is not modelled: determinism and purity of compile are "
    "checked by the oracle only",
]
ASSUMPTIONS = ["_generate() copies __dict__ shallowly (pinned)", "tuples / immutabledict / frozenset are immutable"]
LEVEL_TEXT = (
    "Coq frame theorem over a heap model (shallow copy + effect lists): if every generative method only mutates cells "
    "it allocated in the same call, then along any chain of any length every ancestor observes exactly what it "
    "observed when created. The side condition is re-established by vm_compute on the effect lists regenerated from "
    "the source of all 89 @_generative methods on every run. Tie: model prediction vs real chains + direct oracle."
)
LEVEL_NOTE = (
    "partial: the effect classification is syntactic (trusted translator); compile determinism/purity and cross-dialect "
    "behaviour are covered by the oracle, not by a theorem."
)
TECHNIQUE = "Coq frame (separation) proof over a heap model + per-run reflective check of regenerated effect tables + chain oracle"

OPAQUE_OK = {"_reset_memoizations", "_assert_no_memoizations"}
_TABLE = {}


def pin_check(repo):
    from translate import fingerprint

    fingerprint.check(
        repo,
        [
            ("lib/sqlalchemy/sql/base.py", "_generative"),
            ("lib/sqlalchemy/sql/base.py", "Generative._generate"),
            ("lib/sqlalchemy/sql/base.py", "DialectKWArgs._copy_dialect_options"),
        ],
        "C03",
    )


def resolve_aug(items):
    """impl interpreter: for [qualified method, attr] decide whether `self.attr += x` rebinds or mutates"""
    import importlib

    out = []
    for q, attr in items:
        mod, rest = q.split(":")
        cls = getattr(importlib.import_module(mod), rest.split(".")[0])
        vals = []
        todo = [cls]
        seen = set()
        while todo:
            k = todo.pop()
            if k in seen:
                continue
            seen.add(k)
            if attr in k.__dict__:
                vals.append(k.__dict__[attr])
            todo.extend(k.__subclasses__())
        if hasattr(cls, attr):
            vals.append(getattr(cls, attr))
        vals = [v for v in vals if not isinstance(v, (property,)) and not hasattr(v, "__get__") or isinstance(v, type)]
        ann = [str(k.__dict__.get("__annotations__", {}).get(attr, "")) for k in seen | set(cls.__mro__)]
        if not vals and any(a.lstrip().startswith(("Tuple", "tuple", "typing.Tuple")) for a in ann):
            out.append("rebind")  # declared (annotated) as a tuple: `+=` binds a new tuple
        elif not vals:
            out.append("unknown")
        else:
            out.append("mutate" if any(hasattr(type(v), "__iadd__") for v in vals) else "rebind")
    return out


def _effects(repo):
    from translate import generative
    from vlib import implcall

    tab = generative.scan(repo)
    aug = sorted({(q, e[1]) for q, v in tab.items() for e in v if e[0] == "augassign"})
    res = implcall.call("specs.c03", "resolve_aug", [list(a) for a in aug]) if aug else []
    amap = {a: r for a, r in zip(aug, res)}
    fields = {}
    out = {}
    for q, v in sorted(tab.items()):
        effs = []
        for e in v:
            kind, attr = e
            if kind == "opaque":
                if attr in OPAQUE_OK:
                    continue
                raise generative.Fail("%s calls self.%s() which the classifier cannot follow" % (q, attr))
            if attr == "__dict__":
                continue  # the copy's own __dict__ (fresh per _generate())
            if kind == "augassign":
                kind = amap[(q, attr)]
                if kind == "unknown":
                    raise generative.Fail("%s: cannot decide whether self.%s += ... mutates in place" % (q, attr))
            fid = fields.setdefault(attr, len(fields))
            effs.append((0 if kind == "rebind" else 1, fid))
        out[q] = effs
    return out, fields


def translate(repo, outdir):
    eff, fields = _effects(repo)
    _TABLE.clear()
    _TABLE.update({"eff": eff, "fields": fields})
    lines = [
        "(* generated on every run from the source of every @_generative method - do not edit *)",
        "From Coq Require Import List Arith Bool.",
        "Import ListNotations.",
        "From SAV.sql Require Import Generative GenerativeProofs.",
        "Definition gen_methods : list (list eff) := [",
    ]
    rows = []
    for q, es in sorted(eff.items()):
        body = "; ".join(("Rebind %d 0" if k == 0 else "Mutate %d 0") % f for k, f in es)
        rows.append("  [%s] (* %s *)" % (body, q))
    lines.append(";\n".join(rows))
    lines.append("].")
    lines += [
        "Lemma gen_rebind_only : forallb rebind_only gen_methods = true.",
        "Proof. vm_compute; reflexivity. Qed.",
        "(* the frame theorem for chains built from the methods the code has now *)",
        "Theorem gen_c03_generative_frame : forall ms h o, (forall m, In m ms -> In m gen_methods) -> wf h o ->",
        "  let (hn, os) := chain h o ms in let hs := chain_heaps h o ms in",
        "  (length os = length hs) /\\",
        "  (forall i oi hi, nth_error os i = Some oi -> nth_error hs i = Some hi -> observe hn oi = observe hi oi).",
        "Proof.",
        "  intros ms h o Hin Hwf. apply chain_frame; [|exact Hwf]. apply Forall_forall. intros m Hm.",
        "  pose proof gen_rebind_only as G. rewrite forallb_forall in G. apply G. apply Hin. exact Hm.",
        "Qed.",
        "Print Assumptions gen_c03_generative_frame.",
    ]
    p = os.path.join(outdir, "Gen_C03.v")
    with open(p, "w") as f:
        f.write("\n".join(lines) + "\n")
    return [p]


# ------------------------------------------------------------------ chains on the implementation
# recipe: (statement kind, method name, qualified classifier key, arg builder name)
RECIPES = [
    ("select", "where", "sqlalchemy.sql.selectable:Select.where", "crit"),
    ("select", "having", "sqlalchemy.sql.selectable:Select.having", "crit"),
    ("select", "order_by", "sqlalchemy.sql.selectable:GenerativeSelect.order_by", "col"),
    ("select", "group_by", "sqlalchemy.sql.selectable:GenerativeSelect.group_by", "col"),
    ("select", "limit", "sqlalchemy.sql.selectable:GenerativeSelect.limit", "int"),
    ("select", "offset", "sqlalchemy.sql.selectable:GenerativeSelect.offset", "int"),
    ("select", "fetch", "sqlalchemy.sql.selectable:GenerativeSelect.fetch", "int"),
    ("select", "fetch", "sqlalchemy.sql.selectable:GenerativeSelect.fetch", "fetch_kw"),
    ("select", "distinct", "sqlalchemy.sql.selectable:Select.distinct", "none"),
    ("select", "join", "sqlalchemy.sql.selectable:Select.join", "join"),
    ("select", "outerjoin", None, "join"),
    ("select", "select_from", "sqlalchemy.sql.selectable:Select.select_from", "table"),
    ("select", "add_columns", "sqlalchemy.sql.selectable:Select.add_columns", "col"),
    ("select", "with_only_columns", "sqlalchemy.sql.selectable:Select.with_only_columns", "col"),
    ("select", "correlate", "sqlalchemy.sql.selectable:Select.correlate", "table"),
    ("select", "correlate_except", "sqlalchemy.sql.selectable:Select.correlate_except", "table"),
    ("select", "prefix_with", "sqlalchemy.sql.selectable:HasPrefixes.prefix_with", "text"),
    ("select", "suffix_with", "sqlalchemy.sql.selectable:HasSuffixes.suffix_with", "text"),
    ("select", "with_hint", "sqlalchemy.sql.selectable:HasHints.with_hint", "hint"),
    ("select", "with_statement_hint", None, "text"),
    ("select", "with_for_update", "sqlalchemy.sql.selectable:GenerativeSelect.with_for_update", "none"),
    ("select", "slice", "sqlalchemy.sql.selectable:GenerativeSelect.slice", "slice"),
    ("select", "set_label_style", None, "label_style"),
    ("select", "execution_options", "sqlalchemy.sql.base:Executable.execution_options", "exec_opts"),
    ("select", "options", "sqlalchemy.sql.base:Executable.options", "none_opts"),
    ("select", "add_cte", "sqlalchemy.sql.selectable:HasCTE.add_cte", "cte"),
    ("select", "filter_by", None, "filter_by"),
    ("insert", "values", "sqlalchemy.sql.dml:ValuesBase.values", "values"),
    ("insert", "returning", "sqlalchemy.sql.dml:UpdateBase.returning", "col0"),
    ("insert", "prefix_with", "sqlalchemy.sql.selectable:HasPrefixes.prefix_with", "text"),
    ("insert", "inline", "sqlalchemy.sql.dml:Insert.inline", "none"),
    ("insert", "return_defaults", "sqlalchemy.sql.dml:UpdateBase.return_defaults", "none"),
    ("insert", "with_dialect_options", "sqlalchemy.sql.dml:UpdateBase.with_dialect_options", "dialect_kw_insert"),
    ("insert", "execution_options", "sqlalchemy.sql.base:Executable.execution_options", "exec_opts"),
    ("update", "values", "sqlalchemy.sql.dml:ValuesBase.values", "values"),
    ("update", "where", "sqlalchemy.sql.dml:DMLWhereBase.where", "crit0"),
    ("update", "returning", "sqlalchemy.sql.dml:UpdateBase.returning", "col0"),
    ("update", "with_dialect_options", "sqlalchemy.sql.dml:UpdateBase.with_dialect_options", "dialect_kw"),
    ("update", "ordered_values", "sqlalchemy.sql.dml:Update.ordered_values", "ordered"),
    ("update", "prefix_with", "sqlalchemy.sql.selectable:HasPrefixes.prefix_with", "text"),
    ("delete", "where", "sqlalchemy.sql.dml:DMLWhereBase.where", "crit0"),
    ("delete", "returning", "sqlalchemy.sql.dml:UpdateBase.returning", "col0"),
    ("delete", "with_dialect_options", "sqlalchemy.sql.dml:UpdateBase.with_dialect_options", "dialect_kw"),
    ("delete", "prefix_with", "sqlalchemy.sql.selectable:HasPrefixes.prefix_with", "text"),
    # syntax extensions (.ext() and the dialect methods built on it): several clauses at one extension point
    ("select", "ext", "sqlalchemy.sql.base:HasSyntaxExtensions.ext", "pg_distinct_on"),
    ("update", "ext", "sqlalchemy.sql.base:HasSyntaxExtensions.ext", "mysql_limit"),
    ("delete", "ext", "sqlalchemy.sql.base:HasSyntaxExtensions.ext", "mysql_limit"),
    ("sqlite_insert", "on_conflict_do_nothing", "sqlalchemy.sql.base:HasSyntaxExtensions.ext", "oc_nothing"),
    ("sqlite_insert", "on_conflict_do_update", "sqlalchemy.sql.base:HasSyntaxExtensions.ext", "oc_update"),
    ("sqlite_insert", "on_conflict_do_nothing", "sqlalchemy.sql.base:HasSyntaxExtensions.ext", "oc_nothing"),
    ("sqlite_insert", "on_conflict_do_update", "sqlalchemy.sql.base:HasSyntaxExtensions.ext", "oc_update"),
    ("sqlite_insert", "values", "sqlalchemy.sql.dml:ValuesBase.values", "values"),
    ("sqlite_insert", "returning", "sqlalchemy.sql.dml:UpdateBase.returning", "col0"),
    ("pg_insert", "on_conflict_do_nothing", "sqlalchemy.sql.base:HasSyntaxExtensions.ext", "oc_nothing"),
    ("pg_insert", "on_conflict_do_update", "sqlalchemy.sql.base:HasSyntaxExtensions.ext", "oc_update"),
    ("pg_insert", "values", "sqlalchemy.sql.dml:ValuesBase.values", "values"),
    ("pg_insert", "returning", "sqlalchemy.sql.dml:UpdateBase.returning", "col0"),
    ("compound", "set_label_style", None, "label_style"),
    ("compound", "set_label_style", None, "label_style_none"),
    ("select", "set_label_style", None, "label_style_none"),
    # textual statements: bindparams() / columns() are generative as well
    ("text", "bindparams", "sqlalchemy.sql.elements:TextClause.bindparams", "text_bp_value"),
    ("text", "bindparams", "sqlalchemy.sql.elements:TextClause.bindparams", "text_bp_value"),
    ("text", "bindparams", "sqlalchemy.sql.elements:TextClause.bindparams", "text_bp_typed"),
    ("text", "execution_options", "sqlalchemy.sql.base:Executable.execution_options", "exec_opts"),
    ("compound", "order_by", "sqlalchemy.sql.selectable:GenerativeSelect.order_by", "ccol"),
    ("compound", "limit", "sqlalchemy.sql.selectable:GenerativeSelect.limit", "int"),
    ("compound", "offset", "sqlalchemy.sql.selectable:GenerativeSelect.offset", "int"),
]
KINDS = ["select", "select", "select", "insert", "update", "delete", "compound", "compound", "sqlite_insert", "sqlite_insert", "pg_insert", "text", "text"]
NFIELDS = 40


def gen_cases(rng, tier):
    if not _TABLE:
        _effects_table = _effects(os.environ.get("VERIF_REPO", "/repo"))
        _TABLE.update({"eff": _effects_table[0], "fields": _effects_table[1]})
    eff = _TABLE["eff"]
    n = 2500 if tier == "thorough" else 350
    maxlen = 40 if tier == "thorough" else 12
    cases = []
    for _ in range(n):
        kind = rng.choice(KINDS)
        rec = [r for r in RECIPES if r[0] == kind]
        L = rng.randint(2, maxlen)
        steps = []
        used_ordered = False
        for _i in range(L):
            r = rng.choice(rec)
            if r[1] == "ordered_values":
                if used_ordered or any(s[0] == "values" for s in steps):
                    continue
                used_ordered = True
            if r[1] == "values" and used_ordered:
                continue
            steps.append([r[1], r[2], r[3], rng.randrange(1 << 16)])
        if not steps:
            continue
        # model input: the effect lists of the chain (methods unknown to the classifier contribute no effects)
        ms = []
        v = 1
        for s in steps:
            es = []
            for k, f in eff.get(s[1], []) if s[1] else []:
                es.append([k, f, v])
                v += 1
            ms.append(es)
        cases.append(
            {"in": [list(range(len(_TABLE["fields"]) or 1)), ms], "kind": kind, "stmt": kind, "steps": steps, "pre_compile": rng.random() < 0.7,
             "pickle_at": rng.choice([-1, -1, 0, 1])}
        )
    return cases


def nontrivial(c):
    return len(c["steps"]) >= 3 and len({s[0] for s in c["steps"]}) >= 2


_env = {}


def impl_setup():
    import warnings

    warnings.simplefilter("ignore")
    from sqlalchemy import Column, ForeignKey, Integer, MetaData, String, Table
    from sqlalchemy.dialects import mssql, mysql, oracle, postgresql, sqlite

    m = MetaData()
    t = Table("t", m, Column("id", Integer, primary_key=True), Column("x", Integer), Column("y", String(20)))
    u = Table("u", m, Column("id", Integer, primary_key=True), Column("tid", ForeignKey("t.id")), Column("z", Integer))
    _env.update(t=t, u=u, dialects=[sqlite.dialect(), postgresql.dialect(), mysql.dialect(), mssql.dialect(), oracle.dialect()])


def _args(kind, name, seed, stmt_kind):
    import random

    from sqlalchemy import bindparam, select, text
    from sqlalchemy.sql.selectable import LABEL_STYLE_TABLENAME_PLUS_COL

    r = random.Random(seed)
    t, u = _env["t"], _env["u"]
    cols = [t.c.id, t.c.x, t.c.y, u.c.z, u.c.tid]
    if name in ("crit", "crit0"):
        # a broad operator vocabulary: compilation must not write into the expression objects it visits
        c = r.choice(cols if name == "crit" else [t.c.x, t.c.id, t.c.y])
        n = r.randint(0, 9)
        sv = "v%d" % n
        forms = [
            lambda: c == n, lambda: c != n, lambda: c > n, lambda: c.in_([n, n + 1]), lambda: c.not_in([n]),
            lambda: c.between(n, n + 3), lambda: ~c.between(n, n + 3), lambda: c.is_(None), lambda: c.is_not(None),
            lambda: t.c.y.like(sv), lambda: t.c.y.not_like(sv), lambda: t.c.y.ilike(sv), lambda: t.c.y.not_ilike(sv),
            lambda: t.c.y.startswith(sv), lambda: ~t.c.y.startswith(sv), lambda: t.c.y.endswith(sv), lambda: ~t.c.y.endswith(sv),
            lambda: t.c.y.contains(sv), lambda: ~t.c.y.contains(sv), lambda: t.c.y.istartswith(sv), lambda: ~t.c.y.istartswith(sv),
            lambda: t.c.y.iendswith(sv), lambda: ~t.c.y.iendswith(sv), lambda: t.c.y.icontains(sv), lambda: ~t.c.y.icontains(sv),
            lambda: t.c.y.startswith(sv, autoescape=True), lambda: ~t.c.y.endswith(sv, escape="/"),
            lambda: t.c.y.regexp_match(sv), lambda: ~t.c.y.regexp_match(sv), lambda: t.c.y.concat(sv) == sv,
            lambda: (c == n) | (t.c.x < n), lambda: ~((c == n) & (t.c.x < n)), lambda: c.is_distinct_from(n),
            lambda: t.c.x.op("%")(n + 1) == 0, lambda: t.c.x // (n + 1) > 1, lambda: -t.c.x < n,
        ]
        return (r.choice(forms)(),), {}
    if name == "col":
        return (r.choice(cols),), {}
    if name == "col0":
        return (r.choice([t.c.id, t.c.x]),), {}
    if name == "ccol":
        return (text("1"),), {}
    if name == "int":
        return (r.randint(0, 20),), {}
    if name == "fetch_kw":
        return (r.randint(1, 9),), {"oracle_fetch_approximate": True} if r.random() < 0.5 else {"with_ties": True}
    if name == "none":
        return (), {}
    if name == "none_opts":
        return (), {}
    if name == "join":
        return (u, t.c.id == u.c.tid), {}
    if name == "table":
        return (r.choice([t, u]),), {}
    if name == "text":
        return (r.choice(["/*a*/", "/*b*/"]),), {}
    if name == "hint":
        return (t, "HINT%d" % r.randint(0, 3)), {}
    if name == "slice":
        a = r.randint(0, 5)
        return (a, a + r.randint(1, 5)), {}
    if name == "label_style":
        return (LABEL_STYLE_TABLENAME_PLUS_COL,), {}
    if name == "label_style_none":
        from sqlalchemy.sql.selectable import LABEL_STYLE_DISAMBIGUATE_ONLY, LABEL_STYLE_NONE

        return (r.choice([LABEL_STYLE_NONE, LABEL_STYLE_DISAMBIGUATE_ONLY, LABEL_STYLE_TABLENAME_PLUS_COL]),), {}
    if name == "text_bp_value":
        return (), {r.choice(["lo", "hi"]): r.randint(0, 99)}
    if name == "text_bp_typed":
        from sqlalchemy import Integer, String

        return (bindparam(r.choice(["lo", "hi"]), r.randint(0, 99), type_=r.choice([Integer, String])),), {}
    if name == "exec_opts":
        return (), {"k%d" % r.randint(0, 2): r.randint(0, 5)}
    if name == "cte":
        return (select(u.c.z).where(u.c.z > r.randint(0, 3)).cte("c%d" % r.randint(0, 2)),), {}
    if name == "filter_by":
        return (), {"x": r.randint(0, 5)}
    if name == "values":
        return (), {r.choice(["x", "y"]): r.randint(0, 9)}
    if name == "ordered":
        return (("x", 1), ("y", "q")), {}
    if name == "pg_distinct_on":
        from sqlalchemy.dialects.postgresql import distinct_on

        return (distinct_on(r.choice([t.c.x, t.c.y])),), {}
    if name == "mysql_limit":
        from sqlalchemy.dialects.mysql import limit

        return (limit(r.randint(1, 9)),), {}
    if name == "oc_nothing":
        return (), {"index_elements": [r.choice([t.c.id, t.c.x])]}
    if name == "oc_update":
        return (), {"index_elements": [r.choice([t.c.id, t.c.x])], "set_": {r.choice(["x", "y"]): r.randint(0, 9)}}
    if name == "dialect_kw":
        return (), {"mysql_limit": r.randint(1, 9)}
    if name == "dialect_kw_insert":
        return (), {"mysql_limit": r.randint(1, 9)} if False else {}
    raise KeyError(name)


def _fingerprint(stmt):
    out = []
    for d in _env["dialects"]:
        try:
            c = stmt.compile(dialect=d)
            out.append((str(c), repr(sorted((str(k), repr(v)) for k, v in c.params.items()))))
        except Exception as e:  # a compile error is part of the observable behaviour too
            out.append(("ERR", type(e).__name__))
    return out


def _base(kind):
    from sqlalchemy import select, union

    t, u = _env["t"], _env["u"]
    if kind == "select":
        return select(t.c.id, t.c.x)
    if kind == "insert":
        return t.insert()
    if kind == "update":
        return t.update()
    if kind == "delete":
        return t.delete()
    if kind == "text":
        from sqlalchemy import Integer, bindparam, text

        # the parameters already carry a type: a later bindparams(name=value) works on existing BindParameter objects
        return text("select id from t where x between :lo and :hi").bindparams(
            bindparam("lo", type_=Integer), bindparam("hi", type_=Integer)
        )
    if kind == "sqlite_insert":
        from sqlalchemy.dialects.sqlite import insert as sqlite_insert

        return sqlite_insert(t)
    if kind == "pg_insert":
        from sqlalchemy.dialects.postgresql import insert as pg_insert

        return pg_insert(t)
    return union(select(t.c.id), select(u.c.id))


_viol = {}


def impl(c):
    import copy
    import pickle

    objs = [_base(c["stmt"])]
    fps = []
    viol = None
    if c.get("pre_compile", True):
        fps.append(_fingerprint(objs[0]))
    else:
        fps.append(None)
    applied = []
    for meth, q, argname, seed in c["steps"]:
        s = objs[-1]
        args, kw = _args(c["stmt"], argname, seed, c["stmt"])
        try:
            s2 = getattr(s, meth)(*args, **kw)
        except Exception:
            s2 = s  # the call was refused (documented error): the chain continues from the same object
            applied.append(False)
            objs.append(s2)
            fps.append(fps[-1])
            continue
        applied.append(True)
        objs.append(s2)
        fps.append(_fingerprint(s2) if c.get("pre_compile", True) else None)
    if not c.get("pre_compile", True):
        # compile everything only now (nothing was memoized while the chain was built)
        final = [_fingerprint(o) for o in objs]
        again = [_fingerprint(o) for o in objs]
        unchanged = [int(a == b) for a, b in zip(final, again)]
        if 0 in unchanged:
            viol = "compiling the same statement twice gave different results"
    else:
        final = [_fingerprint(o) for o in objs]
        unchanged = [int(a == b) for a, b in zip(fps, final)]
        if 0 in unchanged:
            i = unchanged.index(0)
            k = next(j for j in range(len(fps[i])) if fps[i][j] != final[i][j])
            nxt = c["steps"][i][0] if i < len(c["steps"]) else "?"
            viol = "statement #%d changed after later generative calls (next call: %s): %r -> %r" % (
                i, nxt, fps[i][k][0][:120], final[i][k][0][:120])
    pk = c.get("pickle_at", -1)
    if viol is None and pk >= 0:
        o = objs[min(pk, len(objs) - 1)]
        before = _fingerprint(o)
        try:
            o2 = pickle.loads(pickle.dumps(o))
            after = _fingerprint(o2)
            if before != after:
                names = [d.name for d in _env["dialects"]]
                diff = [n for n, a, b in zip(names, before, after) if a != b]
                viol = "pickle round trip of a compiled statement changes its compilation on %s: %r" % (
                    "+".join(diff), [a for a, b in zip(before, after) if a != b][:1],)
        except Exception as e:
            viol = "pickle round trip of a compiled statement fails: %s: %s" % (type(e).__name__, str(e)[:100])
        c2 = copy.copy(o)
        if _fingerprint(c2) != before:
            viol = "copy.copy of a statement compiles differently"
    _viol[id(c)] = viol
    c["_viol"] = viol
    # where a call was refused the model must not apply its effects: report which steps applied
    return [unchanged, [int(a) for a in applied]]


def model_pair(c, obs):
    unchanged, applied = obs
    fields, ms = c["in"]
    ms2 = [m if a else [] for m, a in zip(ms, applied)]
    return [fields, ms2], unchanged


def oracle(c, obs):
    return c.get("_viol")


def match_finding(c, what):
    if "pickle round trip of a compiled statement changes its compilation on mssql:" in what:
        return "C03-mssql-compile-pickle-compile"
    return None
