"""C23 - Connection transactions and savepoints have nested-transaction semantics."""
import itertools

ID = "C23"
LEVEL = "proof"
PROPS = "props/C23.v"
RUNNER = ("SAV.engine.TxnRun", "run_case")
STATIC_MODULES = ["SAV.engine.TxnRun"]
RULE = (
    "kind hist: histories over {begin, begin_nested, insert, conn.commit/rollback/close, "
    "commit/rollback/close/__enter__/__exit__(ok|exc) on every transaction object created so far "
    "(autobegun roots included)}: all histories of length <= 3 (handle indices <= 2), the histories of "
    "length 4 (quick: a seeded sample of 300; thorough: all of length 4-5) over a savepoint-centred "
    "sub-alphabet, plus random histories (quick <= 9 ops, thorough <= 25 ops) from "
    "four generators (uniform misuse, reference-guided nesting, with-statement programs, out-of-order "
    "savepoint ends with rows at every level followed by the outer commit), run on "
    "real SQLite (sqlite3 autocommit=False) and observed after EVERY operation: exception class, "
    "commands that reached the DBAPI connection, warnings, in_transaction/in_nested_transaction, "
    "get_transaction/get_nested_transaction, is_active of every handle, rows visible to a second "
    "connection. kind db: command scripts (all of length <= 3 over 2 savepoint names + random <= 12) on "
    "the reference database vs raw sqlite3. kind spec: the Python oracle model vs the Coq reference "
    "model and guard. non-trivial = a history that opens a savepoint and later ends some handle, "
    "or a db script with a savepoint command after a savepoint"
)
TRUSTED = [
    "hand-written Gallina transcription (coq/engine/Txn.v) of Connection/RootTransaction/"
    "NestedTransaction/TransactionalContext transaction control, pinned to the normalised source "
    "and compared behaviourally after every operation on real SQLite",
    "reference database coq/engine/RefDb.v (PEP-249 implicit transactions + savepoint stack), "
    "validated against sqlite3 on every run; trusted for PostgreSQL/MariaDB",
]
ASSUMPTIONS = [
    "COMMIT, ROLLBACK and SAVEPOINT never fail at the database; the only database error is "
    "'no such savepoint'; no disconnects/invalidation; single thread; no two-phase "
    "(so e.g. a DBAPI rollback() that itself fails, after which RootTransaction._close_impl skips "
    "cancelling the savepoint objects, is outside the modelled alphabet)",
    "with-blocks in the theorems' guarded region are used as the with statement uses them "
    "(LIFO, one entry at a time)",
]
ANCHORS = [
    ("lib/sqlalchemy/engine/base.py", "Connection._autobegin"),
    ("lib/sqlalchemy/engine/base.py", "Connection.begin"),
    ("lib/sqlalchemy/engine/base.py", "Connection.begin_nested"),
    ("lib/sqlalchemy/engine/base.py", "Connection.commit"),
    ("lib/sqlalchemy/engine/base.py", "Connection.rollback"),
    ("lib/sqlalchemy/engine/base.py", "Connection.close"),
    ("lib/sqlalchemy/engine/base.py", "Connection.in_transaction"),
    ("lib/sqlalchemy/engine/base.py", "Connection.in_nested_transaction"),
    ("lib/sqlalchemy/engine/base.py", "Connection.get_transaction"),
    ("lib/sqlalchemy/engine/base.py", "Connection.get_nested_transaction"),
    ("lib/sqlalchemy/engine/base.py", "Connection._invalid_transaction"),
    ("lib/sqlalchemy/engine/base.py", "Connection._begin_impl"),
    ("lib/sqlalchemy/engine/base.py", "Connection._rollback_impl"),
    ("lib/sqlalchemy/engine/base.py", "Connection._commit_impl"),
    ("lib/sqlalchemy/engine/base.py", "Connection._savepoint_impl"),
    ("lib/sqlalchemy/engine/base.py", "Connection._rollback_to_savepoint_impl"),
    ("lib/sqlalchemy/engine/base.py", "Connection._release_savepoint_impl"),
    ("lib/sqlalchemy/engine/base.py", "Transaction.close"),
    ("lib/sqlalchemy/engine/base.py", "Transaction.rollback"),
    ("lib/sqlalchemy/engine/base.py", "Transaction.commit"),
    ("lib/sqlalchemy/engine/base.py", "Transaction._transaction_is_active"),
    ("lib/sqlalchemy/engine/base.py", "Transaction._transaction_is_closed"),
    ("lib/sqlalchemy/engine/base.py", "Transaction._rollback_can_be_called"),
    ("lib/sqlalchemy/engine/base.py", "RootTransaction"),
    ("lib/sqlalchemy/engine/base.py", "NestedTransaction"),
    ("lib/sqlalchemy/engine/util.py", "TransactionalContext._trans_ctx_check"),
    ("lib/sqlalchemy/engine/util.py", "TransactionalContext.__enter__"),
    ("lib/sqlalchemy/engine/util.py", "TransactionalContext.__exit__"),
    ("lib/sqlalchemy/engine/default.py", "DefaultDialect.do_begin"),
    ("lib/sqlalchemy/engine/default.py", "DefaultDialect.do_rollback"),
    ("lib/sqlalchemy/engine/default.py", "DefaultDialect.do_commit"),
    ("lib/sqlalchemy/engine/default.py", "DefaultDialect.do_savepoint"),
    ("lib/sqlalchemy/engine/default.py", "DefaultDialect.do_rollback_to_savepoint"),
    ("lib/sqlalchemy/engine/default.py", "DefaultDialect.do_release_savepoint"),
]


def translate(repo, outdir):
    import ast
    import os
    from translate import fingerprint

    fingerprint.check(repo, ANCHORS, "C23")
    # the transactional prologue of Connection._execute_context is a fragment of a long function:
    # pin exactly the statements between "context = constructor(" and "context.pre_exec()"
    with open(os.path.join(repo, "lib/sqlalchemy/engine/base.py")) as f:
        tree = ast.parse(f.read())
    fn = fingerprint.find_node(tree, "Connection._execute_context")
    body = [ast.unparse(n) for n in fn.body]
    try:
        i = next(k for k, s in enumerate(body) if s.startswith("try:") and "constructor(" in s)
        j = next(k for k, s in enumerate(body) if s.startswith("context.pre_exec()"))
    except StopIteration:
        raise fingerprint.TranslateError("Connection._execute_context: prologue not found")
    got = "\n".join(body[i:j])
    if got != _EXEC_PROLOGUE:
        raise fingerprint.TranslateError(
            "Connection._execute_context transactional prologue differs from the modelled one:\n" + got
        )
    return []


_EXEC_PROLOGUE = """try:
    conn = self._dbapi_connection
    if conn is None:
        conn = self._revalidate_connection()
    context = constructor(dialect, self, conn, execution_options, *args, **kw)
except (exc.PendingRollbackError, exc.ResourceClosedError):
    raise
except BaseException as e:
    self._handle_dbapi_exception(e, str(statement), parameters, None, None)
if self._transaction and (not self._transaction.is_active) or (self._nested_transaction and (not self._nested_transaction.is_active)):
    self._invalid_transaction()
elif self._trans_context_manager:
    TransactionalContext._trans_ctx_check(self)
if self._transaction is None:
    self._autobegin()"""

# ---------------------------------------------------------------------------------------------
# op encoding (see coq/engine/TxnRun.v)
BEGIN, NESTED, INS, CCOMMIT, CROLLBACK, CCLOSE, HCOMMIT, HROLLBACK, HCLOSE, HENTER, HEXIT, FBEGIN, FROLLBACK = range(13)
def _is_h(op):
    return HCOMMIT <= op[0] <= HEXIT


OPNAMES = ["begin", "begin_nested", "insert", "conn.commit", "conn.rollback", "conn.close",
           "h.commit", "h.rollback", "h.close", "h.__enter__", "h.__exit__",
           "arm-begin-listener", "arm-rollback-error"]


# ---------------- the reference nested-transaction model (oracle; mirrors coq/engine/TxnSpec.v) ---
class Ref:
    def __init__(self):
        self.committed = []
        self.cur = []
        self.stack = []  # innermost first: [handle, snapshot]
        self.kinds = []  # is_root per handle
        self.ctx = []  # innermost first
        self.closed = False
        self.beginfail = 0  # environment: raising `begin` listener (0 none, 1 once, 2 always)
        self.rbfail = False  # environment: the next DBAPI rollback reports an error

    def live(self, k):
        return any(h == k for h, _ in self.stack)

    def ctx_bad(self):
        return bool(self.ctx) and not self.live(self.ctx[0])

    ignore_ctx = False  # oracle-follow only (a stale savepoint handle keeps its with-block "alive")

    def blocked(self):
        return self.closed or (self.ctx_bad() and not self.ignore_ctx)

    def _open(self, isroot):
        self.stack.insert(0, [len(self.kinds), list(self.cur)])
        self.kinds.append(isroot)

    def _begin_root(self):
        """opening the root frame runs the `begin` listeners; returns raised"""
        if self.beginfail == 0:
            self._open(True)
            return False
        if self.beginfail == 1:
            self.beginfail = 0
        return True

    def _autobegin(self):
        if not self.stack:
            return self._begin_root()
        return False

    def _below(self, k):
        for i, (h, _) in enumerate(self.stack):
            if h == k:
                return self.stack[i + 1:], self.stack[i][1]
        return [], None

    def _commit_all(self):
        self.committed = list(self.cur)
        self.stack = []

    def _rollback_all(self):
        """undoes all uncommitted work - also when the DBAPI rollback reports an error; returns raised"""
        f = self.rbfail
        self.rbfail = False
        self.cur = list(self.committed)
        self.stack = []
        return f

    def _commit_handle(self, k):
        fr, _ = self._below(k)
        if not fr:
            self._commit_all()
        else:
            self.stack = fr

    def _rollback_handle(self, k):
        fr, snap = self._below(k)
        if not fr:
            return self._rollback_all()
        self.stack = fr
        self.cur = list(snap)
        return False

    def end_keeping_work(self, k):
        """oracle-follow only: the frames from k upwards are closed, the work stays"""
        fr, _ = self._below(k)
        if self.live(k):
            self.stack = fr

    def follow_refused(self, op):
        """oracle-follow only: the implementation refused [op] before it reached the database.
        A refused commit/rollback/close/__exit__ of a savepoint still ends the handle (the finally
        clauses of _close_impl/_do_commit) and __exit__ still leaves the with-block; the work stays.
        A refused begin/begin_nested/execute does nothing."""
        if op[0] in (HCOMMIT, HROLLBACK, HCLOSE, HEXIT):
            self.end_keeping_work(op[1])
        if op[0] == HEXIT:
            self.ctx = self.ctx[1:]

    # guard clauses (None = inside the guarded region, else the name of the excluded region)
    def gstep(self, op):
        c = op[0]
        if c < HCOMMIT or c > HEXIT:
            return None
        k = op[1]

        def ok_end():
            if not self.live(k) or not self._below(k)[0]:
                return None
            if self.stack[0][0] != k:
                return "a"
            if self.ctx_bad():
                return "c"
            return None

        if c == HCOMMIT:
            return ok_end()
        if c in (HROLLBACK, HCLOSE):
            r = ok_end()
            if r:
                return r
            if not self.live(k) and self.kinds[k] and len(self.stack) > 1:
                return "b"
            return None
        if c == HENTER:
            return "d" if k in self.ctx else None
        if c == HEXIT:
            if not self.ctx or self.ctx[0] != k:
                return "d"
            r = ok_end()
            if r:
                return r
            if not self.live(k) and self.kinds[k] and len(self.stack) > 1:
                return "b"
            return None

    def step(self, op):
        """returns None (no such handle) or raised:bool"""
        c = op[0]
        if c == BEGIN:
            if self.blocked() or self.stack:
                return True
            return self._begin_root()
        if c == NESTED:
            if self.blocked():
                return True
            if self._autobegin():
                return True
            self._open(False)
            return False
        if c == INS:
            if self.blocked():
                return True
            if self._autobegin():
                return True
            self.cur.append(op[1])
            return False
        if c == CCOMMIT:
            if self.stack:
                self._commit_all()
            return False
        if c == CROLLBACK:
            return self._rollback_all() if self.stack else False
        if c == CCLOSE:
            if self.stack and self._rollback_all():
                return True  # the error propagates out of close(): the connection stays open
            self.closed = True
            return False
        if c == FBEGIN:
            self.beginfail = op[1]
            return False
        if c == FROLLBACK:
            self.rbfail = bool(op[1])
            return False
        k = op[1]
        if k >= len(self.kinds):
            return None
        if c == HCOMMIT:
            if not self.live(k):
                return True
            self._commit_handle(k)
            return False
        if c in (HROLLBACK, HCLOSE):
            return self._rollback_handle(k) if self.live(k) else False
        if c == HENTER:
            self.ctx.insert(0, k)
            return False
        if c == HEXIT:
            raised = False
            if self.live(k):
                if op[2]:
                    raised = self._rollback_handle(k)
                else:
                    self._commit_handle(k)
            self.ctx = self.ctx[1:]
            return raised
        raise ValueError(op)

    def obs(self, raised, g):
        return [int(raised), int(bool(self.stack)), int(len(self.stack) > 1), [[v] for v in self.committed], int(g)]


def ref_run(ops):
    r = Ref()
    out = []
    g = True
    for op in ops:
        region = None
        k_ok = not _is_h(op) or op[1] < len(r.kinds)
        if k_ok:
            region = r.gstep(op)
        raised = r.step(op)
        if raised is None:
            out.append([9])
            continue
        g = g and region is None
        out.append(r.obs(raised, g))
    return out


# ---------------- generators ----------------
def _all_ops(nh, v):
    ops = [[BEGIN], [NESTED], [INS, v], [CCOMMIT], [CROLLBACK], [CCLOSE], [FBEGIN, 1], [FROLLBACK, 1]]
    for k in range(nh):
        ops += [[HCOMMIT, k], [HROLLBACK, k], [HCLOSE, k], [HENTER, k], [HEXIT, k, 0], [HEXIT, k, 1]]
    return ops


def _enum(maxlen, alphabet_fn, cap_handles):
    """all histories up to maxlen; handle indices range over an upper bound of the handles created"""
    out = []

    def rec(prefix, nh, v):
        if prefix:
            out.append(list(prefix))
        if len(prefix) == maxlen:
            return
        for op in alphabet_fn(min(nh, cap_handles), v):
            nh2 = nh + (2 if op[0] == NESTED else 1 if op[0] in (BEGIN, INS) else 0)  # upper bound
            prefix.append(op)
            rec(prefix, nh2, v + 1 if op[0] == INS else v)
            prefix.pop()

    rec([], 0, 1)
    return out


def _sp_alphabet(nh, v):
    ops = [[NESTED], [INS, v], [CCOMMIT]]
    for k in range(nh):
        ops += [[HCOMMIT, k], [HROLLBACK, k]]
    return ops


def _rand_uniform(rng, n):
    ops = []
    nh = 0
    v = 1
    for _ in range(n):
        c = rng.choice([BEGIN, NESTED, NESTED, INS, INS, CCOMMIT, CROLLBACK, CCLOSE if rng.random() < 0.3 else INS,
                        HCOMMIT, HROLLBACK, HCLOSE, HCOMMIT, HROLLBACK, HENTER, HEXIT])
        if c >= HCOMMIT:
            if nh == 0:
                c = NESTED
            else:
                k = rng.randrange(nh + 1) if rng.random() < 0.05 else rng.randrange(nh)
                ops.append([c, k] + ([rng.randrange(2)] if c == HEXIT else []))
                continue
        if c == INS:
            ops.append([INS, v])
            v += 1
        elif rng.random() < 0.06:
            ops.append(rng.choice([[FBEGIN, 0], [FBEGIN, 1], [FBEGIN, 2], [FROLLBACK, 1], [FROLLBACK, 0]]))
            continue
        else:
            ops.append([c])
        nh += 1 if c in (BEGIN, NESTED, INS) else 0
        if c == NESTED:
            nh += 1
    return ops


def _rand_guided(rng, n, misuse):
    """follows the reference model to pick handles: mostly the innermost live handle, sometimes an
    outer live one (out of order), an ended one (double commit ...) or the root"""
    r = Ref()
    ops = []
    v = 1
    for _ in range(n):
        x = rng.random()
        nh = len(r.kinds)
        if x < 0.25 or nh == 0:
            op = [NESTED]
        elif x < 0.45:
            op = [INS, v]
            v += 1
        elif x < 0.50:
            op = [BEGIN]
        elif x < 0.56:
            op = [rng.choice([CCOMMIT, CROLLBACK])]
        elif x < 0.57 and misuse:
            op = [CCLOSE]
        else:
            livek = [h for h, _ in r.stack]
            dead = [k for k in range(nh) if not r.live(k)]
            y = rng.random()
            if livek and (y < 0.6 or not misuse):
                k = livek[0] if (rng.random() < 0.8 or not misuse) else rng.choice(livek)
            elif dead and y < 0.9:
                k = rng.choice(dead)
            else:
                k = rng.randrange(nh)
            c = rng.choice([HCOMMIT, HROLLBACK, HCLOSE, HCOMMIT, HROLLBACK, HENTER, HEXIT] if misuse
                           else [HCOMMIT, HROLLBACK, HCLOSE])
            op = [c, k] + ([rng.randrange(2)] if c == HEXIT else [])
        ops.append(op)
        r.step(op)
    return ops


def _rand_with(rng, budget, misuse):
    """programs built from with-statements: with conn.begin()/begin_nested() as h: body"""
    r = Ref()
    ops = []
    v = [1]

    def emit(op):
        ops.append(op)
        r.step(op)

    def body(depth):
        for _ in range(rng.randint(0, 3)):
            if len(ops) >= budget:
                return
            x = rng.random()
            nh = len(r.kinds)
            if x < 0.35:
                emit([INS, v[0]])
                v[0] += 1
            elif x < 0.65 and depth < 4:
                block(depth + 1)
            elif x < 0.75:
                emit([NESTED])
            elif x < 0.85 and nh:
                livek = [h for h, _ in r.stack]
                k = rng.choice(livek) if livek and rng.random() < 0.8 else rng.randrange(nh)
                emit([rng.choice([HCOMMIT, HROLLBACK, HCLOSE]), k])
            elif x < 0.95:
                emit([rng.choice([CCOMMIT, CROLLBACK])])
            elif misuse:
                emit([BEGIN])

    def block(depth):
        root = (not r.stack) and rng.random() < 0.6
        before = len(r.kinds)
        emit([BEGIN] if root else [NESTED])
        if len(r.kinds) == before:
            return
        k = len(r.kinds) - 1
        emit([HENTER, k])
        body(depth)
        emit([HEXIT, k, 1 if rng.random() < 0.25 else 0])

    while len(ops) < budget:
        block(0) if rng.random() < 0.8 else body(0)
        if rng.random() < 0.3:
            emit([rng.choice([CCOMMIT, CROLLBACK])])
    return ops[: budget + 4]


def _rand_faults(rng, maxlen):
    """raising `begin` listeners (once / always / removed) around autobegin, and DBAPI rollbacks that
    report an error while savepoints are open, each followed by more work and an outer commit"""
    r = Ref()
    ops = []
    v = [1]

    def emit(op):
        ops.append(op)
        r.step(op)

    def work(n):
        for _ in range(n):
            x = rng.random()
            nh = len(r.kinds)
            if x < 0.4:
                emit([INS, v[0]])
                v[0] += 1
            elif x < 0.6:
                emit([NESTED])
            elif x < 0.7:
                emit([BEGIN])
            elif x < 0.9 and nh:
                livek = [h for h, _ in r.stack]
                k = livek[0] if livek and rng.random() < 0.7 else rng.randrange(nh)
                emit([rng.choice([HCOMMIT, HROLLBACK, HCLOSE]), k])
            else:
                emit([rng.choice([CCOMMIT, CROLLBACK])])

    while len(ops) < maxlen:
        if rng.random() < 0.5:
            emit([FBEGIN, rng.choice([1, 1, 2])])
            work(rng.randint(1, 3))
            if rng.random() < 0.7:
                emit([FBEGIN, 0])
            work(rng.randint(1, 2))
        else:
            work(rng.randint(1, 3))
            emit([FROLLBACK, 1])
            nh = len(r.kinds)
            x = rng.random()
            if x < 0.5 or not r.stack:
                emit([rng.choice([CROLLBACK, CROLLBACK, CCLOSE])])
            else:
                root = r.stack[-1][0]
                emit([rng.choice([HROLLBACK, HCLOSE]), root])
            work(rng.randint(1, 3))
        emit([CCOMMIT])
    return ops[: maxlen + 3]


def _rand_out_of_order(rng, maxlen):
    """savepoint stacks with rows at every level, an out-of-order end of a non-innermost handle
    (directly or by leaving its with-block), some follow-up work, then the outer commit"""
    r = Ref()
    ops = []
    v = [1]

    def emit(op):
        ops.append(op)
        r.step(op)

    def ins():
        emit([INS, v[0]])
        v[0] += 1

    if rng.random() < 0.3:
        emit([BEGIN])
    if rng.random() < 0.7:
        ins()
    entered = []
    for _ in range(rng.randint(2, 3)):
        emit([NESTED])
        k = len(r.kinds) - 1
        if rng.random() < 0.3:
            emit([HENTER, k])
            entered.append(k)
        if rng.random() < 0.8:
            ins()
    nested = [h for h, _ in r.stack][:-1]
    victim = rng.choice(nested[1:]) if len(nested) > 1 else nested[0]
    if victim in entered and entered[-1] == victim and rng.random() < 0.7:
        emit([HEXIT, victim, rng.randrange(2)])
    else:
        emit([rng.choice([HROLLBACK, HROLLBACK, HCLOSE, HCOMMIT]), victim])
    for _ in range(rng.randint(0, max(0, maxlen - len(ops) - 1))):
        x = rng.random()
        if x < 0.4:
            ins()
        elif x < 0.55:
            emit([NESTED])
        elif x < 0.9:
            emit([rng.choice([HROLLBACK, HCLOSE, HCOMMIT]), rng.randrange(len(r.kinds))])
        else:
            break
    emit([CCOMMIT] if rng.random() < 0.7 else [HCOMMIT, 0])
    return ops


def _db_scripts(rng, tier):
    alpha = [[0], [1, 1], [1, 2], [2, 1], [2, 2], [3, 1], [3, 2], [4], [5], [6, 0]]
    out = []
    for n in (1, 2, 3):
        for tup in itertools.product(alpha, repeat=n):
            out.append([list(o) for o in tup])
    for _ in range(2000 if tier == "thorough" else 250):
        n = rng.randint(4, 12)
        out.append([list(rng.choice(alpha + [[1, 3], [2, 3], [3, 3], [6, 0], [6, 0]])) for _ in range(n)])
    for s in out:  # distinct insert values
        v = 1
        for o in s:
            if o[0] == 6:
                o[1] = v
                v += 1
    return out


def gen_cases(rng, tier):
    thorough = tier == "thorough"
    hist = []
    for h in _enum(3, _all_ops, 3):
        hist.append((h, "enum3"))
    for h in _enum(5 if thorough else 4, _sp_alphabet, 3):
        if len(h) >= 4:
            hist.append((h, "enum-savepoint"))
    if not thorough:
        # the quick tier keeps all of enum3 and a seeded sample of the savepoint family
        e3 = [x for x in hist if x[1] == "enum3"]
        es = [x for x in hist if x[1] != "enum3"]
        rng.shuffle(e3)
        rng.shuffle(es)
        hist = e3 + es[:300]
    nrand = 6000 if thorough else 200
    maxlen = 25 if thorough else 9
    for _ in range(nrand):
        hist.append((_rand_uniform(rng, rng.randint(4, maxlen)), "random-uniform"))
        hist.append((_rand_guided(rng, rng.randint(4, maxlen), True), "random-guided"))
        hist.append((_rand_guided(rng, rng.randint(4, maxlen), False), "random-wellformed"))
        hist.append((_rand_with(rng, rng.randint(4, maxlen), rng.random() < 0.5), "random-with"))
        hist.append((_rand_out_of_order(rng, min(maxlen, 12)), "random-out-of-order"))
        hist.append((_rand_faults(rng, rng.randint(5, min(maxlen, 14))), "random-faults"))
    cases = [{"in": [0, h], "kind": k} for h, k in hist]
    # the oracle's reference model against the Coq reference model (no database involved)
    step = 1 if thorough else 5
    cases += [{"in": [2, h], "kind": "spec"} for h, _ in hist[::step]]
    cases += [{"in": [1, s], "kind": "db"} for s in _db_scripts(rng, tier)]
    return cases


def nontrivial(c):
    tag, ops = c["in"]
    if tag == 1:
        seen = False
        for o in ops:
            if o[0] in (1, 2, 3) and seen:
                return True
            seen = seen or o[0] == 1
        return False
    seen = False
    for o in ops:
        if seen and CCOMMIT <= o[0] <= HEXIT and o[0] != HENTER:
            return True
        seen = seen or o[0] == NESTED
    return False


# ---------------- implementation side ----------------
_ENV = {}


class ListenerError(Exception):
    pass


def impl_setup():
    import atexit
    import os
    import shutil
    import sqlite3
    import tempfile
    import warnings

    import sqlalchemy as sa
    from sqlalchemy import event

    base = "/dev/shm" if os.path.isdir("/dev/shm") and os.access("/dev/shm", os.W_OK) else None
    d = tempfile.mkdtemp(prefix="verif_c23_", dir=base)
    atexit.register(shutil.rmtree, d, True)
    path = os.path.join(d, "t.db")
    # the table is created with the raw driver: the harness must not depend on the code under test
    c0 = sqlite3.connect(path)
    c0.execute("create table t (x integer)")
    c0.commit()
    c0.close()
    fault = {"begin": 0, "rollback": False}  # fault injection armed by the ops [11,m] / [12,b]

    class FaultConn(sqlite3.Connection):
        # the DBAPI rollback is performed and then reports an error (e.g. the acknowledgement is lost)
        fail_next = False

        def rollback(self):
            sqlite3.Connection.rollback(self)
            if self.fail_next:
                self.fail_next = False
                raise sqlite3.OperationalError("injected: rollback reported an error")

    eng = sa.create_engine("sqlite:///" + path, connect_args={"autocommit": False, "factory": FaultConn})
    md = sa.MetaData()
    t = sa.Table("t", md, sa.Column("x", sa.Integer))
    log = []

    def simple(tag):
        def fn(conn):
            if not conn.closed:  # nothing reaches a DBAPI connection once the Connection is closed
                log.append([tag])
        return fn

    def on_begin(conn):
        if conn.closed:
            return
        if fault["begin"]:  # the user's `begin` listener that raises
            if fault["begin"] == 1:
                fault["begin"] = 0
            raise ListenerError("begin listener failed")
        log.append([0])

    def on_rollback(conn):
        if conn.closed:
            return
        log.append([5])
        if fault["rollback"]:  # only rollbacks issued by Connection._rollback_impl, not the pool reset
            fault["rollback"] = False
            conn.connection.dbapi_connection.fail_next = True

    event.listen(eng, "begin", on_begin)
    event.listen(eng, "commit", simple(4))
    event.listen(eng, "rollback", on_rollback)

    @event.listens_for(eng, "before_cursor_execute")
    def bce(conn, cursor, statement, params, context, executemany):
        for prefix, tag in (("SAVEPOINT sa_savepoint_", 1), ("ROLLBACK TO SAVEPOINT sa_savepoint_", 2),
                            ("RELEASE SAVEPOINT sa_savepoint_", 3)):
            if statement.startswith(prefix):
                log.append([tag, int(statement[len(prefix):])])

    try:  # warm-up (dialect initialisation) outside the observed histories
        with warnings.catch_warnings():
            warnings.simplefilter("ignore")
            eng.connect().close()
    except Exception:
        pass
    obs = sqlite3.connect(path, timeout=0.2)
    raw = sqlite3.connect(path, autocommit=False, timeout=0.2)
    _ENV.update(eng=eng, t=t, log=log, obs=obs, raw=raw, sa=sa, warnings=warnings, path=path, fault=fault)


def _visible():
    return [[x] for (x,) in _ENV["obs"].execute("select x from t order by rowid")]


def _reset_table():
    import sqlite3

    o = _ENV["obs"]
    try:
        o.execute("delete from t")
        o.commit()
    except sqlite3.OperationalError:
        # a previous history left a DBAPI connection with an open write transaction in the pool
        o.rollback()
        _ENV["eng"].dispose()
        _ENV["raw"].rollback()
        o.execute("delete from t")
        o.commit()


def _code(ex):
    from sqlalchemy import exc

    if isinstance(ex, exc.PendingRollbackError):
        return 2
    if isinstance(ex, exc.ResourceClosedError):
        return 3
    if isinstance(ex, exc.InvalidRequestError):
        return 1
    if isinstance(ex, exc.OperationalError):
        return 4
    if isinstance(ex, ListenerError):
        return 8
    if isinstance(ex, AssertionError):
        return 5
    return 6


def _impl_hist(ops):
    E = _ENV
    warnings = E["warnings"]
    log = E["log"]
    t = E["t"]
    fault = E["fault"]
    fault["begin"] = 0
    fault["rollback"] = False
    _reset_table()
    conn = E["eng"].connect()
    handles = []
    out = []

    def idx(h):
        if h is None:
            return -1
        for i, x in enumerate(handles):
            if x is h:
                return i
        return -2

    try:
        for op in ops:
            c = op[0]
            if _is_h(op) and op[1] >= len(handles):
                out.append([9])
                continue
            del log[:]
            ret = None
            code = 0
            with warnings.catch_warnings(record=True) as w:
                warnings.simplefilter("always")
                try:
                    if c == BEGIN:
                        ret = conn.begin()
                    elif c == NESTED:
                        ret = conn.begin_nested()
                    elif c == INS:
                        conn.execute(t.insert().values(x=op[1]))
                    elif c == CCOMMIT:
                        conn.commit()
                    elif c == CROLLBACK:
                        conn.rollback()
                    elif c == CCLOSE:
                        conn.close()
                    elif c == HCOMMIT:
                        handles[op[1]].commit()
                    elif c == HROLLBACK:
                        handles[op[1]].rollback()
                    elif c == HCLOSE:
                        handles[op[1]].close()
                    elif c == HENTER:
                        handles[op[1]].__enter__()
                    elif c == HEXIT:
                        if op[2]:
                            try:
                                raise KeyError("user error inside the with block")
                            except KeyError as ue:
                                handles[op[1]].__exit__(type(ue), ue, ue.__traceback__)
                        else:
                            handles[op[1]].__exit__(None, None, None)
                    elif c == FBEGIN:
                        fault["begin"] = op[1]
                    elif c == FROLLBACK:
                        fault["rollback"] = bool(op[1])
                    else:
                        raise ValueError("bad op %r" % (op,))
                except Exception as ex:  # noqa
                    code = _code(ex)
            root = conn.get_transaction()
            if root is not None and idx(root) == -2:
                handles.append(root)
            if ret is not None and idx(ret) == -2:
                handles.append(ret)
            out.append([
                code,
                [list(x) for x in log],
                len(w),
                int(conn.in_transaction()),
                int(conn.in_nested_transaction()),
                idx(conn.get_transaction()),
                idx(conn.get_nested_transaction()),
                [int(bool(h.is_active)) for h in handles],
                _visible(),
            ])
    finally:
        fault["begin"] = 0
        fault["rollback"] = False
        try:
            with warnings.catch_warnings():
                warnings.simplefilter("ignore")
                conn.close()
        except Exception:
            pass
    return out


def _impl_db(script):
    import sqlite3

    _reset_table()
    raw = _ENV["raw"]
    raw.rollback()
    out = []
    for o in script:
        acc = 1
        try:
            if o[0] == 0:
                pass  # PEP 249: transactions begin implicitly
            elif o[0] == 1:
                raw.execute("SAVEPOINT s%d" % o[1])
            elif o[0] == 2:
                raw.execute("ROLLBACK TO SAVEPOINT s%d" % o[1])
            elif o[0] == 3:
                raw.execute("RELEASE SAVEPOINT s%d" % o[1])
            elif o[0] == 4:
                raw.commit()
            elif o[0] == 5:
                raw.rollback()
            elif o[0] == 6:
                raw.execute("insert into t (x) values (?)", (o[1],))
        except sqlite3.OperationalError:
            acc = 0
        cur = [[x] for (x,) in raw.execute("select x from t order by rowid")]
        out.append([acc, cur, _visible()])
    raw.rollback()
    return out


def impl(c):
    tag, ops = c["in"]
    if tag == 0:
        return _impl_hist(ops)
    if tag == 1:
        return _impl_db(ops)
    return ref_run(ops)


# ---------------- oracle: the property itself on the implementation observation ----------------
REGIONS = {
    "a": "C23-out-of-order-savepoint",
    "b": "C23-ended-root-cancels-savepoints",
    "c": "C23-savepoint-op-in-ended-with-block",
}


def _judge(ops, obs):
    """Judges one history against the reference model, clause by clause.

    Returns (unexplained, explained): the first deviation no known finding accounts for (str or
    None) and the first deviation that IS the failure a known finding describes ((region, str) or
    None).  The reference model *follows* the implementation through the known failures (an
    operation the implementation refused is not performed; savepoints silently cancelled by finding
    (b) are merged into the enclosing frame), so that the data / in_transaction / ended-commit
    clauses keep being judged inside the defective regions, where the unchanged implementation
    satisfies them.  What a known finding may explain:
      a  (after an out-of-order savepoint end, until the root transaction ends) a stale inner
         savepoint is still installed: in_nested_transaction() differs, operations are refused
         with OperationalError (ROLLBACK TO / RELEASE of a savepoint the database no longer has) or
         PendingRollbackError (stale inactive savepoint still installed), and begin/begin_nested/
         execute are performed inside the with-block of a stale handle (its transaction has ended
         for the reference model, which refuses them);
      b  at rollback()/close()/__exit__ of an ended root handle: the live savepoints of the current
         transaction are cancelled (in_nested_transaction() turns False);
      c  at commit/rollback/close of the innermost savepoint inside a with-block whose transaction
         has ended: InvalidRequestError although the handle is ended (work kept); afterwards
         PendingRollbackError refusals while the inactive savepoint is still installed.
    Never explained: what another connection sees, in_transaction(), commit() on an ended handle
    not raising, handle numbering."""
    import copy

    r = Ref()
    open_regions = []
    unexplained = None
    explained = None

    def note(region, msg):
        nonlocal explained
        if explained is None:
            explained = (region, msg)

    for i, (op, o) in enumerate(zip(ops, obs)):
        if _is_h(op) and op[1] >= len(r.kinds):
            if o != [9]:
                return "step %d: handle numbering differs from the reference model" % i, explained
            continue
        if o == [9]:
            return "step %d: handle numbering differs from the reference model" % i, explained
        reg = r.gstep(op)
        if reg == "d":
            break  # with-block protocol not used as the with statement uses it: not judged further
        code, cmds, warns, in_t, in_n, ri, ni, act, vis = o
        name = OPNAMES[op[0]] + ("(h%d)" % op[1] if _is_h(op) else "")
        ended_commit = op[0] == HCOMMIT and not r.live(op[1])
        proper = copy.deepcopy(r)
        raised = proper.step(op)
        if raised is True and code == 0 and "a" in open_regions and op[0] in (BEGIN, NESTED, INS) \
                and r.ctx_bad() and not r.closed:
            # the with-block on top belongs to a stale savepoint handle that is still active for the
            # implementation: the operation is performed; the reference model follows
            follow = copy.deepcopy(r)
            follow.ignore_ctx = True
            if follow.step(op) is False:
                follow.ignore_ctx = False
                note("a", "step %d %s performed inside the with-block of a stale savepoint handle" % (i, name))
                proper, raised = follow, False
        if raised is False and code != 0:
            msg = "step %d %s raised (code %d) although the reference model performs it" % (i, name, code)
            if reg in ("a", "c") and code == 1 and r.ctx_bad():
                note("c", msg)
                if "c" not in open_regions:
                    open_regions.append("c")
                if reg == "a" and "a" not in open_regions:
                    open_regions.append("a")  # the handles above it stay active (stale) as well
            elif code in (2, 4) and open_regions:
                note(open_regions[0], msg)
            elif "a" in open_regions and _is_h(op) and not r.live(op[1]):
                # rollback/close/__exit__ of a stale (for the implementation still active) savepoint
                # handle refused before reaching the database; for the reference model it is ended
                note("a", msg)
            else:
                return msg, explained
            r.follow_refused(op)
        else:
            r = proper
            if reg == "a" and "a" not in open_regions:
                open_regions.append("a")
            if reg == "b" and len(r.stack) > 1 and in_n == 0:
                note("b", "after step %d %s in_nested_transaction() is False: the ended root handle cancelled "
                          "the live savepoints of the current transaction" % (i, name))
                r.stack = r.stack[-1:]  # follow: the savepoint frames are merged into the root frame
        if vis != [[v] for v in r.committed]:
            return "after step %d %s another connection sees %s, the reference model says %s" % (
                i, name, vis, r.committed), explained
        if ended_commit and code == 0:
            return "step %d %s on an ended transaction did not raise" % (i, name), explained
        if len(act) != len(r.kinds):
            return "step %d %s: %d transaction objects exist, the reference model has %d" % (
                i, name, len(act), len(r.kinds)), explained
        if in_t != int(bool(r.stack)):
            return "after step %d %s in_transaction() = %s, reference model says %s" % (
                i, name, in_t, int(bool(r.stack))), explained
        if in_n != int(len(r.stack) > 1):
            msg = "after step %d %s in_nested_transaction() = %s, reference model says %s" % (
                i, name, in_n, int(len(r.stack) > 1))
            if open_regions:
                note(open_regions[0], msg)
            else:
                return msg, explained
        if not r.stack:
            open_regions = []  # the root transaction ended: every savepoint object was cancelled
    return None, explained


def oracle(c, obs):
    tag, ops = c["in"]
    if tag != 0:
        return None
    unexplained, explained = _judge(ops, obs)
    if unexplained:
        return unexplained
    if explained:
        return "%s [known region %s]" % (explained[1], explained[0])
    return None


def match_finding(c, what):
    tag, ops = c["in"]
    if tag != 0 or not what.endswith("]") or " [known region " not in what:
        return None
    return REGIONS.get(what[-2])


LEVEL_TEXT = (
    "Machine-checked proof (Coq) over a faithful executable model of Connection / RootTransaction / "
    "NestedTransaction / TransactionalContext running against a reference database with a savepoint "
    "stack. For EVERY history (any length, any nesting depth, misuse included): the _cancel recursion "
    "terminates, an operation on an inactive transaction object sends nothing to the database and "
    "commit() on it raises. For every history outside three precisely delimited defective regions "
    "(boolean guard computed on the reference model): visible and current data, in_transaction / "
    "in_nested_transaction, is_active of every handle and the raise/no-raise outcome of every "
    "operation equal the reference nested-transaction model after every step, and every command sent "
    "to the database is accepted. Each excluded region has a refutation theorem with a concrete "
    "witness that is replayed on SQLite on every run (KNOWN-FINDING)."
)
LEVEL_NOTE = (
    "Trusted: Coq kernel; the hand transcription (source pin of 34 anchors + the _execute_context "
    "prologue; compared with the real classes after every operation of ~3000 quick / ~31000 thorough "
    "histories on real SQLite); the reference database (validated against sqlite3 on every run; "
    "trusted for PostgreSQL/MariaDB, which cannot run here). No axioms."
)
TECHNIQUE = (
    "Coq: forward simulation between the code model and a reference nested-transaction model "
    "(invariant over object graph, with-block stack and database savepoint stack), compositional "
    "well-formedness/fuel invariant; refutations by vm_compute; source pin; differential testing "
    "of model, reference db and oracle on SQLite"
)
