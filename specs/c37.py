"""C37 - both sides of a bidirectional relationship always agree.

Case format (tree):  [kind, [persistent, pairs, unloaded], ops]
  kind   0 one-to-many P.cs <-> C.p, 1 one-to-one Q.one <-> O.q, 2 many-to-many L.rs <-> R.ls
         (side A = the first attribute on objects x1..x3, side B = the second on y1..y3)
  persistent  0 all six objects are transient, 1 persistent with both sides loaded
  pairs  initial relationship rows [x, y], sorted;  unloaded: side-B objects expired before the run
  ops    side A  [0,x,y] append  [1,x,y] remove  [2,x,i,y] insert  [3,x,i] pop  [4,x,i] del l[i]
                 [5,x,i,y] l[i]=y  [6,x,i,j,ys] l[i:j]=ys  [7,x,ys] x.attr = ys
                 [8,x,y] x.attr = y|None   [9,x] del x.attr                    (kind 1)
         side B  [10,y,x] y.attr = x|None  [11,y] del y.attr                   (kinds 0, 1)
                 [12,y,x] append  [13,y,x] remove  [14,y,xs] y.attr = xs       (kind 2)
         [15]    session.flush(); expire_all(); read both sides back   (last operation)
         [16]    session.flush(); commit(); load every collection side, refresh the columns of the
                 side-B objects (their scalar attribute stays unloaded but resolvable)   (not terminal)
         [17,x]  del x.attr (collection side A)    [18,y]  del y.attr (collection side B, kind 2)
  kinds 3 / 4: one-to-many with a set / a dict keyed by id (oracle only, no Coq model): ops 0, 1, 7,
         10, 11, 15, 16, 17
  persistent 2: like 1 but the scalar side-B attributes are left unloaded (columns loaded)
Observation: per operation [rc, side A cells, side B cells]; for [15]: [status, pairs seen from side A,
pairs seen from side B, rows left by the flush]  (see coq/orm/BackrefRun.v).
"""
import copy
import itertools
import json

ID = "C37"
LEVEL = "proof"
PROPS = "props/C37.v"
RUNNER = ("SAV.orm.BackrefRun", "run_case")
STATIC_MODULES = ["SAV.orm.BackrefRun"]
RULE = (
    "3+3 objects per relationship kind (one-to-many/many-to-one, one-to-one, many-to-many), transient or "
    "persistent-and-loaded, optionally one child expired: all sequences of two mutations over objects "
    "{1,2} from the full operation alphabet of the kind (append, remove, insert, pop, del l[i], l[i]=v, "
    "slice assignment, bulk replacement, scalar assignment incl. None, del) on either side, followed by "
    "flush + expire_all + reload (quick: a seeded sample of 900 of the ~13000, thorough: all), fixed "
    "witness sequences, plus random sequences of 1..7 operations over all three objects with random "
    "initial rows. non-trivial = the sequence mutates both sides of the pair, or uses bulk/slice "
    "replacement, and changes the relationship"
)
TRUSTED = [
    "hand-written Gallina transcription (coq/orm/Backref.v) of _backref_listeners (the three listeners "
    "and their initiator-token tests), _AttributeImpl.append/pop, _ScalarObjectAttributeImpl.set/delete/"
    "fire_*_event, _CollectionAttributeImpl.append/remove/pop/set, bulk_replace, the list decorators and "
    "util.has_dupes; pinned to the normalised source and compared behaviourally on every run",
    "flush is environment: the rows it leaves in the foreign-key column / association table are taken "
    "from the trace (model_pair); the model only derives both sides from those rows (reload)",
    "harness: Session(autoflush=False); back_populates pairs, list collections, default cascades",
]
ASSUMPTIONS = [
    "a single backref pair per attribute; no other attribute event listeners; collections are lists",
    "every collection side is loaded; only the scalar side of a persistent object may be expired, in "
    "which case its old value is PASSIVE_NO_RESULT (the foreign key column is expired as well)",
    "one-to-one reload reads the first matching row (lowest primary key)",
]
ANCHORS = [
    ("lib/sqlalchemy/orm/attributes.py", "_backref_listeners"),
    ("lib/sqlalchemy/orm/attributes.py", "_AttributeImpl.append"),
    ("lib/sqlalchemy/orm/attributes.py", "_AttributeImpl.pop"),
    ("lib/sqlalchemy/orm/attributes.py", "_ScalarObjectAttributeImpl.set"),
    ("lib/sqlalchemy/orm/attributes.py", "_ScalarObjectAttributeImpl.delete"),
    ("lib/sqlalchemy/orm/attributes.py", "_ScalarObjectAttributeImpl.fire_replace_event"),
    ("lib/sqlalchemy/orm/attributes.py", "_ScalarObjectAttributeImpl.fire_remove_event"),
    ("lib/sqlalchemy/orm/attributes.py", "_CollectionAttributeImpl.append"),
    ("lib/sqlalchemy/orm/attributes.py", "_CollectionAttributeImpl.remove"),
    ("lib/sqlalchemy/orm/attributes.py", "_CollectionAttributeImpl.pop"),
    ("lib/sqlalchemy/orm/attributes.py", "_CollectionAttributeImpl.set"),
    ("lib/sqlalchemy/orm/attributes.py", "_CollectionAttributeImpl.fire_append_event"),
    ("lib/sqlalchemy/orm/attributes.py", "_CollectionAttributeImpl.fire_remove_event"),
    ("lib/sqlalchemy/orm/collections.py", "bulk_replace"),
    ("lib/sqlalchemy/orm/collections.py", "__set"),
    ("lib/sqlalchemy/orm/collections.py", "__del"),
    ("lib/sqlalchemy/orm/collections.py", "_list_decorators.append"),
    ("lib/sqlalchemy/orm/collections.py", "_list_decorators.remove"),
    ("lib/sqlalchemy/orm/collections.py", "_list_decorators.insert"),
    ("lib/sqlalchemy/orm/collections.py", "_list_decorators.pop"),
    ("lib/sqlalchemy/orm/collections.py", "_list_decorators.__setitem__"),
    ("lib/sqlalchemy/orm/collections.py", "_list_decorators.__delitem__"),
    ("lib/sqlalchemy/util/_collections.py", "has_dupes"),
]

APP, REM, INS, POP, DELI, SETI, SLICE, REPL, ASET, ADEL, BSET, BDEL, BAPP, BREM, BREPL, RELOAD, COMMIT, DELC, BDELC = range(19)
OBJS = (1, 2, 3)


def translate(repo, outdir):
    from translate import fingerprint

    fingerprint.check(repo, ANCHORS, "C37")
    return []


# --------------------------------------------------------------------------------------------
# generator
def _alphabet(kind, objs=(1, 2)):
    ops = []
    if kind in (0, 2):
        lists = [[], [1], [2], [1, 2], [2, 1], [1, 1], [2, 2]]
        for x in objs:
            for y in objs:
                ops += [[APP, x, y], [REM, x, y], [INS, x, 0, y], [SETI, x, 0, y], [SLICE, x, 0, 1, [y]]]
            ops += [[POP, x, 0], [DELI, x, 0], [SLICE, x, 0, 2, []], [DELC, x]]
            ops += [[REPL, x, l] for l in lists]
    if kind == 1:
        for x in objs:
            ops += [[ASET, x, y] for y in (0,) + tuple(objs)] + [[ADEL, x]]
    if kind in (0, 1):
        for y in objs:
            ops += [[BSET, y, x] for x in (0,) + tuple(objs)] + [[BDEL, y]]
    if kind == 2:
        for y in objs:
            for x in objs:
                ops += [[BAPP, y, x], [BREM, y, x]]
            ops += [[BREPL, y, l] for l in ([], [1], [1, 2])] + [[BDELC, y]]
    ops.append([COMMIT])
    return ops


_CORE = [
    # the one-to-one defect, both directions
    (1, [0, [], []], [[ASET, 1, 1], [ASET, 2, 1], [RELOAD]]),
    (1, [0, [], []], [[BSET, 1, 1], [BSET, 2, 1], [RELOAD]]),
    (1, [1, [[1, 1], [2, 2]], []], [[ASET, 1, 2], [ASET, 3, 2], [BSET, 1, 3], [BDEL, 2], [ADEL, 1], [RELOAD]]),
    # duplicates
    (0, [0, [], []], [[APP, 1, 1], [APP, 1, 1], [BSET, 1, 2], [RELOAD]]),
    (0, [0, [], []], [[APP, 1, 1], [APP, 1, 1], [POP, 1, 0]]),
    (0, [0, [], []], [[APP, 1, 1], [INS, 1, 0, 1], [REM, 1, 1], [DELI, 1, 0]]),
    (2, [0, [], []], [[APP, 1, 1], [BAPP, 1, 1], [REPL, 1, []]]),
    # the unloaded-side exception
    (0, [1, [[1, 1], [1, 2]], [1]], [[APP, 2, 1], [BSET, 2, 3], [BDEL, 1], [RELOAD]]),
    (1, [1, [[1, 1]], [1]], [[ASET, 2, 1], [BSET, 1, 3], [RELOAD]]),
    # del obj.collection with 0..4 members (one duplicated), both relationship kinds, then the other side
    (0, [1, [[1, 1], [1, 2], [1, 3]], []], [[DELC, 1], [DELC, 1], [APP, 1, 2], [RELOAD]]),
    (0, [0, [[1, 1], [1, 2], [1, 3]], []], [[APP, 1, 1], [DELC, 1], [DELC, 2]]),
    (0, [2, [[1, 1], [1, 2], [2, 3]], []], [[DELC, 1], [BSET, 3, 1], [COMMIT], [DELC, 1], [RELOAD]]),
    (2, [1, [[1, 1], [1, 2], [1, 3], [2, 1]], []], [[DELC, 1], [BDELC, 1], [APP, 1, 3], [RELOAD]]),
    (2, [0, [[1, 1], [2, 1], [3, 1]], []], [[BDELC, 1], [BDELC, 2], [COMMIT], [BAPP, 1, 2], [DELC, 2]]),
    # bulk replacement that repeats a member and drops another one
    (0, [1, [[1, 1], [1, 2]], []], [[REPL, 1, [1, 1]]]),
    (2, [0, [[1, 1], [1, 2]], []], [[REPL, 1, [2, 2]], [RELOAD]]),
    # commit / expire before del and set-None on the scalar side (parent collection loaded)
    (0, [2, [[1, 1], [1, 2]], []], [[BDEL, 1], [BSET, 2, 0], [RELOAD]]),
    (0, [0, [], []], [[APP, 1, 1], [APP, 1, 2], [COMMIT], [BDEL, 1], [BSET, 2, 0], [COMMIT], [BSET, 1, 2], [BDEL, 1], [RELOAD]]),
    (1, [2, [[1, 1], [2, 2]], []], [[BDEL, 1], [BSET, 2, 0], [COMMIT], [ASET, 1, 1], [COMMIT], [BDEL, 1], [RELOAD]]),
    # guarded region: every primitive on both sides
    (0, [0, [], []], [[APP, 1, 1], [APP, 1, 2], [BSET, 1, 2], [REPL, 1, [3, 1]], [INS, 2, 0, 2], [POP, 1, 0],
                      [SETI, 1, 0, 3], [BDEL, 2], [REM, 2, 2], [RELOAD]]),
    (0, [1, [[1, 1], [1, 2], [2, 3]], []], [[SLICE, 1, 0, 2, [3]], [BSET, 1, 2], [SLICE, 2, 1, 1, [2]], [DELI, 2, 0],
                                            [BSET, 3, 0], [BDEL, 3], [BDEL, 3], [REM, 1, 1], [POP, 3, 0], [RELOAD]]),
    (2, [0, [], []], [[APP, 1, 1], [BAPP, 2, 1], [REPL, 1, [2, 3]], [BREM, 3, 1], [SETI, 1, 0, 1], [BREPL, 1, [2, 3]],
                      [POP, 2, 0], [DELI, 3, 0], [INS, 3, 5, 3], [SLICE, 1, 0, 1, [2, 3]], [BREM, 1, 1], [RELOAD]]),
    (1, [0, [], []], [[ASET, 1, 1], [ASET, 1, 2], [BSET, 2, 0], [BSET, 3, 1], [BDEL, 3], [ADEL, 1], [ADEL, 1],
                      [ASET, 1, 0], [RELOAD]]),
]


def _rand_case(rng):
    kind = rng.randint(0, 2)
    persistent = rng.choice([0, 1, 1, 2])
    rel = []
    if rng.random() < 0.6:
        if kind == 2:
            rel = [[x, y] for x in OBJS for y in OBJS if rng.random() < 0.3]
        elif kind == 0:
            rel = [[rng.randint(1, 3), y] for y in OBJS if rng.random() < 0.6]
        else:
            xs, ys = list(OBJS), list(OBJS)
            rng.shuffle(xs)
            rng.shuffle(ys)
            rel = [[x, y] for x, y in list(zip(xs, ys))[: rng.randint(0, 3)]]
    rel = sorted(rel)
    unl = []
    if persistent == 1 and kind != 2 and rng.random() < 0.25:
        unl = [rng.randint(1, 3)]
    ops = []
    for _ in range(rng.randint(1, 7)):
        o, v = rng.randint(1, 3), rng.randint(1, 3)
        if kind == 0:
            code = rng.choice([APP, APP, REM, INS, POP, DELI, SETI, SLICE, REPL, BSET, BSET, BSET, BDEL, BDEL, DELC, COMMIT])
        elif kind == 1:
            code = rng.choice([ASET, ASET, ADEL, BSET, BSET, BDEL, COMMIT])
        else:
            code = rng.choice([APP, APP, REM, INS, POP, DELI, SETI, SLICE, REPL, BAPP, BAPP, BREM, BREPL, DELC, BDELC, COMMIT])
        if code in (APP, REM, BAPP, BREM):
            op = [code, o, v]
        elif code == INS:
            op = [code, o, rng.randint(0, 3), v]
        elif code in (POP, DELI):
            op = [code, o, rng.randint(0, 2)]
        elif code == SETI:
            op = [code, o, rng.randint(0, 2), v]
        elif code == SLICE:
            i = rng.randint(0, 2)
            op = [code, o, i, rng.randint(i, 3), rng.sample(OBJS, rng.randint(0, 2))]
        elif code in (REPL, BREPL):
            vs = [rng.randint(1, 3) for _ in range(rng.randint(0, 3))]
            if rng.random() < 0.8:
                vs = list(dict.fromkeys(vs))
            op = [code, o, vs]
        elif code in (ASET, BSET):
            op = [code, o, rng.randint(0, 3)]
        elif code == COMMIT:
            op = [COMMIT]
        else:
            op = [code, o]
        ops.append(op)
    if rng.random() < 0.7:
        ops.append([RELOAD])
    return {"in": [kind, [persistent, rel, unl], ops], "kind": "random"}


def _rand_setdict_case(rng):
    """one-to-many with a set / keyed-dict collection: checked by the oracle only"""
    kind = rng.choice([3, 4])
    persistent = rng.choice([0, 1, 2])
    rel = sorted([rng.randint(1, 3), y] for y in OBJS if rng.random() < 0.7)
    ops = []
    for _ in range(rng.randint(1, 6)):
        o, v = rng.randint(1, 3), rng.randint(1, 3)
        code = rng.choice([APP, REM, REPL, BSET, BSET, BDEL, DELC, DELC, COMMIT])
        if code in (APP, REM):
            op = [code, o, v]
        elif code == REPL:
            op = [code, o, sorted(set(rng.randint(1, 3) for _ in range(rng.randint(0, 3))))]
        elif code == BSET:
            op = [code, o, rng.randint(0, 3)]
        elif code == COMMIT:
            op = [COMMIT]
        else:
            op = [code, o]
        ops.append(op)
    if rng.random() < 0.7:
        ops.append([RELOAD])
    return {"in": [kind, [persistent, rel, []], ops], "kind": "random-setdict", "model": False}


def _families():
    for kind in (0, 1, 2):
        alpha = _alphabet(kind)
        inits = [[0, [], []], [1, [[1, 1]], []]]
        if kind == 0:
            inits.append([1, [[1, 1], [1, 2]], []])
            inits.append([2, [[1, 1], [1, 2]], []])
        if kind == 2:
            inits.append([1, [[1, 1], [1, 2], [2, 1]], []])
        for init in inits:
            for a, b in itertools.product(alpha, repeat=2):
                yield {"in": [kind, copy.deepcopy(init), [list(a), list(b), [RELOAD]]], "kind": "pairs-%d" % kind}


def gen_cases(rng, tier):
    cases = [{"in": [k, copy.deepcopy(i), copy.deepcopy(ops)], "kind": "core"} for k, i, ops in _CORE]
    fam = list(_families())
    if tier != "thorough":
        fam = rng.sample(fam, 900)
    cases += fam
    for _ in range(10000 if tier == "thorough" else 600):
        cases.append(_rand_case(rng))
    for n in (0, 1, 2, 3):  # del obj.collection on set / dict collections with 0..3 members
        for kind in (3, 4):
            for pers in (0, 1):
                rel = [[1, y] for y in OBJS[:n]]
                cases.append({"in": [kind, [pers, rel, []], [[DELC, 1], [RELOAD]]], "kind": "delc-setdict", "model": False})
    for _ in range(3000 if tier == "thorough" else 150):
        cases.append(_rand_setdict_case(rng))
    seen, out = set(), []
    for c in cases:
        k = json.dumps(c["in"])
        if k not in seen:
            seen.add(k)
            out.append(c)
    return out


def nontrivial(c):
    _kind, _init, ops = c["in"]
    codes = {o[0] for o in ops}
    a_side = codes & {APP, REM, INS, POP, DELI, SETI, SLICE, REPL, ASET, ADEL, DELC}
    b_side = codes & {BSET, BDEL, BAPP, BREM, BREPL, BDELC}
    return bool((a_side and b_side) or codes & {REPL, SLICE, BREPL, DELC, BDELC})


# --------------------------------------------------------------------------------------------
# implementation side
_ENV = {}
_EXC = {"AttributeError": 1, "ValueError": 3, "IndexError": 5, "KeyError": 2}


def impl_setup():
    if _ENV:
        return
    from sqlalchemy import Column, ForeignKey, Integer, Table, create_engine
    from sqlalchemy.orm import attribute_keyed_dict, configure_mappers, declarative_base, relationship
    from sqlalchemy.pool import StaticPool

    Base = declarative_base()

    class P(Base):
        __tablename__ = "p"
        id = Column(Integer, primary_key=True)
        cs = relationship("C", back_populates="p", order_by="C.id")

    class C(Base):
        __tablename__ = "c"
        id = Column(Integer, primary_key=True)
        pid = Column(ForeignKey("p.id"))
        p = relationship("P", back_populates="cs")

    class Q(Base):
        __tablename__ = "q"
        id = Column(Integer, primary_key=True)
        one = relationship("O", back_populates="q", uselist=False)

    class O(Base):
        __tablename__ = "o"
        id = Column(Integer, primary_key=True)
        qid = Column(ForeignKey("q.id"))
        q = relationship("Q", back_populates="one")

    assoc = Table(
        "assoc",
        Base.metadata,
        Column("l", ForeignKey("l.id"), primary_key=True),
        Column("r", ForeignKey("r.id"), primary_key=True),
    )

    class L(Base):
        __tablename__ = "l"
        id = Column(Integer, primary_key=True)
        rs = relationship("R", secondary=assoc, back_populates="ls", order_by="R.id")

    class R(Base):
        __tablename__ = "r"
        id = Column(Integer, primary_key=True)
        ls = relationship("L", secondary=assoc, back_populates="rs", order_by="L.id")

    class PS(Base):
        __tablename__ = "ps"
        id = Column(Integer, primary_key=True)
        cs = relationship("CS", back_populates="p", collection_class=set)

    class CS(Base):
        __tablename__ = "cs"
        id = Column(Integer, primary_key=True)
        pid = Column(ForeignKey("ps.id"))
        p = relationship("PS", back_populates="cs")

    class PD(Base):
        __tablename__ = "pd"
        id = Column(Integer, primary_key=True)
        cs = relationship("CD", back_populates="p", collection_class=attribute_keyed_dict("id"))

    class CD(Base):
        __tablename__ = "cd"
        id = Column(Integer, primary_key=True)
        pid = Column(ForeignKey("pd.id"))
        p = relationship("PD", back_populates="cs")

    configure_mappers()
    e = create_engine("sqlite://", poolclass=StaticPool, connect_args={"autocommit": False})
    Base.metadata.create_all(e)
    _ENV.update(
        e=e,
        # X class, X attribute, Y class, Y attribute, X side is a collection, Y side is a collection, fk of Y
        kinds={
            0: (P, "cs", C, "p", True, False, "pid"),
            1: (Q, "one", O, "q", False, False, "qid"),
            2: (L, "rs", R, "ls", True, True, None),
            3: (PS, "cs", CS, "p", True, False, "pid"),
            4: (PD, "cs", CD, "p", True, False, "pid"),
        },
        tables={0: ["c", "p"], 1: ["o", "q"], 2: ["assoc", "l", "r"], 3: ["cs", "ps"], 4: ["cd", "pd"]},
        rows={
            0: "select pid, id from c where pid is not null order by id",
            1: "select qid, id from o where qid is not null order by id",
            2: "select l, r from assoc order by l, r",
            3: "select pid, id from cs where pid is not null order by id",
            4: "select pid, id from cd where pid is not null order by id",
        },
    )


def impl(case):
    import warnings

    from sqlalchemy import inspect, text
    from sqlalchemy.orm import Session

    impl_setup()
    kind, init, ops = case["in"]
    persistent, rel, unl = init
    X, xa, Y, ya, xcoll, ycoll, yfk = _ENV["kinds"][kind]
    e = _ENV["e"]
    warnings.simplefilter("ignore")
    with e.connect() as conn:
        for t in _ENV["tables"][kind]:
            conn.execute(text("delete from %s" % t))
        conn.commit()
    out = []
    with Session(e, autoflush=False) as s:
        xs = {i: X(id=i) for i in OBJS}
        ys = {i: Y(id=i) for i in OBJS}
        everything = list(xs.values()) + list(ys.values())
        xid = {id(o): i for i, o in xs.items()}
        yid = {id(o): i for i, o in ys.items()}
        state = {"persistent": bool(persistent)}

        def members(c, ids):
            vals = list(c.values()) if isinstance(c, dict) else list(c)
            l = [ids[id(v)] for v in vals]
            return sorted(l) if kind in (3, 4) else l

        def add(x, y):
            c = getattr(xs[x], xa)
            if kind == 3:
                c.add(ys[y])
            elif kind == 4:
                c[y] = ys[y]
            else:
                c.append(ys[y])

        def load_sides(lazy_b):
            for o in xs.values():
                getattr(o, xa)
            for o in ys.values():
                o.id  # refresh the columns (the foreign key); the relationship stays unloaded
                if ycoll or not lazy_b:
                    getattr(o, ya)

        if persistent:
            s.add_all(everything)
        for x, y in rel:
            if xcoll:
                add(x, y)
            else:
                setattr(xs[x], xa, ys[y])
        if persistent:
            s.commit()
            load_sides(lazy_b=(persistent == 2))
            for y in unl:
                s.expire(ys[y])

        def cellv(o, attr, coll, ids, fk):
            d = o.__dict__
            if coll:
                return members(d.get(attr, []), ids)
            if attr not in d:
                if state["persistent"] and attr not in inspect(o).committed_state:
                    if fk is not None and fk in d:
                        return [d[fk] or 0]  # unloaded, resolvable from the identity map without SQL
                    return [-1]
                return [-2]
            v = d[attr]
            return [0 if v is None else ids[id(v)]]

        def snapshot():
            return [[cellv(xs[i], xa, xcoll, yid, None) for i in OBJS], [cellv(ys[i], ya, ycoll, xid, yfk) for i in OBJS]]

        for op in ops:
            code = op[0]
            if code in (RELOAD, COMMIT):
                if not state["persistent"]:
                    s.add_all(everything)
                try:
                    s.flush()
                    rows = [list(r) for r in s.execute(text(_ENV["rows"][kind])).all()]
                except Exception:  # the flush failed (IntegrityError on duplicate association rows, ...)
                    s.rollback()
                    out.append([9, [], [], []])
                    break
                if code == COMMIT:
                    s.commit()
                    state["persistent"] = True
                    load_sides(lazy_b=True)
                    out.append([0] + snapshot() + [rows])
                    continue
                s.expire_all()
                relo, relb = [], []
                for i in OBJS:
                    v = getattr(xs[i], xa)
                    relo += [[i, w] for w in (members(v, yid) if xcoll else ([] if v is None else [yid[id(v)]]))]
                for j in OBJS:
                    v = getattr(ys[j], ya)
                    relb += [[w, j] for w in (members(v, xid) if ycoll else ([] if v is None else [xid[id(v)]]))]
                out.append([0, sorted(relo), sorted(relb), rows])
                break
            rc = 0
            try:
                if code == APP:
                    add(op[1], op[2])
                elif code == BAPP:
                    getattr(ys[op[1]], ya).append(xs[op[2]])
                elif code == REM:
                    c = getattr(xs[op[1]], xa)
                    if kind == 4:
                        del c[op[2]]
                    else:
                        c.remove(ys[op[2]])
                elif code == BREM:
                    getattr(ys[op[1]], ya).remove(xs[op[2]])
                elif code == INS:
                    getattr(xs[op[1]], xa).insert(op[2], ys[op[3]])
                elif code == POP:
                    getattr(xs[op[1]], xa).pop(op[2])
                elif code == DELI:
                    del getattr(xs[op[1]], xa)[op[2]]
                elif code == SETI:
                    getattr(xs[op[1]], xa)[op[2]] = ys[op[3]]
                elif code == SLICE:
                    getattr(xs[op[1]], xa)[op[2] : op[3]] = [ys[i] for i in op[4]]
                elif code == REPL:
                    vals = [ys[i] for i in op[2]]
                    setattr(xs[op[1]], xa, set(vals) if kind == 3 else ({v.id: v for v in vals} if kind == 4 else vals))
                elif code == BREPL:
                    setattr(ys[op[1]], ya, [xs[i] for i in op[2]])
                elif code == ASET:
                    setattr(xs[op[1]], xa, None if op[2] == 0 else ys[op[2]])
                elif code in (ADEL, DELC):
                    delattr(xs[op[1]], xa)
                elif code == BSET:
                    setattr(ys[op[1]], ya, None if op[2] == 0 else xs[op[2]])
                elif code in (BDEL, BDELC):
                    delattr(ys[op[1]], ya)
                else:
                    raise NotImplementedError(code)
            except (AttributeError, ValueError, IndexError, KeyError) as ex:
                rc = _EXC.get(type(ex).__name__, 3)
            except Exception:  # anything else (RecursionError, RuntimeError, ...) is an internal failure
                rc = 99
            out.append([rc] + snapshot())
        s.rollback()
    return out


def model_pair(case, obs):
    """The flush is environment: what it left in the database is input of the model's reload/commit
    steps.  persistent = 2 (scalar side unloaded but resolvable) is the same model state as 1."""
    mi = copy.deepcopy(case["in"])
    mi[1][0] = 1 if mi[1][0] else 0
    mo = []
    for k, (op, o) in enumerate(zip(mi[2], obs)):
        if op[0] in (RELOAD, COMMIT):
            mi[2][k] = [op[0], o[0], o[-1]]
            mo.append(o[:-1])
        else:
            mo.append(o)
    return mi, mo


# --------------------------------------------------------------------------------------------
# oracle: the agreement itself, on the implementation's in-memory state after every operation and on
# the reloaded state.  Pairs whose scalar side was expired at the start (the documented unloaded-side
# exception) are exempt in memory until the next commit, not after a reload.
def _members(kind, side, cell):
    coll = (kind in (0, 2, 3, 4)) if side == 0 else (kind == 2)
    if coll:
        return list(cell)
    return [cell[0]] if cell[0] > 0 else []


def _disagree(kind, a, b, skip_b=()):
    for x in OBJS:
        for y in OBJS:
            if y in skip_b:
                continue
            if b[y - 1] == [-1]:
                continue
            ina = y in _members(kind, 0, a[x - 1])
            inb = x in _members(kind, 1, b[y - 1])
            if ina != inb:
                return (x, y, ina, inb)
    return None


def _has_dup(kind, a, b):
    ls = []
    if kind in (0, 2):
        ls += list(a)
    if kind == 2:
        ls += list(b)
    return any(len(set(l)) != len(l) for l in ls)


def oracle(case, obs):
    kind, init, ops = case["in"]
    _persistent, rel, unl = init
    # the state before the first operation, for the classification of a disagreement
    acoll = kind in (0, 2, 3, 4)
    a0 = [[y for (x, y) in rel if x == i] if acoll else ([y for (x, y) in rel if x == i] or [0])[:1] for i in OBJS]
    b0 = [[x for (x, y) in rel if y == j] if kind == 2 else ([x for (x, y) in rel if y == j] or [0])[:1] for j in OBJS]
    prev = (a0, b0)
    one2one = False
    skip = list(unl) if kind != 2 else []
    for n, (op, o) in enumerate(zip(ops, obs)):
        where = "step %d %s" % (n, op)
        pa, pb = prev
        # "dup": a list collection ALREADY held a member twice before this operation - the region the
        # guarded theorems exclude.  (Putting a member in twice does not by itself break the agreement.)
        dup = _has_dup(kind, pa, pb)
        if op[0] in (RELOAD, COMMIT):
            tag = "[dup] " if dup else ("[one-to-one] " if one2one else "")
            if o[0] != 0:
                return "%s%s: the flush failed" % (tag, where)
            if op[0] == RELOAD:
                if o[1] != o[2]:
                    return "%s%s: after flush and reload side A sees %s, side B sees %s" % (tag, where, o[1], o[2])
                return None
            skip = []
        if o[0] == 99:
            return "%s: the mutation failed with an internal error" % where
        a, b = o[1], o[2]
        if kind == 1 and op[0] in (ASET, BSET) and op[2] != 0:
            # the assigned object was already referenced from (or referring to) another object
            back = pb[op[2] - 1] if op[0] == ASET else pa[op[2] - 1]
            if back not in ([0], [-2], [-1], [op[1]]):
                one2one = True
            others = pa if op[0] == ASET else pb
            if any(c == [op[2]] for i, c in enumerate(others) if i != op[1] - 1):
                one2one = True
        d = _disagree(kind, a, b, skip_b=skip)
        if d:
            tag = "[dup] " if dup else ("[one-to-one] " if one2one else "")
            return "%s%s: side A object %d %s side B object %d, but side B object %d %s it (A=%s B=%s)" % (
                tag, where, d[0], "holds" if d[2] else "does not hold", d[1], d[1],
                "refers back to" if d[3] else "does not refer back to", a, b)
        prev = (a, b)
    return None


def match_finding(case, what):
    kind = case["in"][0]
    if what.startswith("[one-to-one]") and kind == 1:
        return "C37-one-to-one-reassign"
    if what.startswith("[dup]") and kind in (0, 2):
        return "C37-duplicate-members"
    return None


LEVEL_TEXT = (
    "Machine-checked proof (Coq) over an executable model of a pair of mutually back-populating "
    "attributes with the three backref listeners and their initiator tokens: for one-to-many/many-to-one "
    "and many-to-many the agreement invariant (B in A's collection <-> A is B's parent / in B's "
    "collection, no duplicates) is preserved by every primitive mutation on either side - append, insert, "
    "remove, pop, del l[i], l[i]=v, bulk replacement, scalar assignment and del - hence by all sequences "
    "incl. slice assignment, as long as no member is added twice to one collection; termination of the "
    "listener recursion within the model's fuel is proved for all states; after a flush both sides reload "
    "from the same rows and agree. The one-to-one reassignment and duplicate-member defects are proved as "
    "_refuted theorems; the unloaded-side exception is a theorem of its own."
)
LEVEL_NOTE = (
    "Trusted: Coq kernel; the hand transcription (source pin of 23 functions + behavioural correspondence "
    "on ~2000 operation sequences per run, both sides compared after every operation); the flush is taken "
    "from the trace. No axioms."
)
TECHNIQUE = (
    "Coq: closed forms of the listener chains by symbolic evaluation, invariant preservation per primitive, "
    "loop invariants for bulk replacement; source pin; small-scope exhaustive + random model/implementation "
    "correspondence on SQLite; direct agreement oracle"
)
