"""C44 - version counters prevent lost updates."""
import itertools

ID = "C44"
LEVEL = "proof"
PROPS = "props/C44.v"
RUNNER = ("SAV.orm.VersionRun", "run_case")
STATIC_MODULES = ["SAV.orm.VersionRun"]
RULE = (
    "2-3 real Sessions (autoflush off, expire_on_commit per session) on one SQLite FILE database in WAL mode, each on "
    "its own connection (busy timeout 0), driven in one thread: the case fixes which session performs its next "
    "operation (get / get+set x / get+set y / get+delete / flush / commit / rollback on pks 1-3). Families: all (quick: sampled) "
    "interleavings of two programs of <= 4 operations from a pool of conflict programs + random programs, after an "
    "optional prologue that loads every row in every session; interleavings of three programs of <= 3 operations; "
    "random longer histories; directed multi-row flushes with heterogeneous changed-column sets (several UPDATE groups); "
    "client-side, server-side (SET v = v + 1 ... RETURNING v) version generation and a three-level joined-table "
    "inheritance mapping (version in the root table, x in the intermediate, y in the leaf table; all instances of the leaf class); three "
    "dialect settings (supports_sane_rowcount / supports_sane_multi_rowcount flipped on the engine's dialect). "
    "Observation per operation = result (value seen / ok / StaleDataError / 'database is locked'), the SELECT / UPDATE "
    "/ DELETE statements with their parameters (before_cursor_execute), and the committed rows read by an independent "
    "connection; it must equal the Coq model's. non-trivial = two sessions modify or delete the same primary key and "
    "at least one of them commits"
)
TRUSTED = [
    "hand-written Gallina transcription of the versioned UPDATE/DELETE path of orm/persistence.py and of the Session "
    "transaction/expiry behaviour it relies on (pinned normalised source + behavioural correspondence incl. the emitted SQL)",
    "reference database = SQLite WAL semantics (snapshot reads, single writer, 'database is locked' on a second writer "
    "or an outdated snapshot); validated against the live engine by the correspondence on every run; isolation of other "
    "databases is outside",
]
ASSUMPTIONS = [
    "the version generator is strictly increasing (v < g v): holds for the default generator on integers and for SET v = v + 1",
    "no INSERT in the operation alphabet (a deleted primary key is not re-created)",
    "the harness keeps a strong reference to every loaded instance (the identity map is weak)",
]
LEVEL_TEXT = (
    "Coq proof over an interleaving model of any number of Sessions, any operation history, any strictly increasing "
    "version generator: a flush/commit with a stale loaded version returns an error (StaleDataError unless the database "
    "refuses the write first), leaves the committed rows and every other session untouched and discards the whole "
    "transaction; committed versions never decrease and equal versions mean equal content at any two points of any "
    "history; every UPDATE/DELETE of a successful flush hit exactly the row (content and version) the session had loaded "
    "and produced version g(loaded). Refuted (and guarded) for DELETE of >= 2 objects in one flush when the dialect lacks "
    "supports_sane_multi_rowcount. Tie: pinned source + model/implementation correspondence on enumerated interleavings."
)
LEVEL_NOTE = (
    "partial: statement-level interleaving inside one flush is not explored (SQLite admits a single writer; the model's "
    "step is one session operation); the model sees ONE versioned row per object (two data columns): the three-level "
    "joined-table mapping is tied to it through the joined row and the root-table statements only, with sane rowcounts; "
    "not modelled: INSERT/row switch, version_id_generator=False with manually set versions, post_update, SQL-expression "
    "values, autoflush, primary-key changes, ORM-enabled bulk UPDATE/DELETE, server-side generation without RETURNING "
    "(refresh SELECT). Isolation of PostgreSQL/MariaDB is not modelled."
)
TECHNIQUE = "Coq invariant proof over an interleaving model (induction over histories) + exhaustive small-scope interleaving correspondence on a shared SQLite file"
ANCHORS = [
    ("lib/sqlalchemy/orm/persistence.py", "_organize_states_for_save"),
    ("lib/sqlalchemy/orm/persistence.py", "_organize_states_for_delete"),
    ("lib/sqlalchemy/orm/persistence.py", "_collect_update_commands"),
    ("lib/sqlalchemy/orm/persistence.py", "_collect_delete_commands"),
    ("lib/sqlalchemy/orm/persistence.py", "_emit_update_statements"),
    ("lib/sqlalchemy/orm/persistence.py", "_emit_delete_statements"),
    ("lib/sqlalchemy/orm/persistence.py", "_finalize_insert_update_commands"),
    ("lib/sqlalchemy/orm/persistence.py", "_postfetch"),
    ("lib/sqlalchemy/orm/mapper.py", "Mapper.__init__"),
    ("lib/sqlalchemy/orm/mapper.py", "Mapper._version_id_has_server_side_value"),
    ("lib/sqlalchemy/orm/session.py", "Session.rollback"),
    ("lib/sqlalchemy/orm/session.py", "Session.commit"),
]

LOAD, SET, DEL, FLUSH, COMMIT, ROLLBACK, SETY = range(7)  # SET assigns column x, SETY column y


def translate(repo, outdir):
    from translate import fingerprint

    fingerprint.check(repo, ANCHORS, "C44")
    return []


# ---------------- case generation ----------------
# programs are strings: l<k> load, s<k> set x, t<k> set y, d<k> delete, F flush, C commit, R rollback
POOL = [
    "l1 C s1 C", "s1 C", "s1 F C", "d1 C", "l1 C d1 C", "s1 s2 C", "l1 l2 C", "s1 F R", "d1 d2 C", "s1 d2 C",
    "s2 C s1 C", "d1 F C", "s1 F s2 C", "l1 s1 F C", "s1 C s1 C", "F C", "s1 R", "l1", "s2 d1 F C", "d2 C",
    "s1 t2 C", "t1 s2 C", "t1 C", "s1 t1 C", "s1 t1 t2 C", "t1 F s2 C",
]


def _prog(p, sid, vals):
    out = []
    for t in p.split():
        if t[0] == "l":
            out.append([sid, LOAD, int(t[1]), 0])
        elif t[0] == "s":
            out.append([sid, SET, int(t[1]), next(vals)])
        elif t[0] == "t":
            out.append([sid, SETY, int(t[1]), next(vals)])
        elif t[0] == "d":
            out.append([sid, DEL, int(t[1]), 0])
        else:
            out.append([sid, {"F": FLUSH, "C": COMMIT, "R": ROLLBACK}[t], 0, 0])
    return out


def _rand_prog(rng, n, nk):
    toks = []
    for _ in range(n):
        t = rng.choice(["l", "s", "s", "t", "d", "F", "C", "C", "R"])
        toks.append(t + str(rng.randint(1, nk)) if t in "lstd" else t)
    return " ".join(toks)


def _merges(lens):
    """all interleavings of sequences of the given lengths, as lists of sequence indices"""
    total = sum(lens)

    def rec(rem):
        if sum(rem) == 0:
            yield []
            return
        for i, r in enumerate(rem):
            if r:
                rem2 = list(rem)
                rem2[i] -= 1
                for rest in rec(rem2):
                    yield [i] + rest

    return rec(list(lens))


def _case(rng, progs, order, prologue, nk, mode, dial, eocs, kind):
    vals = itertools.count(2)
    rows0 = [[k, 0, 0, 1] for k in range(1, nk + 1)]
    ops = []
    if prologue:
        for i in range(len(progs)):
            for k in range(1, nk + 1):
                ops.append([i, LOAD, k, 0])
            ops.append([i, COMMIT, 0, 0])
    if mode == 2:
        dial = 0  # joined inheritance only with sane rowcounts: otherwise the unversioned tables are written although the root statement matched nothing
    seqs = [_prog(p, i, vals) for i, p in enumerate(progs)]
    pos = [0] * len(progs)
    for i in order:
        ops.append(seqs[i][pos[i]])
        pos[i] += 1
    return {"in": [mode, dial, eocs, rows0, ops], "kind": kind}


def gen_cases(rng, tier):
    thorough = tier == "thorough"
    cases = []
    # --- two sessions x <= 4 operations
    npairs = 500 if thorough else 45
    for n in range(npairs):
        if n < 25 or rng.random() < 0.5:
            pa, pb = rng.choice(POOL), rng.choice(POOL)
        else:
            pa, pb = _rand_prog(rng, rng.randint(1, 4), 2), _rand_prog(rng, rng.randint(1, 4), 2)
        la, lb = len(pa.split()), len(pb.split())
        ms = list(_merges([la, lb]))
        if not thorough and len(ms) > 14:
            ms = rng.sample(ms, 14)
        prologue = rng.random() < 0.6
        mode = rng.choice([0, 1, 2])
        dial = rng.choice([0, 0, 0, 0, 1, 2])
        eocs = [rng.choice([0, 0, 1]), rng.choice([0, 0, 1])]
        for m in ms:
            cases.append(_case(rng, [pa, pb], m, prologue, 2, mode, dial, eocs, "pair"))
    # --- three sessions x <= 3 operations
    ntrip = 40 if thorough else 20
    for n in range(ntrip):
        ps = []
        for _ in range(3):
            if rng.random() < 0.6:
                p = rng.choice([q for q in POOL if len(q.split()) <= 3])
            else:
                p = _rand_prog(rng, rng.randint(1, 3), 2)
            ps.append(p)
        ms = list(_merges([len(p.split()) for p in ps]))
        k = len(ms) if thorough else 10
        if len(ms) > k:
            ms = rng.sample(ms, k)
        prologue = rng.random() < 0.7
        mode = rng.choice([0, 1, 2])
        dial = rng.choice([0, 0, 0, 1, 2])
        eocs = [rng.choice([0, 0, 1]) for _ in range(3)]
        for m in ms:
            cases.append(_case(rng, ps, m, prologue, 2, mode, dial, eocs, "triple"))
    # --- random longer histories
    for n in range(6000 if thorough else 250):
        ns = rng.choice([2, 2, 3])
        nk = rng.choice([2, 3])
        ops = []
        for _ in range(rng.randint(3, 14)):
            op = rng.choice([LOAD, SET, SET, SETY, DEL, FLUSH, COMMIT, COMMIT, ROLLBACK])
            ops.append([rng.randrange(ns), op, rng.randint(1, nk) if op in (LOAD, SET, DEL, SETY) else 0,
                        rng.randint(2, 9) if op in (SET, SETY) else 0])
        mode = rng.choice([0, 1, 2])
        cases.append(
            {
                "in": [mode, rng.choice([0, 0, 0, 1, 2]) if mode < 2 else 0, [rng.choice([0, 0, 1]) for _ in range(ns)],
                       [[k, 0, 0, 1] for k in range(1, nk + 1)], ops],
                "kind": "random",
            }
        )
    # --- directed: one session goes stale on one of several rows, every dialect setting and mode
    for dial in (0, 1, 2):
        for mode in (0, 1, 2):
            for victim in ("d1 d2 C", "s1 s2 C", "s1 d2 C", "d1 d2 d3 F C", "d2 C", "s2 C", "s1 s2 F l1 C",
                           "s1 t2 C", "t1 s2 C", "s1 t2 s3 C", "s1 t1 t2 C", "t1 t2 s3 t3 F C"):
                for other in (("s1 C", "d1 C", "s2 C", "d2 F C", "s1 s2 C") if thorough else ("s1 C", "d2 F C", "s1 s2 C")):
                    for eoc in ((0, 1) if thorough else (0,)):
                        la, lb = len(victim.split()), len(other.split())
                        order = [1] * lb + [0] * la
                        cases.append(_case(rng, [victim, other], order, True, 3, mode, dial, [eoc, 0], "dialect"))
    return cases


def nontrivial(c):
    ops = c["in"][4]
    touch = {}
    for i, op, k, _ in ops:
        if op in (SET, SETY, DEL):
            touch.setdefault(k, set()).add(i)
    return any(len(v) > 1 for v in touch.values()) and any(op == COMMIT for _, op, _, _ in ops)


# ---------------- implementation side ----------------
_st = {}
_extra = {}


def impl_setup():
    import atexit
    import os
    import shutil
    import sqlite3
    import tempfile

    from sqlalchemy import Column, ForeignKey, Integer, String, create_engine, event, text
    from sqlalchemy.orm import declarative_base

    d = tempfile.mkdtemp(prefix="c44_")
    atexit.register(shutil.rmtree, d, True)
    path = os.path.join(d, "v.db")
    obs = sqlite3.connect(path, isolation_level=None)
    obs.execute("pragma journal_mode=WAL")
    obs.execute("create table a (id integer primary key, x integer, y integer, v integer not null default 1)")
    obs.execute("create table root (id integer primary key, v integer not null, kind varchar(10))")
    obs.execute("create table mid (id integer primary key references root(id), x integer)")
    obs.execute("create table leaf (id integer primary key references mid(id), y integer)")
    B0 = declarative_base()

    class A0(B0):
        __tablename__ = "a"
        id = Column(Integer, primary_key=True)
        x = Column(Integer)
        y = Column(Integer)
        v = Column(Integer, nullable=False)
        __mapper_args__ = {"version_id_col": v}

    B1 = declarative_base()

    class A1(B1):
        __tablename__ = "a"
        id = Column(Integer, primary_key=True)
        x = Column(Integer)
        y = Column(Integer)
        v = Column(Integer, nullable=False, server_default=text("1"), onupdate=text("v + 1"))
        __mapper_args__ = {"version_id_col": v, "version_id_generator": False}

    B2 = declarative_base()

    # three-level joined-table inheritance: version in the root table, x in the intermediate, y in the leaf table
    class Root(B2):
        __tablename__ = "root"
        id = Column(Integer, primary_key=True)
        v = Column(Integer, nullable=False)
        kind = Column(String(10))
        __mapper_args__ = {"version_id_col": v, "polymorphic_on": kind, "polymorphic_identity": "root"}

    class Mid(Root):
        __tablename__ = "mid"
        id = Column(Integer, ForeignKey("root.id"), primary_key=True)
        x = Column(Integer)
        __mapper_args__ = {"polymorphic_identity": "mid"}

    class Leaf(Mid):
        __tablename__ = "leaf"
        id = Column(Integer, ForeignKey("mid.id"), primary_key=True)
        y = Column(Integer)
        __mapper_args__ = {"polymorphic_identity": "leaf"}

    log = []

    def mk(dial):
        e = create_engine("sqlite:///" + path, connect_args={"autocommit": False, "timeout": 0})
        e.dialect.supports_sane_rowcount = dial < 2
        e.dialect.supports_sane_multi_rowcount = dial < 1

        @event.listens_for(e, "before_cursor_execute")
        def b(conn, cur, st, params, ctx, many):
            cps = ctx.compiled_parameters if ctx is not None and ctx.compiled is not None else []
            ws = st.split()
            w = ws[0].upper()
            if w == "SELECT":
                log.append([1, _st["selkey"]])
            elif w == "UPDATE":
                cp = cps[0]
                if ws[1] == "a":
                    log.append([2, cp.get("a_id"), cp.get("x"), cp.get("y"), cp.get("v"), cp.get("a_v")])
                elif ws[1] == "root":
                    log.append([2, cp.get("root_id"), None, None, cp.get("v"), cp.get("root_v")])
            elif w == "DELETE":
                if ws[2] in ("a", "root"):
                    log.append([3, [[cp.get("id"), cp.get("v")] for cp in cps]])
            else:
                log.append([9, 0])

        return e

    _st.update(obs=obs, cls=[A0, A1, Leaf], eng=[mk(0), mk(1), mk(2)], log=log, dir=d, selkey=0)


def _db_rows(mode):
    q = "select id,x,y,v from a order by id" if mode < 2 else (
        "select root.id, mid.x, leaf.y, root.v from root join mid on mid.id=root.id join leaf on leaf.id=root.id order by root.id")
    return [list(r) for r in _st["obs"].execute(q)]


def impl(c):
    import warnings

    from sqlalchemy import inspect
    from sqlalchemy.exc import OperationalError
    from sqlalchemy.orm import Session
    from sqlalchemy.orm.exc import StaleDataError

    if not _st:
        impl_setup()
    mode, dial, eocs, rows0, ops = c["in"]
    obs = _st["obs"]
    for t in ("a", "leaf", "mid", "root"):
        obs.execute("delete from " + t)
    for k, x, y, v in rows0:
        if mode < 2:
            obs.execute("insert into a (id,x,y,v) values (?,?,?,?)", (k, x, y, v))
        else:
            obs.execute("insert into root (id,v,kind) values (?,?,'leaf')", (k, v))
            obs.execute("insert into mid (id,x) values (?,?)", (k, x))
            obs.execute("insert into leaf (id,y) values (?,?)", (k, y))
    A = _st["cls"][mode]
    e = _st["eng"][dial]
    log = _st["log"]
    S = [Session(e, expire_on_commit=bool(f), autoflush=False) for f in eocs]
    keep = [dict() for _ in S]  # strong references: the identity map is weak
    out = []
    extra = []
    try:
        with warnings.catch_warnings():
            warnings.simplefilter("ignore")
            for i, op, k, val in ops:
                s = S[i]
                del log[:]
                ex = None
                _st["selkey"] = k
                if op in (LOAD, SET, SETY, DEL):
                    o = s.get(A, k)
                    if o is None:
                        keep[i].pop(k, None)
                        res = [0]
                    else:
                        keep[i][k] = o
                        if op == SET:
                            o.x = val
                        elif op == SETY:
                            o.y = val
                        elif op == DEL:
                            s.delete(o)
                        d = inspect(o).dict
                        res = [1, d["x"], d["y"], d["v"]]
                elif op in (FLUSH, COMMIT):
                    # what the session is about to write, and from which loaded version (for the oracle only)
                    held = []
                    for o in s.deleted:
                        d = inspect(o).dict
                        held.append([d["id"], d["v"], "d", None, None, o])
                    for o in s.dirty:
                        if o not in s.deleted and s.is_modified(o):
                            d = inspect(o).dict
                            held.append([d["id"], d["v"], "u", d["x"], d["y"], o])
                    try:
                        if op == FLUSH:
                            s.flush()
                        else:
                            s.commit()
                        res = [0]
                    except StaleDataError:
                        s.rollback()
                        res = [1]
                    except OperationalError as err:
                        if "locked" not in str(err):
                            raise
                        s.rollback()
                        res = [2]
                    ex = [h[:5] + [inspect(h[5]).dict.get("v") if h[2] == "u" else None] for h in held]
                else:
                    s.rollback()
                    res = [0]
                st = []
                for x in log:
                    # get() of an expired instance whose row is gone issues the refresh SELECT and then the by-pk
                    # SELECT; both return no row: observed as one
                    if x[0] == 1 and st and st[-1] == x:
                        continue
                    st.append(list(x))
                out.append([res, st, _db_rows(mode)])
                extra.append(ex)
    finally:
        for s in S:
            s.close()
    _extra["last"] = (c["in"], extra)
    return out


# ---------------- the property, stated on the implementation's observation ----------------
def oracle(c, obs):
    mode, dial, eocs, rows0, ops = c["in"]
    last = _extra.get("last")
    if last is None or last[0] != c["in"]:
        return None
    extra = last[1]
    com = {k: ((x, y), v) for k, x, y, v in rows0}
    writer = None  # (session, rows of its open write transaction)
    for n, ((i, op, k, val), (res, st, rows)) in enumerate(zip(ops, obs)):
        after = {r[0]: ((r[1], r[2]), r[3]) for r in rows}
        # versions of committed rows never go backwards; a changed row has a larger version
        for kk, (x1, v1) in after.items():
            if kk not in com:
                return "op %d: row %d re-appeared" % (n, kk)
            x0, v0 = com[kk]
            if v1 < v0 or (v1 == v0 and x1 != x0):
                return "op %d: row %d changed from (data=%s, v=%s) to (data=%s, v=%s) without a version increase" % (n, kk, x0, v0, x1, v1)
        if op not in (FLUSH, COMMIT):
            if after != com:
                return "op %d: a non-commit operation changed the committed rows" % n
            if op == ROLLBACK and writer and writer[0] == i:
                writer = None
            continue
        held = extra[n] or []
        cur = writer[1] if writer and writer[0] == i else com
        stale = [h for h in held if h[0] not in cur or cur[h[0]][1] != h[1]]
        if res != [0]:
            if after != com:
                return "op %d: a failed flush/commit changed the committed rows" % n
            if writer and writer[0] == i:
                writer = None
            continue
        if dial < 2 and stale:
            nd = sum(1 for h in held if h[2] == "d")
            tag = " [DELETE of %d objects in one flush, supports_sane_multi_rowcount=False]" % nd if dial == 1 and nd > 1 and all(h[2] == "d" for h in stale) else ""
            return "op %d: flush/commit succeeded although session %d held version %s of row %d and the current row is %s%s" % (
                n, i, stale[0][1], stale[0][0], cur.get(stale[0][0]), tag)
        work = dict(cur)
        for kk, v, kind, newx, newy, newv in held:
            if kk not in work or work[kk][1] != v:
                continue  # dialect without sane rowcount: the statement matched nothing
            if kind == "d":
                del work[kk]
            else:
                if newv is None:
                    newv = after.get(kk, (None, None))[1]
                if newv is None or not newv > v:
                    return "op %d: successful UPDATE of row %d did not increase the version (%s -> %s)" % (n, kk, v, newv)
                work[kk] = ((newx, newy), newv)
        if held:
            writer = (i, work)
        if op == FLUSH:
            if after != com:
                return "op %d: flush changed the committed rows" % n
        else:
            expect = writer[1] if writer and writer[0] == i else com
            if after != expect:
                return "op %d: committed rows %s differ from the serial model %s (an update was lost or invented)" % (n, after, expect)
            if writer and writer[0] == i:
                writer = None
        com = after
    return None


def match_finding(c, what):
    if "supports_sane_multi_rowcount=False" in what and c["in"][1] == 1:
        return "C44-multi-delete-stale-unchecked"
    return None
