"""C45 - Session.merge copies state onto the session's single instance."""

ID = "C45"
LEVEL = "proof"
PROPS = "props/C45.v"
RUNNER = ("SAV.orm.MergeRun", "run_case")
STATIC_MODULES = ["SAV.orm.MergeRun"]
RULE = (
    "mapping A(id,x,y,bs) / B(id,aid,v[,a]) built per configuration (merge in A.bs cascade y/n, backref B.a y/n, "
    "merge in B.a cascade y/n); the database holds generated rows; source graphs = one A with 0-3 B children, "
    "each object detached (make_transient_to_detached, so any subset of attributes is loaded) or transient "
    "(primary key set or not), children optionally pointing back to their parent, duplicate child keys and the "
    "same child object twice included; a real Session(autoflush=False) is prepared by get / collection load / "
    "attribute set operations and then merges the source once or several times with load=True or load=False. "
    "Observed after every merge: the returned instance, the number of statements sent to SQLite, and for EVERY "
    "instance of the session (identity map + session.new) its state, column values in __dict__, collection / "
    "parent in __dict__, membership in session.dirty and Session.is_modified. kind sweep: structured product "
    "of root kind x loaded attributes x children x prepared session x load flag x configuration (quick: a "
    "seeded sample, thorough: all); kind random: random databases, sources and preparations. non-trivial = "
    "the source has an unloaded attribute, a child, or the session already holds the instance"
)
TRUSTED = [
    "hand-written Gallina transcription (coq/orm/Merge.v) of Session._merge, ColumnProperty.merge, "
    "RelationshipProperty.merge and the attribute events they fire, pinned to the normalised source and "
    "compared behaviourally on real SQLite",
]
ASSUMPTIONS = [
    "source graphs are an A with its B children (child.a unloaded, None or the owning A); a child belongs to one A",
    "no version_id_col, no composite keys, autoflush off, no flush between merges, no expired instances",
    "a merge that raises (load=False with a transient source) ends the history",
]
ANCHORS = [
    ("lib/sqlalchemy/orm/session.py", "Session.merge"),
    ("lib/sqlalchemy/orm/session.py", "Session._merge"),
    ("lib/sqlalchemy/orm/properties.py", "ColumnProperty.merge"),
    ("lib/sqlalchemy/orm/relationships.py", "RelationshipProperty.merge"),
    ("lib/sqlalchemy/orm/attributes.py", "_ScalarAttributeImpl.set"),
    ("lib/sqlalchemy/orm/attributes.py", "_ScalarObjectAttributeImpl.set"),
    ("lib/sqlalchemy/orm/attributes.py", "_CollectionAttributeImpl.set"),
    ("lib/sqlalchemy/orm/attributes.py", "_backref_listeners"),
    ("lib/sqlalchemy/orm/collections.py", "bulk_replace"),
    ("lib/sqlalchemy/orm/state.py", "InstanceState._commit_all"),
    ("lib/sqlalchemy/orm/state.py", "InstanceState._commit_all_states"),
    ("lib/sqlalchemy/orm/state.py", "InstanceState._modified_event"),
]

U = "U"
NOV = "NOV"
NORES = "NORES"


def translate(repo, outdir):
    from translate import fingerprint

    fingerprint.check(repo, ANCHORS, "C45")
    return []


# ---------------------------------------------------------------------------------------------
# reference model in Python (mirror of coq/orm/Merge.v): used to generate supported histories and
# by nothing else; the comparison is model(Coq) vs implementation
# ---------------------------------------------------------------------------------------------
class Err(Exception):
    pass


class Unsupported(Exception):
    pass


class T:
    def __init__(self, cls):
        self.cls = cls
        self.key = None
        self.pending = False
        self.cols = {}
        self.comm = {}
        self.bs = U
        self.a = U
        self.modified = False


class M:
    def __init__(self, cfg, db):
        self.mf, self.hb, self.mb = cfg
        self.rowsA = {pk: (x, y) for pk, x, y in db[0]}
        self.rowsB = {pk: (aid, v) for pk, aid, v in db[1]}
        self.idA = {}
        self.idB = {}
        self.pendings = []
        self.sql = 0

    def load_A(self, pk):
        x, y = self.rowsA[pk]
        t = T("A")
        t.key = pk
        t.cols = {"id": pk, "x": x, "y": y}
        self.idA[pk] = t
        return t

    def load_B(self, pk):
        if pk in self.idB:
            return self.idB[pk]
        aid, v = self.rowsB[pk]
        t = T("B")
        t.key = pk
        t.cols = {"id": pk, "aid": aid, "v": v}
        self.idB[pk] = t
        return t

    def get(self, cls, pk):
        idm = self.idA if cls == "A" else self.idB
        if pk in idm:
            return idm[pk]
        self.sql += 1
        rows = self.rowsA if cls == "A" else self.rowsB
        if pk not in rows:
            return None
        return self.load_A(pk) if cls == "A" else self.load_B(pk)

    def lazy_bs(self, t):
        if t.bs is not U:
            return
        if t.key is None:
            t.bs = []
            return
        self.sql += 1
        t.bs = [self.load_B(pk) for pk in sorted(self.rowsB) if self.rowsB[pk][0] == t.key]

    def set_col(self, t, k, v):
        old = t.cols.get(k, NOV)
        if k not in t.comm:
            t.comm[k] = old
        t.modified = True
        t.cols[k] = v

    def cur_parent(self, c):
        if c.a is not U:
            return c.a
        if c.key is None:
            return NOV
        if "aid" in c.cols:
            if c.cols["aid"] is None:
                return None
            if c.cols["aid"] in self.idA:
                return self.idA[c.cols["aid"]]
        return NORES

    def set_parent(self, c, newp, remove_from_old, check_old=None):
        old = self.cur_parent(c)
        if check_old is not None and old is not NORES and old is not check_old:
            return
        if old is not newp:
            if remove_from_old and old is not NOV and old is not NORES and old is not None:
                if old.bs is not U and any(c is x for x in old.bs):
                    if "bs" not in old.comm:
                        old.comm["bs"] = list(old.bs)
                    old.modified = True
                    old.bs.remove(c)
                elif old.bs is U:
                    raise Unsupported()
        if "a" not in c.comm:
            c.comm["a"] = old
        c.modified = True
        c.a = newp

    def coll_set(self, t, new):
        old = list(t.bs)
        if "bs" not in t.comm:
            t.comm["bs"] = list(old)
        t.modified = True
        t.bs = []
        constants = [c for c in old if any(c is n for n in new)]
        for m in new:
            if not any(m is c for c in constants) and self.hb:
                self.set_parent(m, t, True)
            t.bs.append(m)
        for m in old:
            if not any(m is c for c in constants) and self.hb:
                self.set_parent(m, None, False, check_old=t)

    def commit_all(self, t):
        t.comm = {}
        t.modified = False

    def merge_B(self, j, rec, load, root_t, memo, cmap):
        kind, pk, v, a = rec
        if j in memo:
            return memo[j]
        if kind == 0 and not load:
            raise Err()
        merged = self.idB.get(pk) if pk is not None else None
        if merged is None and pk is not None:
            if pk in cmap:
                merged = cmap[pk]
            elif not load:
                merged = T("B")
                merged.key = pk
                self.idB[pk] = merged
            else:
                merged = self.get("B", pk)
        if merged is None:
            merged = T("B")
            merged.pending = True
            self.pendings.append(merged)
        memo[j] = merged
        if pk is not None:
            cmap[pk] = merged
        t = merged
        if pk is not None:
            if load:
                self.set_col(t, "id", pk)
            else:
                t.cols["id"] = pk
        if v != U:
            if load:
                self.set_col(t, "v", v)
            else:
                t.cols["v"] = v
        if self.hb and self.mb and not load and a != U:
            t.a = None if a is None else root_t
        if not load:
            self.commit_all(t)
        return t

    def merge_A(self, srcA, srcBs, load):
        kind, pk, x, y, bs = srcA
        if kind == 0 and not load:
            raise Err()
        merged = self.idA.get(pk) if pk is not None else None
        if merged is None and pk is not None:
            if not load:
                merged = T("A")
                merged.key = pk
                self.idA[pk] = merged
            else:
                merged = self.get("A", pk)
        if merged is None:
            merged = T("A")
            merged.pending = True
            self.pendings.append(merged)
        t = merged
        for k, val in (("id", pk if pk is not None else U), ("x", x), ("y", y)):
            if val != U:
                if load:
                    self.set_col(t, k, val)
                else:
                    t.cols[k] = val
        if self.mf and bs != U:
            if load:
                self.lazy_bs(t)
            memo, cmap = {}, {}
            dest = [self.merge_B(j, srcBs[j], load, t, memo, cmap) for j in bs]
            if load:
                self.coll_set(t, dest)
            else:
                t.bs = list(dest)
        if not load:
            self.commit_all(t)
        return t


def _mirror_valid(sc):
    """run the mirror; returns the history cut after a raising merge, or None if an unmodelled path is reached"""
    cfg, db, srcA, srcB, ops = sc
    m = M(cfg, db)
    out = []
    try:
        for op in ops:
            code = op[0]
            out.append(op)
            if code == 0:
                m.get("A", op[1])
            elif code == 1:
                m.get("B", op[1])
            elif code == 2:
                t = m.get("A", op[1])
                if t is not None:
                    m.lazy_bs(t)
            elif code == 3:
                t = m.get("A", op[1])
                if t is not None:
                    m.set_col(t, "x", op[2])
            elif code == 4:
                t = m.get("B", op[1])
                if t is not None:
                    m.set_col(t, "v", op[2])
            else:
                try:
                    m.merge_A(srcA[op[1]], srcB, bool(op[2]))
                except Err:
                    break
    except Unsupported:
        return None
    return [cfg, db, srcA, srcB, out]


# ---------------------------------------------------------------------------------------------
# packed exchange format (see coq/orm/MergeRun.v)
# ---------------------------------------------------------------------------------------------
def _ev(v):
    return 0 if v is None else v + 1


def _ea(v):
    return 0 if v == U else 1 if v is None else v + 2


def _pack(base, vals):
    acc = 0
    for v in reversed(vals):
        acc = v + base * acc
    return acc


def _pack_case(sc):
    cfg, db, srcA, srcB, ops = sc
    c = cfg[0] + 2 * cfg[1] + 4 * cfg[2]
    ra = [pk + 8 * (_ev(x) + 256 * _ev(y)) for pk, x, y in db[0]]
    rb = [pk + 8 * (_ev(aid) + 8 * _ev(v)) for pk, aid, v in sorted(db[1])]
    sb = [kind + 2 * (_ev(pk) + 8 * (_ea(v) + 512 * (0 if a == U else 1 if a is None else 2))) for kind, pk, v, a in srcB]
    sa = []
    for kind, pk, x, y, bs in srcA:
        rest = 0 if bs == U else 1 + 2 * (len(bs) + 8 * _pack(8, bs))
        sa.append(kind + 2 * (_ev(pk) + 8 * (_ea(x) + 512 * (_ea(y) + 512 * rest))))
    po = []
    for op in ops:
        if op[0] in (0, 1, 2):
            po.append(op[0] + 8 * op[1])
        elif op[0] in (3, 4):
            po.append(op[0] + 8 * (op[1] + 8 * _ev(op[2])))
        else:
            po.append(5 + 8 * (op[1] + 8 * op[2]))
    return [c, ra, rb, sa, sb, po]


def _dv(z):
    return None if z == 0 else z - 1


def _da(z):
    return U if z == 0 else None if z == 1 else z - 2


def _unpack_case(t):
    c, ra, rb, sa, sb, po = t
    cfg = [c & 1, c >> 1 & 1, c >> 2 & 1]
    dbA = [[z % 8, _dv(z // 8 % 256), _dv(z // 2048 % 256)] for z in ra]
    dbB = [[z % 8, _dv(z // 8 % 8), _dv(z // 64 % 256)] for z in rb]
    srcB = [[z % 2, _dv(z // 2 % 8), _da(z // 16 % 512), [U, None, "P"][z // 8192 % 4]] for z in sb]
    srcA = []
    for z in sa:
        rest = z // 4194304
        bs = U
        if rest % 2:
            n = rest // 2 % 8
            bs = [(rest // 16 >> (3 * i)) & 7 for i in range(n)]
        srcA.append([z % 2, _dv(z // 2 % 8), _da(z // 16 % 512), _da(z // 8192 % 512), bs])
    ops = []
    for z in po:
        code, a, b = z % 8, z // 8 % 8, z // 64
        if code in (0, 1, 2):
            ops.append([code, a])
        elif code in (3, 4):
            ops.append([code, a, _dv(b)])
        else:
            ops.append([5, a, b % 2])
    return [cfg, [dbA, dbB], srcA, srcB, ops]


# ---------------------------------------------------------------------------------------------
# case generation
# ---------------------------------------------------------------------------------------------
_CFGS = [[0, 0, 0], [1, 0, 0], [0, 1, 0], [0, 1, 1], [1, 1, 0], [1, 1, 1]]
_DB = [[[1, 10, 20], [2, 11, 21]], [[1, 1, 100], [2, 1, 101], [3, 2, 102]]]


def _sweep():
    roots = [[1, 1], [1, 4], [0, 1], [0, 4], [0, None]]
    xy = [[U, U], [15, U], [U, 25], [15, 25]]
    kids = [
        (U, []),
        ([], []),
        ([0], [[1, 1, 105, "P"]]),
        ([0, 1], [[1, 1, U, U], [1, 3, 106, "P"]]),
        ([0, 1], [[1, 2, 107, None], [0, 5, 108, "P"]]),
        ([0, 1], [[0, 5, 108, U], [0, 5, 109, U]]),
        ([0, 0], [[1, 2, U, "P"]]),
        ([0], [[0, None, 110, "P"]]),
    ]
    pre = [[], [[0, 1]], [[0, 1], [2, 1]], [[0, 1], [3, 1, 90]], [[1, 3], [0, 2], [2, 2]], [[0, 1], [2, 1], [4, 2, 190]]]
    for cfg in _CFGS:
        for load in (1, 0):
            for kind, pk in roots:
                for x, y in xy:
                    for bs, sb in kids:
                        for p in pre:
                            yield [cfg, _DB, [[kind, pk, x, y, bs]], sb, p + [[5, 0, load], [5, 0, load]]]


def _random_case(rng):
    cfg = rng.choice(_CFGS)
    na = rng.choice([1, 2, 2])
    dbA = [[pk, rng.randint(10, 12), rng.randint(20, 22)] for pk in sorted(rng.sample([1, 2, 3], na))]
    dbB = [
        [pk, rng.choice([r[0] for r in dbA] + [None]), rng.randint(100, 102)]
        for pk in sorted(rng.sample([1, 2, 3, 4], rng.randint(0, 4)))
    ]
    srcB = []
    for j in range(rng.randint(0, 3)):
        kind = rng.choice([0, 1, 1])
        pk = rng.choice([1, 2, 3, 4, 5]) if kind == 1 or rng.random() < 0.7 else None
        srcB.append([kind, pk, rng.choice([U, None, rng.randint(100, 103)]), rng.choice([U, U, "P", None])])
    srcA = []
    for i in range(rng.choice([1, 1, 2])):
        kind = rng.choice([0, 1, 1])
        pk = rng.choice([1, 2, 3, 4]) if kind == 1 or rng.random() < 0.7 else None
        free = [j for j in range(len(srcB)) if not any(a[4] != U and j in a[4] for a in srcA)]
        bs = U if rng.random() < 0.3 else rng.sample(free, rng.randint(0, len(free)))
        if bs != U and bs and rng.random() < 0.1:
            bs = bs + [bs[0]]
        srcA.append([kind, pk, rng.choice([U, None, rng.randint(10, 13)]), rng.choice([U, rng.randint(20, 23)]), bs])
    ops = []
    for _ in range(rng.randint(0, 3)):
        c = rng.choice([0, 1, 2, 3, 4])
        if c in (0, 2):
            ops.append([c, rng.choice([1, 2, 3])])
        elif c == 1:
            ops.append([c, rng.choice([1, 2, 3, 4])])
        elif c == 3:
            ops.append([c, rng.choice([1, 2, 3]), rng.randint(90, 92)])
        else:
            ops.append([c, rng.choice([1, 2, 3, 4]), rng.randint(190, 192)])
    load = int(rng.random() < 0.7)
    i = rng.randrange(len(srcA))
    ops.append([5, i, load])
    if rng.random() < 0.7:
        ops.append([5, i, load if rng.random() < 0.8 else 1 - load])
    if len(srcA) > 1 and rng.random() < 0.4:
        ops.append([5, 1 - i, load])
    return [cfg, [dbA, dbB], srcA, srcB, ops]


def gen_cases(rng, tier):
    cases = []
    sweep = list(_sweep())
    if tier != "thorough":
        sweep = rng.sample(sweep, 1000)
    for sc in sweep:
        v = _mirror_valid(sc)
        if v is not None:
            cases.append({"in": _pack_case(v), "kind": "sweep"})
    n = 20000 if tier == "thorough" else 1100
    while n > 0:
        v = _mirror_valid(_random_case(rng))
        if v is not None:
            cases.append({"in": _pack_case(v), "kind": "random"})
            n -= 1
    return cases


def nontrivial(c):
    cfg, db, srcA, srcB, ops = _unpack_case(c["in"])
    for op in ops:
        if op[0] == 5:
            a = srcA[op[1]]
            if a[2] == U or a[3] == U or (a[4] != U and a[4]) or any(o[0] in (0, 2, 3) and o[1] == a[1] for o in ops):
                return True
    return False


# ---------------------------------------------------------------------------------------------
# implementation side
# ---------------------------------------------------------------------------------------------
_cache = {}
_trace = {}


def _build(cfg):
    import warnings

    key = tuple(cfg)
    if key in _cache:
        return _cache[key]
    from sqlalchemy import Column, ForeignKey, Integer, create_engine, event
    from sqlalchemy.orm import configure_mappers, declarative_base, relationship
    from sqlalchemy.pool import StaticPool

    mf, hb, mb = cfg
    Base = declarative_base()
    with warnings.catch_warnings():
        warnings.simplefilter("ignore")
        nsA = {
            "__tablename__": "a",
            "id": Column(Integer, primary_key=True),
            "x": Column(Integer),
            "y": Column(Integer),
            "bs": relationship(
                "B", order_by="B.id", cascade="save-update, merge" if mf else "save-update", back_populates="a" if hb else None
            ),
        }
        A = type("A", (Base,), nsA)
        nsB = {
            "__tablename__": "b",
            "id": Column(Integer, primary_key=True),
            "aid": Column(ForeignKey("a.id")),
            "v": Column(Integer),
        }
        if hb:
            nsB["a"] = relationship("A", back_populates="bs", cascade="save-update, merge" if mb else "save-update")
        B = type("B", (Base,), nsB)
        configure_mappers()
    eng = create_engine("sqlite://", connect_args={"autocommit": False}, poolclass=StaticPool)
    Base.metadata.create_all(eng)
    cnt = [0]
    event.listen(eng, "before_cursor_execute", lambda *a: cnt.__setitem__(0, cnt[0] + 1))
    _cache[key] = (eng, A, B, cnt)
    return _cache[key]


def impl(c):
    import warnings
    from sqlalchemy import exc as sa_exc
    from sqlalchemy import inspect, text
    from sqlalchemy.orm import Session, make_transient_to_detached
    from sqlalchemy.orm.attributes import set_committed_value

    cfg, db, srcA, srcB, ops = _unpack_case(c["in"])
    eng, A, B, cnt = _build(cfg)
    mf, hb, mb = cfg
    out = []
    trace = []
    with warnings.catch_warnings():
        warnings.simplefilter("ignore")
        with eng.begin() as conn:
            conn.execute(text("delete from b"))
            conn.execute(text("delete from a"))
            for pk, x, y in db[0]:
                conn.execute(text("insert into a values (:p,:x,:y)"), dict(p=pk, x=x, y=y))
            for pk, aid, v in db[1]:
                conn.execute(text("insert into b values (:p,:a,:v)"), dict(p=pk, a=aid, v=v))
        sa, sb = [], []
        for kind, pk, v, a in srcB:
            o = B()
            if pk is not None:
                o.id = pk
            if v != U:
                o.v = v
            sb.append(o)
        for kind, pk, x, y, bs in srcA:
            o = A()
            if pk is not None:
                o.id = pk
            if x != U:
                o.x = x
            if y != U:
                o.y = y
            sa.append(o)
        for i, (o, rec) in enumerate(zip(sa, srcA)):
            if rec[4] != U:
                set_committed_value(o, "bs", [sb[j] for j in rec[4]])
                if hb:
                    for j in rec[4]:
                        if srcB[j][3] == "P":
                            set_committed_value(sb[j], "a", o)
        if hb:
            for o, rec in zip(sb, srcB):
                if rec[3] is None:
                    set_committed_value(o, "a", None)
        for o, rec in list(zip(sa, srcA)) + list(zip(sb, srcB)):
            if rec[0] == 1:
                make_transient_to_detached(o)
        s = Session(eng, autoflush=False, expire_on_commit=False)
        keep = []

        def name(o):
            st = inspect(o)
            if st.key is not None:
                return (0 if isinstance(o, A) else 8) + st.key[1][0]
            new = [id(x) for x in s.new]
            return 16 + new.index(id(o)) if id(o) in new else 31

        def desc(o):
            st = inspect(o)
            d = st.dict
            stt = 1 if st.pending else 2 if st.persistent else 0
            isA = isinstance(o, A)
            rec = {
                "cls": "A" if isA else "B",
                "name": name(o),
                "stt": stt,
                "id": d.get("id", U),
                "c1": d.get("x" if isA else "v", U),
                "c2": d.get("y" if isA else "aid", U),
                "bs": ([name(x) for x in d["bs"]] if "bs" in d else U) if isA else U,
                "a": U if isA or not hb or "a" not in d else (None if d["a"] is None else name(d["a"])),
                "dirty": int(o in s.dirty),
                "mod": int(s.is_modified(o)) if stt in (1, 2) else 0,
            }
            return rec

        def enc(r):
            i1 = r["name"] + 32 * (
                r["stt"] + 4 * (_ea(r["id"]) + 256 * (_ea(r["c1"]) + 256 * (_ea(r["c2"]) + 256 * (r["dirty"] + 2 * r["mod"]))))
            )
            i2 = 0 if r["bs"] == U else 1 + 2 * (len(r["bs"]) + 8 * _pack(32, r["bs"]))
            i3 = 0 if r["a"] == U else 1 if r["a"] is None else 2 + r["a"]
            return [i1, i2, i3]

        def snapshot():
            objs = list(s.identity_map.values())
            keep.extend(objs)
            pa = sorted((o for o in objs if isinstance(o, A)), key=lambda o: inspect(o).key[1][0])
            pb = sorted((o for o in objs if isinstance(o, B)), key=lambda o: inspect(o).key[1][0])
            return [desc(o) for o in pa + pb + list(s.new)]

        dead = False
        try:
            trace.append(("init", None, snapshot(), 0))
            for op in ops:
                code = op[0]
                if dead:
                    out.append([-9])
                    continue
                if code == 0 or code == 1:
                    o = s.get(A if code == 0 else B, op[1])
                    keep.append(o)
                    out.append([-1 if o is None else name(o)])
                elif code == 2:
                    o = s.get(A, op[1])
                    keep.append(o)
                    if o is None:
                        out.append([-1])
                    else:
                        keep.extend(o.bs)
                        out.append([name(x) for x in o.bs])
                elif code in (3, 4):
                    o = s.get(A if code == 3 else B, op[1])
                    keep.append(o)
                    if o is not None:
                        setattr(o, "x" if code == 3 else "v", op[2])
                    out.append([0])
                else:
                    n0 = cnt[0]
                    try:
                        m = s.merge(sa[op[1]], load=bool(op[2]))
                    except sa_exc.InvalidRequestError:
                        out.append([-5])
                        trace.append((op, "ERR", None, 0))
                        dead = True
                        continue
                    keep.append(m)
                    sql = cnt[0] - n0
                    snap = snapshot()
                    rec = [name(m), sql]
                    for r in snap:
                        rec += enc(r)
                    out.append(rec)
                    trace.append((op, name(m), snap, sql, int(m is sa[op[1]])))
                    continue
                trace.append((op, None, snapshot(), 0))
        finally:
            s.rollback()
            s.close()
    _trace.clear()
    _trace["case"] = repr(c["in"])
    _trace["steps"] = trace
    return out


# ---------------------------------------------------------------------------------------------
# the property itself on the implementation observation
# ---------------------------------------------------------------------------------------------
def _by_name(snap):
    return {r["name"]: r for r in snap}


def oracle(c, obs):
    if _trace.get("case") != repr(c["in"]):
        return None
    cfg, db, srcA, srcB, ops = _unpack_case(c["in"])
    mf, hb, mb = cfg
    rowsA = {pk: (x, y) for pk, x, y in db[0]}
    rowsB = {pk: (aid, v) for pk, aid, v in db[1]}
    steps = _trace["steps"]
    for k in range(1, len(steps)):
        op = steps[k][0]
        if op[0] != 5 or steps[k][1] == "ERR":
            continue
        _, ret, snap, sql, is_src = steps[k]
        before = steps[k - 1][2]
        if before is None:
            continue
        kind, pk, x, y, bs = srcA[op[1]]
        load = op[2]
        bn, an = _by_name(before), _by_name(snap)
        if is_src:
            return "merge returned the source object itself"
        r = an.get(ret)
        if r is None:
            return "the returned instance is not in the session"
        # --- identity
        existed = pk is not None and pk in bn and bn[pk]["cls"] == "A"
        if pk is not None and (existed or not load or pk in rowsA):
            if ret != pk or r["stt"] != 2:
                return "merge did not return the persistent instance of identity A(%s)" % pk
        # --- values: loaded source attributes are copied, unloaded ones leave the target untouched
        base = bn[pk] if existed else None
        for key, sv, col in (("c1", x, 0), ("c2", y, 1)):
            if sv != U:
                want = sv
            elif base is not None:
                want = base[key]
            elif load and pk in rowsA:
                want = rowsA[pk][col]
            else:
                want = U
            if r[key] != want:
                return "A.%s of the merged instance is %s, expected %s" % ("xy"[col], r[key], want)
        # --- load=True: a copied value that differs from what the instance held is flagged as a change
        if load and r["stt"] == 2 and (existed or pk in rowsA):
            prev = (base["c1"], base["c2"]) if base is not None else rowsA[pk]
            changed = any(sv != U and pv != U and sv != pv for sv, pv in ((x, prev[0]), (y, prev[1])))
            if changed and not r["dirty"]:
                return "merge(load=True) changed a column of A(%s) without flagging the instance as modified" % pk
        # --- children (only when their keys are pairwise distinct: otherwise the last writer wins)
        if mf and bs != U:
            keys = [srcB[j][1] for j in bs]
            if r["bs"] == U or len(r["bs"]) != len(bs):
                return "merged collection %s does not correspond to the source collection of %d members" % (r["bs"], len(bs))
            if len(set(keys)) == len(keys) and None not in keys:
                for j, tn in zip(bs, r["bs"]):
                    ck, cpk, cv, ca = srcB[j]
                    t = an.get(tn)
                    if t is None or t["cls"] != "B":
                        return "collection member %s is not a B instance of the session" % tn
                    cex = (8 + cpk) in bn
                    if cex or not load or cpk in rowsB:
                        if tn != 8 + cpk:
                            return "child B(%s) was not merged onto its persistent instance" % cpk
                    if cv != U:
                        wantv = cv
                    elif cex:
                        wantv = bn[8 + cpk]["c1"]
                    elif load and cpk in rowsB:
                        wantv = rowsB[cpk][1]
                    else:
                        wantv = U
                    if t["c1"] != wantv:
                        return "B(%s).v of the merged child is %s, expected %s" % (cpk, t["c1"], wantv)
        # --- load=False: no SQL, nothing flagged
        if not load:
            if sql != 0:
                return "merge(load=False) emitted %d statements" % sql
            touched = [ret] + ([x_ for x_ in r["bs"]] if (mf and bs != U and r["bs"] != U) else [])
            for tn in touched:
                if an[tn]["dirty"] or an[tn]["mod"]:
                    return "merge(load=False) left instance %s flagged as changed" % tn
            if len([x_ for x_ in snap if x_["stt"] == 1]) != len([x_ for x_ in before if x_["stt"] == 1]):
                return "merge(load=False) added a pending object"
        # --- idempotence: merging the same source again with the same flags changes nothing
        if k >= 2 and steps[k - 1][0] == op and steps[k - 1][1] != "ERR":
            if steps[k - 1][1] != ret or steps[k - 1][2] != snap:
                npend = lambda sn: len([x_ for x_ in sn if x_["stt"] == 1])
                tag = "F1" if npend(snap) > npend(steps[k - 1][2]) else "X"
                return "%s: merging the same source a second time changed the session (returned %s then %s)" % (tag, steps[k - 1][1], ret)
    return None


def match_finding(c, what):
    if what.startswith("F1:"):
        return "C45-second-merge-of-transient-adds-pending"
    return None


LEVEL_TEXT = (
    "Machine-checked proof (Coq) over the Gallina transcription of Session._merge / ColumnProperty.merge / "
    "RelationshipProperty.merge and the attribute events they fire, for every database, every prepared session "
    "and every source graph of the shape 'one A with its B children' (unbounded number of children, arbitrary "
    "values, any subset of attributes loaded). The tie to the code is a pinned normalised source + behavioural "
    "correspondence on real SQLite observing every instance of the session after every merge."
)
LEVEL_NOTE = (
    "partial: source graphs are restricted to an A with its B children; merging a B first, graphs in which a "
    "child references a different parent, version_id_col, composite keys, flushes between merges and expired "
    "targets are not covered. Trusted: Coq kernel, the hand transcription (source pin + correspondence), SQLite."
)
TECHNIQUE = "Coq proof (list induction over the children, frame lemmas) + source pin + model/implementation correspondence on SQLite"
