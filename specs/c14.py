"""C14 - DDL (create_all / drop_all) is emitted in dependency order for any foreign-key graph, cycles
broken by ALTER; sorted_tables lists referenced tables first for every acyclic dependency."""
import itertools
import re

ID = "C14"
LEVEL = "proof"
PROPS = "props/C14.v"
RUNNER = ("SAV.sql.DDLOrderRun", "run_case")
STATIC_MODULES = ["SAV.sql.DDLOrderRun"]
RULE = (
    "every FK graph (self references included) on 1..3 tables (thorough: 4 tables) x create_all / "
    "drop_all / sorted_tables, each with several use_alter / named flag patterns and table insertion "
    "orders; plus random metadata <= 7 tables with parallel constraints to the same table, "
    "multi-column constraints, add_is_dependent_on edges, checkfirst on with a referentially closed "
    "set of already existing tables. The emitted PostgreSQL DDL (mock connection) is parsed back to "
    "CREATE(inline fks)/ALTER ADD/DROP/ALTER DROP and compared with the model plan (the ALTER block, "
    "whose order is a set iteration order, is compared as a set). non-trivial = at least one FK or "
    "dependency between two different tables (distribution counts cyclic graphs separately). Kinds "
    "explicit-*: cyclic FK graphs on 2..3 tables with an add_is_dependent_on edge on / against / both "
    "ways along an FK edge of the cycle (the pair the cycle handling removes) or elsewhere; the "
    "oracle requires every explicit dependency to be respected by sorted_tables and by the CREATE / "
    "DROP TABLE order and explicit cycles to raise. Kinds history-*: the MetaData is built by a HISTORY (tables defined parent-first / child-first, FKs by "
    "name and as Column objects, MetaData.remove + redefinition of parent and/or child, "
    "Table(..., extend_existing=True) keeping / retargeting / adding constraints; small-scope family "
    "over single-column ForeignKey, ForeignKeyConstraint, two-column constraints + random histories) "
    "and the plan must be the model's plan for the metadata the history leaves behind. Kind "
    "sqlite-live (oracle only, not modelled): create_all then drop_all really executed on in-memory "
    "SQLite with foreign_keys=ON (dialect without ALTER), catalog compared with the metadata"
)
TRUSTED = [
    "hand-written Gallina transcription of sql/ddl.py sort_tables_and_constraints, "
    "SchemaGenerator/SchemaDropper.visit_metadata/visit_table/visit_foreign_key_constraint (dialect "
    "with supports_alter) and MetaData.sorted_tables, pinned to the normalised source and compared "
    "behaviourally; the C19 model of util/topological.py",
    "the reference catalog (CREATE/ALTER ADD need the referenced table, DROP TABLE needs no incoming "
    "constraint from another table, DROP CONSTRAINT needs a name) is a hand-written statement of what "
    "PostgreSQL enforces; no PostgreSQL server is available, so it is not validated against one",
    "the regex parser in specs/c14.py that abstracts the emitted DDL text",
]
ASSUMPTIONS = [
    "table names are unique and every FK refers to a table of the same MetaData (otherwise "
    "NoReferencedTableError, outside this property)",
    "a 'dependency' is a ForeignKeyConstraint without use_alter to another table, or an "
    "add_is_dependent_on edge; 'acyclic dependency' for sorted_tables = the referencing table is not "
    "on a dependency cycle (sort_tables documents that all FKs of tables on a cycle are ignored)",
    "drop_all: ALTER .. DROP CONSTRAINT needs a constraint name (documented); a cycle that cannot be "
    "broken through named constraints raises CircularDependencyError (documented)",
    "checkfirst: the tables that already exist form a referentially closed part of the MetaData",
    "histories: a ForeignKey given as a Column OBJECT of a table that is later removed keeps pointing "
    "at the removed Table (by construction, not a DDL-order matter) - such histories are not generated; "
    "FKs given by name must follow the name",
]
ANCHORS = [
    ("lib/sqlalchemy/sql/ddl.py", "sort_tables_and_constraints"),
    ("lib/sqlalchemy/sql/ddl.py", "sort_tables"),
    ("lib/sqlalchemy/sql/ddl.py", "SchemaGenerator.visit_metadata"),
    ("lib/sqlalchemy/sql/ddl.py", "SchemaGenerator.visit_table"),
    ("lib/sqlalchemy/sql/ddl.py", "SchemaGenerator.visit_foreign_key_constraint"),
    ("lib/sqlalchemy/sql/ddl.py", "SchemaGenerator._can_create_table"),
    ("lib/sqlalchemy/sql/ddl.py", "SchemaDropper.visit_metadata"),
    ("lib/sqlalchemy/sql/ddl.py", "SchemaDropper.visit_table"),
    ("lib/sqlalchemy/sql/ddl.py", "SchemaDropper.visit_foreign_key_constraint"),
    ("lib/sqlalchemy/sql/ddl.py", "SchemaDropper._can_drop_table"),
    ("lib/sqlalchemy/sql/compiler.py", "DDLCompiler.create_table_constraints"),
    ("lib/sqlalchemy/sql/schema.py", "MetaData.sorted_tables"),
    # what keeps foreign keys pointing at the CURRENT tables across remove / redefine / extend_existing
    ("lib/sqlalchemy/sql/schema.py", "ForeignKey._set_table"),
    ("lib/sqlalchemy/sql/schema.py", "ForeignKey._remove_from_metadata"),
    ("lib/sqlalchemy/sql/schema.py", "Column._setup_on_memoized_fks"),
    ("lib/sqlalchemy/sql/schema.py", "ForeignKeyConstraint.referred_table"),
    ("lib/sqlalchemy/sql/schema.py", "MetaData._add_table"),
    ("lib/sqlalchemy/sql/schema.py", "MetaData._remove_table"),
    ("lib/sqlalchemy/sql/schema.py", "MetaData.remove"),
]


def translate(repo, outdir):
    from translate import fingerprint

    fingerprint.check(repo, ANCHORS, "C14")
    return []


# ---------------------------------------------------------------- case generation
# case input tree: [op, existing, checkfirst, tables]; table = [name, fks, extra];
# fk = [id, ref, use_alter, named]; op 0 create_all, 1 drop_all, 2 sorted_tables


def _graphs(n):
    pairs = [(a, b) for a in range(n) for b in range(n)]
    for mask in range(1 << len(pairs)):
        yield [pairs[i] for i in range(len(pairs)) if mask >> i & 1]


def _mk(order, edges, flag):
    """tables in insertion order `order`; edges (a, b): table a has an FK to b; flag(a, b, k) ->
    (use_alter, named)"""
    tables = []
    for a in order:
        fks = []
        for (x, b) in edges:
            if x == a:
                ua, nm = flag(a, b, len(fks))
                fks.append([len(fks), b, int(ua), int(nm)])
        tables.append([a, fks, []])
    return tables


def _closed_subset(rng, tables):
    names = [t[0] for t in tables]
    refs = {t[0]: {f[1] for f in t[1]} for t in tables}
    s = {n for n in names if rng.random() < 0.4}
    changed = True
    while changed:
        changed = False
        for n in list(s):
            for r in refs[n]:
                if r not in s:
                    s.add(r)
                    changed = True
    return sorted(s)


def _case(op, tables, kind, existing=None, checkfirst=0):
    names = sorted(t[0] for t in tables)
    if existing is None:
        existing = names if op == 1 else []
    if op == 2:
        existing, checkfirst = [], 0
    if op == 3:
        existing = []
    return {"in": [op, existing, checkfirst, tables], "kind": kind}


def _flag_patterns(rng):
    return [
        lambda a, b, k: (False, True),  # all named, no use_alter
        lambda a, b, k: (False, False),  # all unnamed
        lambda a, b, k: (rng.random() < 0.3, rng.random() < 0.6),
    ]


def _random_md(rng, nmax):
    n = rng.randint(1, nmax)
    names = rng.sample(range(10), n)
    dens = rng.choice([0.15, 0.3, 0.5])
    style = rng.choice(["any", "any", "named", "dag"])
    tables = []
    for i, a in enumerate(names):
        fks = []
        for j, b in enumerate(names):
            if a == b:
                reps = 1 if rng.random() < 0.15 else 0
            elif style == "dag" and not i < j:
                reps = 0
            else:
                reps = 0
                if rng.random() < dens:
                    reps = 1 if rng.random() < 0.75 else 2  # parallel constraints to the same table
            for _ in range(reps):
                ua = rng.random() < 0.2
                nm = True if style == "named" else rng.random() < 0.65
                fks.append([len(fks), b, int(ua), int(nm)])
        extra = [b for b in names if b != a and rng.random() < (0.08 if style != "dag" else 0.0)]
        if rng.random() < 0.02:
            extra.append(a)
        tables.append([a, fks, extra])
    return tables


def _explicit_family(rng, tier):
    """every cyclic FK graph on 2..3 tables (a sample on quick) x one explicit dependency
    t.add_is_dependent_on(p) placed (a) on an FK edge of the graph (the same (referred, table) pair the
    cycle handling removes), (b) against such an edge, (c) both (an unbreakable explicit cycle), (d) on
    a pair without FK - in two insertion orders, for create_all / drop_all / sorted_tables"""
    cases = []
    for n in (2, 3):
        for g in _graphs(n):
            es = {(b, a) for (a, b) in g if a != b}  # (referred, table)
            if not es or not _has_cycle(es, set(range(n))):
                continue
            if n == 3 and tier != "thorough" and rng.random() < 0.9:
                continue
            pats = _flag_patterns(rng)
            fk_edges = sorted(es)
            others = [(p, c) for p in range(n) for c in range(n) if p != c and (p, c) not in es]
            variants = []
            e = rng.choice(fk_edges)
            variants.append(("same", [e]))
            variants.append(("against", [(e[1], e[0])]))
            variants.append(("both", [e, (e[1], e[0])]))
            if len(fk_edges) > 1:
                variants.append(("same2", rng.sample(fk_edges, 2)))
            if others:
                variants.append(("other", [rng.choice(others)]))
            for vname, extra in variants:
                for order in (list(range(n)), list(reversed(range(n)))):
                    pat = pats[rng.choice([0, 1, 2])]
                    tables = _mk(order, g, pat)
                    for t in tables:
                        t[2] = sorted({p for (p, c) in extra if c == t[0]})
                    for op in (0, 1, 2):
                        if op != 2 or order[0] == 0:
                            cases.append(_case(op, [[t[0], [list(f) for f in t[1]], list(t[2])] for t in tables], "explicit-" + vname))
    return cases


def _hcase(op, steps, kind, existing=None, checkfirst=0):
    cur = _current(steps) or []
    names = sorted(t[0] for t in cur)
    if existing is None:
        existing = names if op == 1 else []
    if op in (2, 3):
        existing = []
    if op == 2:
        checkfirst = 0
    c = {"in": [10 + op, existing, checkfirst, steps], "kind": kind}
    if op == 3:
        c["model"] = False
    return c


def _history_family(rng):
    """small-scope histories: parent P / child C (FK C->P) / optional grandchild G (FK G->C), defined
    in both orders, then MetaData.remove + redefinition of P and/or C, or extend_existing (same or new
    target), for single-column ForeignKey, single-column ForeignKeyConstraint and two-column
    constraints (_ncols/_style depend on the table number), named and unnamed"""
    cases = []
    for cn in (1, 3, 4):  # FKC / two-column FKC / column-level ForeignKey
        for pn in (0, 2, 5):  # sorts before / between / after the child's key
            gn, qn = 6, 7
            for nm in (0, 1):
                P = [pn, [], []]
                C = [cn, [[0, pn, 0, nm]], []]
                G = [gn, [[0, cn, 0, nm]], []]
                Q = [qn, [], []]
                for first in ("P", "C"):
                    base = [[0, P], [0, C]] if first == "P" else [[0, C], [0, P]]
                    muts = {
                        "none": [],
                        "redefP": [[1, P], [0, P]],
                        "redefC": [[1, C], [0, C]],
                        "redefPC": [[1, P], [1, C], [0, P], [0, C]],
                        "redefCP": [[1, C], [1, P], [0, C], [0, P]],
                        "redefP2": [[1, P], [0, P], [1, P], [0, P]],
                        "extP": [[2, P]],
                        "extC": [[2, C]],
                        "extC-retarget": [[0, Q], [2, [cn, [[0, qn, 0, nm]], []]]],
                        "extC-add": [[0, Q], [2, [cn, [[1, qn, 0, nm]], []]]],
                        "redefP-selfref": [[1, P], [0, [pn, [[0, pn, 0, nm]], []]]],
                        "redefP-cycle": [[1, P], [0, [pn, [[0, cn, 0, 1]], []]]],
                    }
                    for mname, mut in muts.items():
                        with_g = rng.random() < 0.5
                        steps = base + ([[0, G]] if with_g else []) + mut
                        if with_g and rng.random() < 0.3:
                            steps = steps + [[1, G], [0, G]]
                        for op in (0, 1, 2):
                            cases.append(_hcase(op, steps, "history-" + mname))
                        if rng.random() < 0.15:
                            cases.append(_hcase(3, steps, "history-sqlite-live", checkfirst=rng.randint(0, 1)))
    # a table defined twice without remove / extend_existing: the history itself is rejected
    cases.append(_hcase(0, [[0, [1, [], []]], [0, [1, [], []]]], "history-invalid"))
    cases.append(_hcase(2, [[0, [2, [], []]], [1, [2, [], []]], [0, [2, [], []]], [0, [2, [], []]]], "history-invalid"))
    return cases


def _random_history(rng):
    tables = _random_md(rng, 5)
    for t in tables:
        t[2] = []
    names = [t[0] for t in tables]
    steps = [[0, t] for t in tables]
    rng.shuffle(steps)

    def newfks(name, old):
        fks = []
        for b in names:
            if rng.random() < 0.3:
                fks.append([len(fks), b, int(rng.random() < 0.15), int(rng.random() < 0.7)])
        return fks if rng.random() < 0.5 else [list(f) for f in old]

    for _ in range(rng.randint(1, 4)):
        cur = _current(steps)
        t = rng.choice(cur)
        r = rng.random()
        if r < 0.55:  # remove + define again (same or new constraints), possibly with steps in between
            steps.append([1, [t[0], [], []]])
            if rng.random() < 0.3:
                u = rng.choice(cur)
                if u[0] != t[0]:
                    steps += [[1, [u[0], [], []]], [0, [u[0], newfks(u[0], u[1]), []]]]
            steps.append([0, [t[0], newfks(t[0], t[1]), []]])
        else:  # extend_existing: retarget some constraints, add one
            ch = [[f[0], rng.choice(names), f[2], f[3]] for f in t[1] if rng.random() < 0.5]
            if rng.random() < 0.5:
                ch.append([max([f[0] for f in t[1]] + [-1]) + 1, rng.choice(names), 0, int(rng.random() < 0.7)])
            steps.append([2, [t[0], ch, []]])
    return steps


def gen_cases(rng, tier):
    cases = []
    nmax = 4 if tier == "thorough" else 3
    for n in range(1, nmax + 1):
        for g in _graphs(n):
            has_cycle = _has_cycle({(b, a) for (a, b) in g if a != b}, set(range(n)))
            if n <= 3:
                orders = [list(range(n))]
                if n >= 2:
                    o2 = list(range(n))
                    rng.shuffle(o2)
                    orders.append(o2)
            else:
                o2 = list(range(n))
                rng.shuffle(o2)
                orders = [o2]
            pats = _flag_patterns(rng)
            for oi, order in enumerate(orders):
                kind = "graph%d%s" % (n, "cyc" if has_cycle else "")
                if n == 4:
                    # thorough: one create and one drop per graph
                    cases.append(_case(0, _mk(order, g, pats[2]), kind))
                    cases.append(_case(1, _mk(order, g, pats[rng.choice([0, 2])]), kind))
                    if rng.random() < 0.05:
                        cases.append(_case(2, _mk(order, g, pats[2]), kind))
                    continue
                if oi == 0:
                    cases.append(_case(0, _mk(order, g, pats[2]), kind))
                    cases.append(_case(1, _mk(order, g, pats[0]), kind))
                    cases.append(_case(2, _mk(order, g, pats[1]), kind))
                elif n < 3 or tier == "thorough" or rng.random() < 0.5:
                    cases.append(_case(0, _mk(order, g, pats[1]), kind))
                    cases.append(_case(1, _mk(order, g, pats[2]), kind))
                    if rng.random() < 0.3:
                        cases.append(_case(2, _mk(order, g, pats[2]), kind))
    nrand = 5000 if tier == "thorough" else 700
    for _ in range(nrand):
        tables = _random_md(rng, 7)
        op = rng.choice([0, 0, 1, 1, 2])
        if op != 2 and rng.random() < 0.4:
            cases.append(_case(op, tables, "random-checkfirst", _closed_subset(rng, tables), 1))
        else:
            cases.append(_case(op, tables, "random"))
    # explicit dependencies (add_is_dependent_on) that coincide with / oppose the FK edges of a cycle
    cases += _explicit_family(rng, tier)
    # metadata histories: remove / redefine / extend_existing before the plan is computed
    cases += _history_family(rng)
    for _ in range(3000 if tier == "thorough" else 350):
        steps = _random_history(rng)
        op = rng.choice([0, 0, 1, 1, 2])
        cur = _current(steps)
        if op != 2 and rng.random() < 0.3:
            cases.append(_hcase(op, steps, "history-random", _closed_subset(rng, cur), 1))
        else:
            cases.append(_hcase(op, steps, "history-random"))
    # live SQLite (a dialect WITHOUT ALTER: everything inline, drop order unsorted on cycles): create_all
    # then drop_all really executed; outside the Coq model (no referee for existence there), oracle only
    for _ in range(1200 if tier == "thorough" else 200):
        tables = _random_md(rng, 6)
        for t in tables:
            t[2] = [p for p in t[2] if p != t[0]]
        if _has_cycle(_deps([[n, [], e] for n, _, e in tables]), {t[0] for t in tables}):
            continue
        c = _case(3, tables, "sqlite-live", [], rng.randint(0, 1))
        c["model"] = False
        cases.append(c)
    return cases


def _deps(tables, unnamed_only=False, fixed=True):
    """dependency edges (parent, child) among the given tables"""
    es = set()
    for name, fks, extra in tables:
        for i, ref, ua, nm in fks:
            if ua or ref == name:
                continue
            if unnamed_only and nm:
                continue
            es.add((ref, name))
        if fixed:
            for p in extra:
                es.add((p, name))
    return es


def _reach(es, nodes):
    adj = {n: set() for n in nodes}
    for a, b in es:
        if a in adj and b in adj:
            adj[a].add(b)
    reach = {n: set(adj[n]) for n in nodes}
    changed = True
    while changed:
        changed = False
        for n in nodes:
            new = set()
            for m in reach[n]:
                new |= reach[m]
            if not new <= reach[n]:
                reach[n] |= new
                changed = True
    return reach


def _has_cycle(es, nodes):
    r = _reach(es, nodes)
    return any(n in r[n] for n in nodes)


def nontrivial(c):
    tables = _tables_of(c) or []
    return any(a != b for a, b in _deps(tables) | {(f[1], t[0]) for t in tables for f in t[1]})


# ---------------------------------------------------------------- implementation side
def _ncols(t, k):
    return 2 if (t + k) % 3 == 0 else 1


def _current(steps):
    """the metadata a history leaves behind: list of [name, fks (sorted by id), extra] in
    MetaData.tables (dict) order; None if a table is defined twice (InvalidRequestError)"""
    cur = []
    for kind, (name, fks, extra) in steps:
        idx = next((i for i, t in enumerate(cur) if t[0] == name), None)
        if kind == 0:
            if idx is not None:
                return None
            cur.append([name, [list(f) for f in fks], list(extra)])
        elif kind == 1:
            if idx is not None:
                del cur[idx]
        else:
            if idx is None:
                cur.append([name, [list(f) for f in fks], list(extra)])
            else:
                new_ids = {f[0] for f in fks}
                old = cur[idx]
                merged = [f for f in old[1] if f[0] not in new_ids] + [list(f) for f in fks]
                cur[idx] = [name, sorted(merged, key=lambda f: f[0]), old[2] + list(extra)]
    return cur


def _tables_of(c):
    """the (current) tables a case is about"""
    op, existing, checkfirst, x = c["in"]
    return _current(x) if op >= 10 else x


def _build(steps, use_objects=False):
    """replay a history of Table(...) / MetaData.remove / Table(..., extend_existing=True).  A foreign
    key is given by name ("t3.id"); with use_objects some are given as Column objects instead - only
    where the referred table exists, is another table and is not removed later (a Column object of a
    removed table is a stale target by construction, not a property of the DDL ordering)."""
    from sqlalchemy import Column, ForeignKey, ForeignKeyConstraint, Integer, MetaData, Table

    md = MetaData()
    for si, (kind, (name, fks, extra)) in enumerate(steps):
        tname = "t%d" % name
        if kind == 1:
            if tname in md.tables:
                md.remove(md.tables[tname])
            continue
        removed_later = {st[1][0] for st in steps[si + 1 :] if st[0] == 1}
        extending = kind == 2 and tname in md.tables
        cols = [] if extending else [Column("id", Integer, primary_key=True), Column("id2", Integer)]
        cons = []
        for i, ref, ua, nm in fks:
            kw = {}
            if ua:
                kw["use_alter"] = True
            if nm:
                kw["name"] = "fk_%d_%d" % (name, i)
            rname = "t%d" % ref
            obj = (
                use_objects
                and ref != name
                and rname in md.tables
                and ref not in removed_later
                and (name + i + si) % 2 == 0
            )
            if _ncols(name, i) == 2:
                cols += [Column("c%d" % i, Integer), Column("c%db" % i, Integer)]
                tgt = [md.tables[rname].c.id, md.tables[rname].c.id2] if obj else [rname + ".id", rname + ".id2"]
                cons.append(ForeignKeyConstraint(["c%d" % i, "c%db" % i], tgt, **kw))
            elif (name + i) % 2:
                cols.append(Column("c%d" % i, Integer))
                cons.append(ForeignKeyConstraint(["c%d" % i], [md.tables[rname].c.id if obj else rname + ".id"], **kw))
            else:
                cols.append(Column("c%d" % i, Integer, ForeignKey(md.tables[rname].c.id if obj else rname + ".id", **kw)))
        if extending:
            Table(tname, md, *(cols + cons), extend_existing=True)
        else:
            Table(tname, md, *(cols + cons))  # InvalidRequestError if already defined
    cur = _current(steps)
    for name, fks, extra in cur:
        for p in extra:
            if "t%d" % p in md.tables:
                md.tables["t%d" % name].add_is_dependent_on(md.tables["t%d" % p])
    return md


def _build_case(c):
    """(metadata, current tables) or (None, None) when the history itself is rejected"""
    from sqlalchemy import exc

    op, existing, checkfirst, x = c["in"]
    if op < 10:
        return _build([[0, t] for t in x]), x
    try:
        return _build(x, use_objects=True), _current(x)
    except exc.InvalidRequestError:
        return None, None


_FK = re.compile(r"(?:CONSTRAINT (\w+) )?FOREIGN KEY\(([^)]*)\) REFERENCES (\w+) \(([^)]*)\)")
_CREATE = re.compile(r"^CREATE TABLE t(\d+) \((.*)\)$", re.S)
_ADD = re.compile(r"^ALTER TABLE t(\d+) ADD (.*)$", re.S)
_DROPT = re.compile(r"^DROP TABLE t(\d+)$")
_DROPC = re.compile(r"^ALTER TABLE t(\d+) DROP CONSTRAINT (\w+)$")


def _fk_id(decl, t, m):
    """identify a rendered FOREIGN KEY clause of table t with a declared constraint; -1 if it does not
    render that constraint faithfully"""
    name, cols, reft, refcols = m.group(1), m.group(2), m.group(3), m.group(4)
    cols = [c.strip() for c in cols.split(",")]
    mm = re.match(r"^c(\d+)$", cols[0])
    if not mm:
        return -1
    k = int(mm.group(1))
    d = decl.get((t, k))
    if d is None:
        return -1
    ref, ua, nm = d
    want_cols = ["c%d" % k] + (["c%db" % k] if _ncols(t, k) == 2 else [])
    want_ref = ["id"] + (["id2"] if _ncols(t, k) == 2 else [])
    if cols != want_cols or reft != "t%d" % ref or [c.strip() for c in refcols.split(",")] != want_ref:
        return -1
    if (name or None) != ("fk_%d_%d" % (t, k) if nm else None):
        return -1
    return k


def _abstract(sql, decl):
    s = " ".join(sql.split())
    m = _CREATE.match(s)
    if m:
        t = int(m.group(1))
        return [0, t, sorted(_fk_id(decl, t, f) for f in _FK.finditer(m.group(2)))]
    m = _ADD.match(s)
    if m:
        t = int(m.group(1))
        f = _FK.fullmatch(m.group(2).strip())
        return [1, t, _fk_id(decl, t, f) if f else -1]
    m = _DROPT.match(s)
    if m:
        return [2, int(m.group(1))]
    m = _DROPC.match(s)
    if m:
        t = int(m.group(1))
        mm = re.match(r"^fk_(\d+)_(\d+)$", m.group(2))
        if mm and int(mm.group(1)) == t and decl.get((t, int(mm.group(2))), (0, 0, 0))[2]:
            return [3, t, int(mm.group(2))]
        return [3, t, -1]
    return [9, [ord(ch) for ch in s[:40]]]


def _emit(op, existing, checkfirst, tables, md):
    """run create_all / drop_all against a mock PostgreSQL connection; returns the abstract statement
    list or an error code"""
    import warnings

    from sqlalchemy import exc
    from sqlalchemy.dialects import postgresql
    from sqlalchemy.engine.mock import MockConnection

    decl = {(t[0], f[0]): (f[1], f[2], f[3]) for t in tables for f in t[1]}
    out = []
    dialect = postgresql.dialect()
    ex_names = {"t%d" % n for n in existing}
    dialect.has_multi_table = lambda conn, names, schema=None, **kw: [
        ((schema, n), n in ex_names) for n in names
    ]
    dialect.has_table = lambda conn, name, schema=None, **kw: name in ex_names

    class Conn(MockConnection):
        def _run_ddl_visitor(self, visitorcallable, element, **kwargs):
            visitorcallable(dialect=self.dialect, connection=self, **kwargs).traverse_single(element)

    def executor(sql, *a, **k):
        out.append(_abstract(str(sql.compile(dialect=dialect)), decl))

    conn = Conn(dialect, executor)
    with warnings.catch_warnings():
        warnings.simplefilter("ignore")
        try:
            if op == 0:
                md.create_all(conn, checkfirst=bool(checkfirst))
            else:
                md.drop_all(conn, checkfirst=bool(checkfirst))
        except exc.CircularDependencyError:
            return None, 1
        except exc.CompileError:
            return None, 2
    return out, 0


def _live_sqlite(checkfirst, md):
    """create_all then drop_all on a real in-memory SQLite with foreign keys enforced"""
    import warnings

    from sqlalchemy import create_engine, event, text

    eng = create_engine("sqlite://", connect_args={"autocommit": False})

    @event.listens_for(eng, "connect")
    def _fk_on(dbapi_con, rec):
        dbapi_con.execute("PRAGMA foreign_keys=ON")

    def snapshot(conn):
        names = [r[0] for r in conn.execute(text("select name from sqlite_master where type='table' order by name"))]
        out = []
        for n in names:
            refs = sorted({(r[0], int(r[2][1:])) for r in conn.execute(text("PRAGMA foreign_key_list(%s)" % n))})
            out.append([int(n[1:]), sorted(ref for _, ref in refs)])
        return out

    with warnings.catch_warnings():
        warnings.simplefilter("ignore")
        try:
            with eng.begin() as conn:
                md.create_all(conn, checkfirst=bool(checkfirst))
                after_create = snapshot(conn)
            with eng.begin() as conn:
                md.drop_all(conn, checkfirst=bool(checkfirst))
                after_drop = snapshot(conn)
        except Exception as e:  # any error is an observation here
            return [5, [ord(ch) for ch in type(e).__name__[:30]]]
        finally:
            eng.dispose()
    return [0, after_create, after_drop]


def impl(c):
    op, existing, checkfirst, _ = c["in"]
    md, tables = _build_case(c)
    if md is None:
        return [6]
    op = op % 10
    if op == 3:
        return _live_sqlite(checkfirst, md)
    if op == 2:
        import warnings

        from sqlalchemy import exc

        with warnings.catch_warnings(record=True) as w:
            warnings.simplefilter("always")
            try:
                st = md.sorted_tables
            except exc.CircularDependencyError:
                return [1]
        warned = any("Cannot correctly sort tables" in str(x.message) for x in w)
        return [0, [int(t.name[1:]) for t in st], int(warned)]
    out, err = _emit(op, existing, checkfirst, tables, md)
    if err:
        return [err]
    # the statements made from list(remaining_fkcs) come in set-iteration order: compared as a set
    # (sorted by table position, constraint id) - but only as ONE block at the place the model has it
    pos = {t[0]: i for i, t in enumerate(tables)}
    main_kind, alt_kind = (0, 1) if op == 0 else (2, 3)
    main = [s for s in out if s[0] == main_kind]
    alts = [s for s in out if s[0] == alt_kind]
    shape_ok = out == (main + alts if op == 0 else alts + main)
    if not shape_ok:
        return [4, out]
    alts.sort(key=lambda s: (pos.get(s[1], -1), s[2]))
    return [0, main, alts]


# ---------------------------------------------------------------- the property, stated directly
class _Catalog:
    """reference catalog: what a backend that enforces referenced-table existence accepts"""

    def __init__(self):
        self.t = {}  # name -> {fk id: ref}

    def run(self, s, decl):
        k = s[0]
        if k == 0:
            _, t, ids = s
            if t in self.t:
                return "CREATE TABLE t%d: already exists" % t
            fks = {}
            for i in ids:
                if (t, i) not in decl:
                    return "CREATE TABLE t%d: renders an undeclared/garbled constraint" % t
                ref = decl[(t, i)][0]
                if ref != t and ref not in self.t:
                    return "CREATE TABLE t%d: inline FK %d references t%d which does not exist yet" % (t, i, ref)
                fks[i] = ref
            self.t[t] = fks
        elif k == 1:
            _, t, i = s
            if (t, i) not in decl:
                return "ALTER TABLE t%d ADD: undeclared/garbled constraint" % t
            ref = decl[(t, i)][0]
            if t not in self.t:
                return "ALTER TABLE t%d ADD: table does not exist" % t
            if ref not in self.t:
                return "ALTER TABLE t%d ADD FK %d: referenced table t%d does not exist" % (t, i, ref)
            if i in self.t[t]:
                return "ALTER TABLE t%d ADD FK %d: constraint already exists" % (t, i)
            self.t[t][i] = ref
        elif k == 2:
            _, t = s
            if t not in self.t:
                return "DROP TABLE t%d: does not exist" % t
            for u, fks in self.t.items():
                if u != t:
                    for i, ref in fks.items():
                        if ref == t:
                            return "DROP TABLE t%d: constraint %d of t%d still references it" % (t, i, u)
            del self.t[t]
        elif k == 3:
            _, t, i = s
            if t not in self.t or i not in self.t[t]:
                return "ALTER TABLE t%d DROP CONSTRAINT %d: no such (named) constraint" % (t, i)
            del self.t[t][i]
        else:
            return "unexpected statement %r" % (s,)
        return None


def oracle(c, obs):
    """history cases (op >= 10): the property is about the MetaData as it is NOW - the tables currently
    in it, each FK referring to the table that currently has the referred name"""
    op, existing, checkfirst, _ = c["in"]
    tables = _tables_of(c)
    if tables is None:
        return None if obs == [6] else "a table defined twice was accepted"
    if obs == [6]:
        return "InvalidRequestError while replaying a valid history"
    op = op % 10
    names = [t[0] for t in tables]
    if op == 3:
        if obs[0] != 0:
            return "create_all/drop_all on live SQLite raised %s" % "".join(chr(x) for x in obs[1])
        want = sorted([t[0], sorted(f[1] for f in t[1])] for t in tables)
        if obs[1] != want:
            return "live SQLite catalog after create_all %s differs from the metadata %s" % (obs[1], want)
        if obs[2]:
            return "tables left on live SQLite after drop_all: %s" % (obs[2],)
        return None
    if op == 2:
        fixed_cyc = _has_cycle(_deps([[n, [], e] for n, _, e in tables]), set(names))
        if obs == [1]:
            return None if fixed_cyc else "sorted_tables raised CircularDependencyError without a cycle of add_is_dependent_on edges"
        if fixed_cyc:
            return "add_is_dependent_on edges form a cycle but sorted_tables did not raise CircularDependencyError: %s" % (obs,)
        order = obs[1]
        if sorted(order) != sorted(names):
            return "sorted_tables %s is not a permutation of the tables %s" % (order, names)
        es = _deps(tables)
        r = _reach(es, set(names))
        pos = {n: i for i, n in enumerate(order)}
        # an explicit dependency is never dropped from the sort, cycle or not
        for p, ch in sorted(_deps([[n, [], e] for n, _, e in tables])):
            if p in pos and not pos[p] < pos[ch]:
                return "sorted_tables %s lists t%d before t%d although t%d.add_is_dependent_on(t%d)" % (order, ch, p, ch, p)
        for p, ch in es:
            if p in pos and ch not in r[ch] and not pos[p] < pos[ch]:
                return "sorted_tables %s lists t%d before the table t%d it depends on (t%d is on no cycle)" % (order, ch, p, ch)
        return None
    decl = {(t[0], f[0]): (f[1], f[2], f[3]) for t in tables for f in t[1]}
    if op == 0:
        todo = [t for t in tables if not (checkfirst and t[0] in existing)]
    else:
        todo = [t for t in tables if not checkfirst or t[0] in existing]
    tn = {t[0] for t in todo}
    if obs[0] == 1:
        # create: every FK can be added by ALTER, only add_is_dependent_on cycles are unbreakable;
        # drop: constraints without a name cannot be dropped by ALTER (documented)
        stuck = _deps(todo, unnamed_only=(op == 1)) if op == 1 else _deps([[n, [], e] for n, _, e in todo])
        if _has_cycle(stuck, tn):
            return None
        return "CircularDependencyError although every dependency cycle can be broken by ALTER"
    explicit = _deps([[n, [], e] for n, _, e in todo])
    if _has_cycle(explicit, tn):
        return "add_is_dependent_on edges form a cycle among the tables but %s did not raise CircularDependencyError" % (
            "create_all" if op == 0 else "drop_all")
    if obs[0] == 2:
        if op == 1 and any(f[2] and not f[3] for t in todo for f in t[1]):
            return None  # documented: use_alter needs a name for DROP CONSTRAINT
        return "CompileError while emitting DDL"
    if obs[0] != 0:
        seq = obs[1]
    else:
        seq = (obs[1] + obs[2]) if op == 0 else (obs[2] + obs[1])
    cat = _Catalog()
    start = existing if (op == 1 or checkfirst) else []
    for t in tables:
        if t[0] in start:
            cat.t[t[0]] = {f[0]: f[1] for f in t[1]}
    for s in seq:
        e = cat.run(s, decl)
        if e:
            return "%s rejected by the reference catalog: %s" % ("create_all" if op == 0 else "drop_all", e)
    if op == 0:
        want = {t[0]: {f[0]: f[1] for f in t[1]} for t in tables}
        if cat.t != want:
            return "catalog after create_all %s differs from the metadata %s" % (cat.t, want)
    else:
        if any(n in cat.t for n in tn):
            return "tables left after drop_all: %s" % sorted(cat.t)
    # explicit dependencies (add_is_dependent_on) order the CREATE / DROP TABLE statements as well
    kind = 0 if op == 0 else 2
    pos = {}
    for i, st in enumerate(seq):
        if st[0] == kind:
            pos.setdefault(st[1], i)
    for p, ch in sorted(explicit):
        if p in pos and ch in pos and p != ch:
            if op == 0 and not pos[p] < pos[ch]:
                return "create_all emits CREATE TABLE t%d before CREATE TABLE t%d although t%d.add_is_dependent_on(t%d)" % (ch, p, ch, p)
            if op == 1 and not pos[ch] < pos[p]:
                return "drop_all emits DROP TABLE t%d before DROP TABLE t%d although t%d.add_is_dependent_on(t%d)" % (p, ch, ch, p)
    return None


def match_finding(c, what):
    """C14-drop-sibling-unnamed-fk: drop_all on a dependency cycle through table U where U has two
    constraints to the same table T, one droppable by ALTER (named) and one not (unnamed, no
    use_alter): the (T, U) edge is discarded with the named one, DROP TABLE T can come first."""
    op, existing, checkfirst, _ = c["in"]
    tables = _tables_of(c) or []
    op = op % 10
    m = re.search(r"DROP TABLE t(\d+): constraint (\d+) of t(\d+) still references it", what or "")
    if op != 1 or not m:
        return None
    t, i, u = int(m.group(1)), int(m.group(2)), int(m.group(3))
    for name, fks, extra in tables:
        if name == u:
            mine = [f for f in fks if f[0] == i and f[1] == t and not f[3] and not f[2]]
            sib = [f for f in fks if f[0] != i and f[1] == t and f[3]]
            if mine and sib:
                return "C14-drop-sibling-unnamed-fk"
    return None


LEVEL_TEXT = (
    "Machine-checked proof (Coq) over the Gallina transcription of sort_tables_and_constraints and the "
    "SchemaGenerator/SchemaDropper metadata visitors, executed against a reference catalog that "
    "enforces referenced-table existence: for every metadata (any number of tables, self references, "
    "parallel and multi-column constraints, cycles, use_alter, add_is_dependent_on, checkfirst with a "
    "consistent set of existing tables) and every order of the ALTER block, create_all is accepted "
    "and yields exactly the metadata; it raises CircularDependencyError iff add_is_dependent_on edges "
    "form a cycle; drop_all is accepted and removes everything under the documented naming "
    "preconditions plus 'no named/unnamed sibling constraints' (the complement is refuted by a "
    "witness = a genuine defect); sorted_tables is a permutation listing referenced tables first for "
    "every dependency whose referencing table is on no cycle. Built on the C19 theorems."
)
LEVEL_NOTE = (
    "Trusted: Coq kernel; the hand transcription (source pin + exhaustive correspondence on all FK "
    "graphs <= 3 tables quick / 4 tables thorough + random metadata); the reference catalog as a "
    "statement of PostgreSQL's rules (no server available). Dialects without ALTER (SQLite) are outside "
    "the property (they do not enforce existence). No axioms."
)
TECHNIQUE = "Coq proof (invariants over plan execution, reuse of C19 sort/find_cycles theorems); source pin; exhaustive small-scope model/impl correspondence on emitted DDL; reference-catalog oracle"
