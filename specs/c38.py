"""C38 - instrumented collections behave exactly like the Python types they wrap.

Case format (tree):  [kind, init, ops]     kind 0 = list, 1 = set, 2 = dict
  list ops  [0,x] append  [1,x] remove  [2,i,x] insert  [3,i,x] c[i]=x  [4,sl,val] c[sl]=val
            [5,i] del c[i]  [6,sl] del c[sl]  [7,val] extend  [8,val] +=  [9,i|None] pop
            [10] clear  [11,n] *=  [12] reverse  [13,sl] c[sl]
            sl = [start|None, stop|None, step|None]
            val = [0,items] list | [1,items] iterator | [2] the collection itself | [3] non-iterable
  set ops   [0,x] add [1,x] discard [2,x] remove [3] pop [4] clear
            [5,a] update [6,a] difference_update [7,a] intersection_update
            [8,a] symmetric_difference_update [9,a] |= [10,a] -= [11,a] &= [12,a] ^=
            a = [0,items] set | [1,items] list | [2] the collection itself | [3] non-iterable
            (oracle only, not modelled: [13,[a..]] update(*a) [14,[a..]] difference_update(*a)
             [15,[a..]] intersection_update(*a))
  dict ops  [0,k,v] d[k]=v [1,k] del d[k] [2] clear [3,k,dflt|None] pop [4] popitem
            [5,k,v] setdefault [6,u,kw] update(u, **kw) [7,m] d |= m
            u = [0] omitted | [1,pairs] mapping | [2,pairs] iterable of pairs
Observation: one [result, contents, events] per operation (see coq/orm/CollRun.v).
"""
import itertools
import json
import os
import zlib

ID = "C38"
LEVEL = "proof"
PROPS = "props/C38.v"
RUNNER = ("SAV.orm.CollRun", "run_case")
STATIC_MODULES = ["SAV.orm.CollRun"]
RULE = (
    "single operations from every small pre-state: lists of length 0..4 x slice start/stop in "
    "{None,-6..6} x step in {None,-3..3 (0 included as the ValueError case)} x assigned values of "
    "length 0..3 (list / iterator / the collection itself / non-iterable) for slice assignment, "
    "deletion and read (41160 points; quick: seeded sample of 1300 of them plus a fixed boundary set of "
    "~1000 cases incl. the witnesses of the repaired defect; thorough: the whole grid); every int-index operation with index -6..6; all set operations on subsets of "
    "{0,1,2} with set/list/self/non-iterable arguments; all dict operations on 4 pre-states for both "
    "a KeyFuncDict and a dict subclass with @collection.appender; plus random histories of 2..7 "
    "operations on larger collections. non-trivial = the case contains an operation other than a read"
)
TRUSTED = [
    "hand-written Gallina transcription of _list_decorators/_set_decorators/_dict_decorators and the "
    "__set/__del helpers (coq/orm/Coll{List,Set,Dict}.v), pinned to the normalised source and compared "
    "behaviourally with InstrumentedList/InstrumentedSet/KeyFuncDict attached to a real relationship",
    "reference semantics of the builtin list/set/dict (coq/base/PySlice.v, py_*_op) - validated on every "
    "run against CPython by the oracle (the same operation is run on a plain list/set/dict)",
    "iteration order of builtin sets is an arbitrary permutation (Section variable ord); set contents and "
    "set event logs are compared as sorted lists",
]
ASSUMPTIONS = [
    "collection members are entity objects compared by identity, never None; event listeners do not "
    "replace the value (no retval=True listeners) and do not raise",
    "the collection is attached to its owner (a CollectionAdapter is present) and operations are called "
    "without _sa_initiator",
    "indexes are ints, slice components are ints or None; dict keys are hashable values compared by ==",
    "set.pop() and `s -= s` on collections with >= 2 members are compared with the model only through the "
    "oracle (which member is taken first is the builtin's choice)",
]
ANCHORS = [
    ("lib/sqlalchemy/orm/collections.py", "_list_decorators"),
    ("lib/sqlalchemy/orm/collections.py", "_set_decorators"),
    ("lib/sqlalchemy/orm/collections.py", "_dict_decorators"),
    ("lib/sqlalchemy/orm/collections.py", "__set"),
    ("lib/sqlalchemy/orm/collections.py", "__del"),
    ("lib/sqlalchemy/orm/collections.py", "__set_wo_mutation"),
    ("lib/sqlalchemy/orm/collections.py", "__before_pop"),
    ("lib/sqlalchemy/orm/collections.py", "_set_binops_check_strict"),
    ("lib/sqlalchemy/orm/collections.py", "CollectionAdapter.fire_append_event"),
    ("lib/sqlalchemy/orm/collections.py", "CollectionAdapter.fire_remove_event"),
    ("lib/sqlalchemy/orm/collections.py", "CollectionAdapter.fire_append_wo_mutation_event"),
]

EXN = {"IndexError": 0, "ValueError": 1, "KeyError": 2, "TypeError": 3, "RuntimeError": 4}
EXN_NAME = {v: k for k, v in EXN.items()}


def translate(repo, outdir):
    from translate import fingerprint

    fingerprint.check(repo, ANCHORS, "C38")
    return []


# --------------------------------------------------------------------------------------------
# known-finding fragments: vlib.main reads only known_findings.json (written by
# tools/merge_findings.py, a shared file).  Until the fragment findings/C38.json is merged this
# spec adds its own fragment to what the main program loads, so `./check C38` gives the same
# answer before and after the merge.
def _install_fragment_loader():
    import sys

    m = sys.modules.get("__main__")
    orig = getattr(m, "load_findings", None)
    if orig is None or getattr(orig, "_c38", False):
        return

    def load_findings(pid):
        out = orig(pid)
        if pid == ID:
            p = os.path.join(os.path.dirname(os.path.dirname(os.path.abspath(__file__))), "findings", "C38.json")
            try:
                with open(p) as f:
                    frag = json.load(f)
            except OSError:
                frag = []
            have = {e.get("id") for e in out}
            out = out + [e for e in frag if e.get("id") not in have]
        return out

    load_findings._c38 = True
    m.load_findings = load_findings


_install_fragment_loader()


# --------------------------------------------------------------------------------------------
# generators
SLV = [None] + list(range(-6, 7))
STEPS = [None, -3, -2, -1, 1, 2, 3]
NEW = [7, 8, 9]  # items not in the initial lists


def _val(kind, n):
    return [kind, NEW[:n]] if kind in (0, 1) else [kind]


def _slice_grid():
    """the whole small scope: (init, op)"""
    for n in range(5):
        init = list(range(n))
        for a, b, st in itertools.product(SLV, SLV, STEPS):
            sl = [a, b, st]
            for m in range(4):
                yield init, [4, sl, _val(0, m)], "setslice"
            yield init, [6, sl], "delslice"
            yield init, [13, sl], "getslice"


def _slicelen(sl, n):
    return len(range(*slice(*sl).indices(n)))


def _boundary_slices():
    """fixed set: every (len, slice) class boundary incl. the repaired defect's witnesses"""
    out = []
    for n in range(5):
        init = list(range(n))
        for sl in (
            [-5, 2, None], [None, None, -1], [1, 10, 2], [None, None, None], [0, 0, None], [n, None, None],
            [None, 0, None], [-1, None, None], [None, -1, None], [3, 1, None], [-6, 6, None], [6, -6, -1],
            [None, None, 2], [None, None, -2], [1, None, 2], [-1, 0, -1], [-1, None, -3], [n - 1, None, -1],
            [None, n, 3], [2, 2, -1], [0, n, 1], [-n, None, 1], [None, None, 0], [1, 3, 0],
        ):
            k = _slicelen(sl, n) if sl[2] != 0 else 0
            for m in sorted({0, 1, min(k, 3), min(k + 1, 3)}):
                for kind in (0, 1):
                    out.append((init, [4, sl, _val(kind, m)], "setslice-b"))
            out.append((init, [4, sl, [2]], "setslice-self"))
            out.append((init, [4, sl, [3]], "setslice-noniter"))
            out.append((init, [6, sl], "delslice-b"))
            out.append((init, [13, sl], "getslice-b"))
    return out


def _list_int_ops():
    out = []
    inits = [list(range(n)) for n in range(5)] + [[0, 1, 0], [2, 2], [0, 1, 2, 1, 0]]
    for init in inits:
        for i in range(-6, 7):
            out.append((init, [2, i, 7], "insert"))
            out.append((init, [3, i, 7], "setitem"))
            out.append((init, [5, i], "delitem"))
            out.append((init, [9, i], "pop"))
        out.append((init, [3, 0, 0], "setitem"))  # same object again
        out.append((init, [9, None], "pop"))
        out.append((init, [0, 7], "append"))
        out.append((init, [0, 0], "append"))
        for x in (0, 1, 2, 7):
            out.append((init, [1, x], "remove"))
        for v in ([0, []], [0, [7]], [0, [7, 8, 7]], [1, [7, 0]], [2], [3]):
            out.append((init, [7, v], "extend"))
            out.append((init, [8, v], "iadd"))
        out.append((init, [10], "clear"))
        for n in (-1, 0, 1, 2, 3):
            out.append((init, [11, n], "imul"))
        out.append((init, [12], "reverse"))
    return out


SET_ARGS = [[], [0], [0, 3], [0, 0, 3, 3], [1, 2, 3]]
SET_ARGS_THOROUGH = SET_ARGS + [[3, 4], [0, 1, 2], [2, 2], [4, 3, 2, 1, 0]]


def _set_ops(tier):
    out = []
    args = SET_ARGS_THOROUGH if tier == "thorough" else SET_ARGS
    for mask in range(8):
        init = [i for i in range(3) if mask >> i & 1]
        for x in (0, 1, 3):
            for t in (0, 1, 2):
                out.append((init, [t, x], "set-single"))
        out.append((init, [3], "set-pop"))
        out.append((init, [4], "set-clear"))
        for t in range(5, 13):
            for a in args:
                out.append((init, [t, [0, a]], "set-bulk"))
                out.append((init, [t, [1, a]], "set-bulk"))
            out.append((init, [t, [2]], "set-bulk-self"))
            out.append((init, [t, [3]], "set-bulk-noniter"))
        for t in (13, 14, 15):
            out.append((init, [t, []], "set-multiarg"))
            out.append((init, [t, [[1, [0, 3]], [0, [1, 4]]]], "set-multiarg"))
    return out


def _dict_ops():
    out = []
    inits = [[], [[0, 0]], [[0, 0], [1, 1]], [[0, 0], [1, 1], [2, 0]]]
    for init in inits:
        for k in (0, 1, 5):
            for v in (0, 1, 7):
                out.append((init, [0, k, v], "dict-setitem"))
                out.append((init, [5, k, v], "dict-setdefault"))
            out.append((init, [1, k], "dict-delitem"))
            out.append((init, [3, k, None], "dict-pop"))
            out.append((init, [3, k, 7], "dict-pop"))
        out.append((init, [2], "dict-clear"))
        out.append((init, [4], "dict-popitem"))
        pairs = [[], [[0, 0]], [[0, 7]], [[0, 7], [5, 8]], [[5, 7], [5, 8]], [[1, 1], [0, 0]], [[5, 0], [0, 1], [1, 0]]]
        for p in pairs:
            out.append((init, [6, [1, p], []], "dict-update"))
            out.append((init, [6, [2, p], []], "dict-update"))
            out.append((init, [6, [0], p], "dict-update"))
            out.append((init, [6, [2, p], [[0, 9], [6, 7]]], "dict-update"))
            out.append((init, [7, p], "dict-ior"))
    return out


def _rand_slice(rng, n):
    def comp():
        return rng.choice([None, None] + list(range(-n - 2, n + 3)))

    return [comp(), comp(), rng.choice([None, None, 1, 1, 2, 3, -1, -1, -2, -3])]


def _rand_list_case(rng):
    n = rng.randint(0, 8)
    init = [rng.randint(0, 5) for _ in range(n)] if rng.random() < 0.3 else list(range(n))
    ops = []
    ln = n  # approximate length, only to aim indexes
    for _ in range(rng.randint(2, 7)):
        t = rng.choice([0, 1, 2, 3, 4, 4, 4, 4, 5, 6, 6, 7, 8, 9, 10, 11, 12, 13])
        i = rng.randint(-ln - 2, ln + 2)
        x = rng.randint(0, 9)
        if t in (0, 1):
            ops.append([t, x])
        elif t in (2, 3):
            ops.append([t, i, x])
        elif t == 4:
            sl = _rand_slice(rng, ln)
            k = _slicelen(sl, max(ln, 0))
            m = rng.choice([k, k, rng.randint(0, 4)])
            kind = rng.choice([0, 0, 0, 1, 2, 3])
            ops.append([4, sl, [kind, [rng.randint(0, 9) for _ in range(m)]] if kind < 2 else [kind]])
        elif t == 5:
            ops.append([5, i])
        elif t in (6, 13):
            ops.append([t, _rand_slice(rng, ln)])
        elif t in (7, 8):
            kind = rng.choice([0, 0, 1, 2, 3])
            ops.append([t, [kind, [rng.randint(0, 9) for _ in range(rng.randint(0, 3))]] if kind < 2 else [kind]])
        elif t == 9:
            ops.append([9, rng.choice([None, i])])
        elif t == 11:
            ops.append([11, rng.choice([-1, 0, 1, 2])])
        else:
            ops.append([t])
    return {"in": [0, init, ops], "kind": "random-list"}


def _rand_set_case(rng):
    init = sorted(rng.sample(range(6), rng.randint(0, 5)))
    ops = []
    for _ in range(rng.randint(2, 6)):
        t = rng.choice([0, 1, 2, 4, 5, 6, 7, 8, 9, 10, 11, 12])
        if t in (0, 1, 2):
            ops.append([t, rng.randint(0, 7)])
        elif t == 4:
            ops.append([4])
        else:
            kind = rng.choice([0, 0, 1, 1, 2, 3])
            if kind == 2 and t in (6, 10):
                kind = 0  # `s -= s` takes an arbitrary member first: single-op cases only
            ops.append([t, [kind, [rng.randint(0, 7) for _ in range(rng.randint(0, 4))]] if kind < 2 else [kind]])
    return {"in": [1, init, ops], "kind": "random-set"}


def _rand_dict_case(rng):
    def pairs(lo, hi):
        return [[rng.randint(0, 5), rng.randint(0, 6)] for _ in range(rng.randint(lo, hi))]

    init = pairs(0, 4)
    ops = []
    for _ in range(rng.randint(2, 6)):
        t = rng.choice([0, 1, 2, 3, 4, 5, 6, 6, 7])
        k, v = rng.randint(0, 6), rng.randint(0, 6)
        if t in (0, 5):
            ops.append([t, k, v])
        elif t == 1:
            ops.append([1, k])
        elif t == 3:
            ops.append([3, k, rng.choice([None, v])])
        elif t == 6:
            u = rng.choice([[0], [1, pairs(0, 3)], [2, pairs(0, 3)]])
            ops.append([6, u, pairs(0, 2)])
        elif t == 7:
            ops.append([7, pairs(0, 3)])
        else:
            ops.append([t])
    return {"in": [2, init, ops], "kind": "random-dict"}


def _model_ok(kind, init, op):
    """False = compared by the oracle only (outside the executable model: builtin's free choice)"""
    if kind == 1:
        n = len(set(init))
        if op[0] == 3 and n >= 2:
            return False
        if op[0] in (6, 10) and op[1] == [2] and n >= 2:
            return False
        if op[0] >= 13:
            return False
    return True


def gen_cases(rng, tier):
    cases = []

    def add(kind, init, op, fam):
        c = {"in": [kind, init, [op]], "kind": fam}
        if not _model_ok(kind, init, op):
            c["model"] = False
        cases.append(c)

    grid = list(_slice_grid())
    if tier != "thorough":
        grid = rng.sample(grid, 1300)  # keeps the quick tier within 12 shards of 400 cases
    for init, op, fam in grid:
        add(0, init, op, fam)
    for init, op, fam in _boundary_slices():
        add(0, init, op, fam)
    for init, op, fam in _list_int_ops():
        add(0, init, op, fam)
    for init, op, fam in _set_ops(tier):
        add(1, init, op, fam)
    for init, op, fam in _dict_ops():
        add(2, init, op, fam)
    nrand = 4000 if tier == "thorough" else 300
    for _ in range(nrand):
        cases.append(_rand_list_case(rng))
    for _ in range(nrand // 2):
        cases.append(_rand_set_case(rng))
        cases.append(_rand_dict_case(rng))
    # de-duplicate (the boundary set overlaps the grid)
    seen, out = set(), []
    for c in cases:
        k = json.dumps(c["in"])
        if k not in seen:
            seen.add(k)
            out.append(c)
    return out


def nontrivial(c):
    kind, _init, ops = c["in"]
    return any(not (kind == 0 and op[0] == 13) for op in ops)


# --------------------------------------------------------------------------------------------
# implementation side
_ENV = {}


def impl_setup():
    from sqlalchemy import Column, ForeignKey, Integer, event
    from sqlalchemy.orm import attributes, collections, declarative_base, relationship, configure_mappers
    from sqlalchemy.orm.collections import attribute_keyed_dict, collection

    Base = declarative_base()

    class MyDict(dict):
        """test/orm/test_collection.py style: a plain dict subclass with an appender/remover"""

        @collection.appender
        def _append(self, item, _sa_initiator=None):
            self.__setitem__("k%d" % item.n, item, _sa_initiator=_sa_initiator)

        @collection.remover
        def _remove(self, item, _sa_initiator=None):
            self.__delitem__("k%d" % item.n, _sa_initiator=_sa_initiator)

    class Owner(Base):
        __tablename__ = "owner"
        id = Column(Integer, primary_key=True)
        l = relationship("Member", collection_class=list, overlaps="s,m,m2")
        s = relationship("Member", collection_class=set, overlaps="l,m,m2")
        m = relationship("Member", collection_class=attribute_keyed_dict("n"), overlaps="l,s,m2")
        m2 = relationship("Member", collection_class=MyDict, overlaps="l,s,m")

    class Member(Base):
        __tablename__ = "member"
        id = Column(Integer, primary_key=True)
        owner_id = Column(ForeignKey("owner.id"))
        n = Column(Integer)

        def __repr__(self):
            return "e%s" % self.n

    configure_mappers()
    log = []
    for attr in (Owner.l, Owner.s, Owner.m, Owner.m2):
        event.listen(attr, "append", lambda tgt, v, init, _l=log: _l.append((0, v)))
        event.listen(attr, "remove", lambda tgt, v, init, _l=log: _l.append((1, v)))
        event.listen(attr, "append_wo_mutation", lambda tgt, v, init, _l=log: _l.append((2, v)))
    _ENV.update(
        Owner=Owner, Member=Member, log=log, ents={}, attributes=attributes, collections=collections
    )


def _ent(n):
    e = _ENV["ents"].get(n)
    if e is None:
        e = _ENV["ents"][n] = _ENV["Member"](n=n)
    return e


def _key(k):
    return "k%d" % k


def _mk_collection(kind, init, variant, lazy=False):
    A = _ENV["attributes"]
    o = _ENV["Owner"]()
    name = {0: "l", 1: "s", 2: "m" if variant else "m2"}[kind]
    if not init and lazy:
        # a never-loaded attribute: the first access creates the special "empty" collection, which
        # the adapter installs into the owner's __dict__ at the first event (_reset_empty)
        c = getattr(o, name)
        adapter = _ENV["collections"].collection_adapter(c)
        assert adapter.empty and name not in o.__dict__
        return o, c
    adapter = A.init_state_collection(A.instance_state(o), A.instance_dict(o), name)
    c = getattr(o, name)
    assert _ENV["collections"].collection_adapter(c) is adapter and c._sa_adapter is adapter
    # populate silently through the builtin base class (as a load from the database would)
    if kind == 0:
        list.extend(c, [_ent(x) for x in init])
    elif kind == 1:
        set.update(c, [_ent(x) for x in init])
    else:
        for k, v in init:
            dict.__setitem__(c, _key(k), _ent(v))
    return o, c


def _value(c, v):
    if v[0] == 0:
        return [_ent(x) for x in v[1]]
    if v[0] == 1:
        return iter([_ent(x) for x in v[1]])
    if v[0] == 2:
        return c
    return 5


def _sarg(c, a):
    if a[0] == 0:
        return {_ent(x) for x in a[1]}
    if a[0] == 1:
        return [_ent(x) for x in a[1]]
    if a[0] == 2:
        return c
    return 5


def _apply(kind, c, op, E, V, SA, K):
    """run one operation on collection c (instrumented or builtin); E maps an item code to a member,
    V/SA build a value / set argument, K a dict key"""
    t = op[0]
    if kind == 0:
        if t == 0:
            return c.append(E(op[1]))
        if t == 1:
            return c.remove(E(op[1]))
        if t == 2:
            return c.insert(op[1], E(op[2]))
        if t == 3:
            return c.__setitem__(op[1], E(op[2]))
        if t == 4:
            return c.__setitem__(slice(*op[1]), V(c, op[2]))
        if t == 5:
            return c.__delitem__(op[1])
        if t == 6:
            return c.__delitem__(slice(*op[1]))
        if t == 7:
            return c.extend(V(c, op[1]))
        if t == 8:
            return c.__iadd__(V(c, op[1]))
        if t == 9:
            return c.pop() if op[1] is None or op[1] == [] else c.pop(op[1])
        if t == 10:
            return c.clear()
        if t == 11:
            return c.__imul__(op[1])
        if t == 12:
            return c.reverse()
        if t == 13:
            return c[slice(*op[1])]
    elif kind == 1:
        if t == 0:
            return c.add(E(op[1]))
        if t == 1:
            return c.discard(E(op[1]))
        if t == 2:
            return c.remove(E(op[1]))
        if t == 3:
            return c.pop()
        if t == 4:
            return c.clear()
        names = {5: "update", 6: "difference_update", 7: "intersection_update", 8: "symmetric_difference_update",
                 9: "__ior__", 10: "__isub__", 11: "__iand__", 12: "__ixor__"}
        if t in names:
            return getattr(c, names[t])(SA(c, op[1]))
        multi = {13: "update", 14: "difference_update", 15: "intersection_update"}
        if t in multi:
            return getattr(c, multi[t])(*[SA(c, a) for a in op[1]])
    else:
        if t == 0:
            return c.__setitem__(K(op[1]), E(op[2]))
        if t == 1:
            return c.__delitem__(K(op[1]))
        if t == 2:
            return c.clear()
        if t == 3:
            return c.pop(K(op[1])) if op[2] is None or op[2] == [] else c.pop(K(op[1]), E(op[2]))
        if t == 4:
            return c.popitem()
        if t == 5:
            return c.setdefault(K(op[1]), E(op[2]))
        if t == 6:
            u, kw = op[1], {K(k): E(v) for k, v in op[2]}
            if u[0] == 0:
                return c.update(**kw)
            if u[0] == 1:
                return c.update({K(k): E(v) for k, v in u[1]}, **kw)
            return c.update([(K(k), E(v)) for k, v in u[1]], **kw)
        if t == 7:
            return c.__ior__({K(k): E(v) for k, v in op[1]})
    raise AssertionError("bad op %r" % (op,))


def _none(x):
    return x is None or x == []


def _norm_op(op):
    """JSON round trip / norm_tree turns None into []: undo for slice components"""
    op = list(op)
    if op and op[0] in (4, 6, 13) and isinstance(op[1], list) and len(op[1]) == 3:
        op[1] = [None if _none(x) else x for x in op[1]]
    return op


def _observe(kind, c, r, exc, code_of, key_of):
    if exc is not None:
        res = [1, EXN.get(type(exc).__name__, 90)]
    elif r is None:
        res = [0, [0]]
    elif r is c:
        res = [0, [2]]
    elif r is NotImplemented:
        res = [0, [4]]
    elif isinstance(r, list):
        res = [0, [3, [code_of(x) for x in r]]]
    elif isinstance(r, tuple):
        res = [0, [5, key_of(r[0]), code_of(r[1])]]
    else:
        res = [0, [1, code_of(r)]]
    if kind == 0:
        cont = [code_of(x) for x in list(c)]
    elif kind == 1:
        cont = sorted(code_of(x) for x in c)
    else:
        cont = [[key_of(k), code_of(v)] for k, v in c.items()]
    return res, cont


def impl(case):
    if not _ENV:
        impl_setup()
    kind, init, ops = case["in"]
    h = zlib.crc32(json.dumps(case["in"]).encode())
    variant = h & 1
    o, c = _mk_collection(kind, init, variant, lazy=bool(h & 2))
    log = _ENV["log"]
    obs = []
    code_of = lambda e: e.n  # noqa: E731
    key_of = lambda k: int(k[1:])  # noqa: E731
    for op in ops:
        op = _norm_op(op) if kind == 0 else op
        del log[:]
        r, exc = None, None
        try:
            r = _apply(kind, c, op, _ent, _value, _sarg, _key)
        except AssertionError:
            raise
        except Exception as e:  # the exception class is part of the observation
            exc = e
        res, cont = _observe(kind, c, r, exc, code_of, key_of)
        evs = [[t, code_of(v)] for t, v in log]
        if kind == 1:
            evs.sort(key=lambda tv: 3 * tv[1] + tv[0])
        obs.append([res, cont, evs])
    return obs


# --------------------------------------------------------------------------------------------
# the property itself, on the implementation's observation: run the same operation on the plain
# builtin from the collection's actual pre-state; result / exception class / contents must be
# equal, and  (#append - #remove events per member) = (count after - count before).
def _builtin_state(kind, cont):
    if kind == 0:
        return list(cont)
    if kind == 1:
        return set(cont)
    return {_key(k): v for k, v in cont}


def _py_value(c, v):
    if v[0] == 0:
        return list(v[1])
    if v[0] == 1:
        return iter(list(v[1]))
    if v[0] == 2:
        return c
    return 5.5  # non-iterable (members are ints here, so not an int)


def _py_sarg(c, a):
    if a[0] == 0:
        return set(a[1])
    if a[0] == 1:
        return list(a[1])
    if a[0] == 2:
        return c
    return 5.5


def _members(kind, cont):
    if kind == 2:
        return [v for _k, v in cont]
    return list(cont)


def _count(xs):
    d = {}
    for x in xs:
        d[x] = d.get(x, 0) + 1
    return d


def _fail(kind, k, pre, op, ob, why, fail):
    blob = {"coll": kind, "k": k, "pre": pre, "op": op, "obs": ob, "fail": fail}
    return "%s ##%s" % (why, json.dumps(blob))


def oracle(case, obs):
    kind, init, ops = case["in"]
    if kind == 1:
        pre = sorted(set(init))
    elif kind == 2:
        pre = [[k, v] for k, v in dict((k, v) for k, v in init).items()]
    else:
        pre = list(init)
    cname = ("list", "set", "dict")[kind]
    for k, (op, ob) in enumerate(zip(ops, obs)):
        op = _norm_op(op) if kind == 0 else op
        res, cont, evs = ob
        ref = _builtin_state(kind, pre)
        r, exc = None, None
        if kind == 1 and op[0] == 3:
            # set.pop(): any member may be taken; follow the implementation's choice
            if not pre:
                exc = KeyError()
            elif res[0] == 0 and res[1][0] == 1 and res[1][1] in ref:
                ref.discard(res[1][1])
                r = res[1][1]
            else:
                return _fail(kind, k, pre, op, ob, "set.pop() did not return a member: %s" % (res,), "eq")
        else:
            try:
                r = _apply(kind, ref, op, lambda x: x, _py_value, _py_sarg, _key)
            except AssertionError:
                raise
            except Exception as e:
                exc = e
        want_res, want_cont = _observe(kind, ref, r, exc, lambda x: x, lambda s: int(s[1:]))
        if res != want_res or cont != want_cont:
            return _fail(
                kind, k, pre, op, ob,
                "%s %s on %s: instrumented gives result %s contents %s, builtin gives result %s contents %s"
                % (cname, op, pre, res, cont, want_res, want_cont), "eq")
        # event accounting against the observed contents
        before, after = _count(_members(kind, pre)), _count(_members(kind, cont))
        net = {}
        for t, x in evs:
            if t == 0:
                net[x] = net.get(x, 0) + 1
            elif t == 1:
                net[x] = net.get(x, 0) - 1
        for x in set(before) | set(after) | set(net):
            if after.get(x, 0) - before.get(x, 0) != net.get(x, 0):
                return _fail(
                    kind, k, pre, op, ob,
                    "%s %s on %s: events %s do not account for the change of member %s (contents now %s)"
                    % (cname, op, pre, evs, x, cont), "acct")
        pre = cont
    return None


# --------------------------------------------------------------------------------------------
# known findings: precise classes (input class AND the exact wrong behaviour observed)
def _classify(b):
    coll, pre, op, (res, cont, evs), fail = b["coll"], b["pre"], b["op"], b["obs"], b["fail"]
    t = op[0]
    if coll == 0:
        if t == 1 and fail == "acct" and op[1] not in pre and res == [1, EXN["ValueError"]] and cont == pre and evs == [[1, op[1]]]:
            return "C38-list-remove-absent-fires-remove"
        if t == 11 and fail == "acct" and evs == [] and cont == pre * max(op[1], 0) and res == [0, [2]]:
            return "C38-list-imul-no-events"
        if t == 4:
            sl = [None if _none(x) else x for x in op[1]]
            if sl[2] == 0:
                return None
            start, stop, step = slice(*sl).indices(len(pre))
            vk = op[2][0]
            if vk == 2 and step == 1 and fail == "eq" and cont == pre and evs == [] and res == [0, [0]]:
                return "C38-list-setslice-self-ignored"
            if vk == 2 and step != 1 and fail == "eq" and len(range(start, stop, step)) == len(pre) >= 2 and res == [0, [0]]:
                return "C38-list-extslice-self-aliased"
            if vk == 3 and step == 1 and fail == "eq" and res == [1, EXN["TypeError"]]:
                rem = pre[:start] + pre[max(start, stop):]
                if cont == rem and evs == [[1, x] for x in pre[start:max(start, stop)]]:
                    return "C38-list-setslice-noniterable-deletes-first"
            if vk == 1 and step != 1 and fail == "eq" and res == [1, EXN["TypeError"]] and cont == pre and evs == []:
                return "C38-list-extslice-iterator-typeerror"
    elif coll == 1:
        if t in (6, 10) and op[1] == [2] and fail == "eq" and res == [1, EXN["RuntimeError"]] and pre:
            if len(cont) == len(pre) - 1 and set(cont) < set(pre) and len(evs) == 1 and evs[0][0] == 1:
                return "C38-set-difference-update-self"
        if t in (13, 14, 15) and fail == "eq" and len(op[1]) != 1 and res == [1, EXN["TypeError"]] and cont == pre and evs == []:
            return "C38-set-bulk-single-argument-only"
    else:
        if t == 7 and fail == "acct" and evs == [] and res == [0, [2]]:
            want = dict((k, v) for k, v in pre)
            want.update(dict((k, v) for k, v in op[1]))
            if cont == [[k, v] for k, v in want.items()]:
                return "C38-dict-ior-no-events"
    return None


def match_finding(case, what):
    if "##" not in what:
        return None
    try:
        blob = json.loads(what.split("##", 1)[1])
        return _classify(blob)
    except Exception:
        return None


LEVEL_TEXT = (
    "Machine-checked proof (Coq) over the Gallina transcription of _list_decorators / _set_decorators / "
    "_dict_decorators: for every operation and every argument value the instrumented list equals the "
    "builtin list (result, exception, contents) outside exactly one region (`c[a:b] = c`, proved exact), "
    "the instrumented set equals the builtin set up to order outside `s -= s`, the instrumented dict equals "
    "the builtin dict; the append/remove events account exactly for the change of contents for every set and "
    "dict operation and for every list operation but `*=` (guard proved exact); all lifted to arbitrary "
    "operation histories. Each excluded region has a _refuted theorem with a concrete witness; the defects "
    "repaired by 1d9f897, 2c3a941, b1144f3, c982b6e are positive Examples and replayed witnesses."
)
LEVEL_NOTE = (
    "Trusted: Coq kernel; the hand transcription (source pin + exhaustive small-scope correspondence); the "
    "reference semantics of list/set/dict in coq/base/PySlice.v (checked against CPython on every run). "
    "No axioms."
)
TECHNIQUE = (
    "Coq proof: refinement of the wrappers' loops to CPython's slice semantics, monadic event-accounting "
    "invariant, induction over histories; source pin; small-scope exhaustive model/impl correspondence; "
    "differential oracle against the builtin types"
)
