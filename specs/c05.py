"""C05 - literal rendering (literal_binds / literal_execute) is equivalent to binding and cannot inject SQL."""
import ast
import json
import os
import re

ID = "C05"
LEVEL = "proof"
PROPS = "props/C05.v"
RUNNER = ("SAV.sql.LiteralRun", "run_case")
STATIC_MODULES = ["SAV.sql.LiteralRun"]
RULE = (
    "render cases = (dialect in sqlite/postgresql/mysql/mssql/oracle x _backslash_escapes in {0,1,default} x "
    "paramstyle in {qmark,format,pyformat,named,numeric,numeric_dollar,default}) x mode in {literal_binds, "
    "literal_execute (render_postcompile)} x clause position in {SELECT list, WHERE, IN list, INSERT VALUES, "
    "UPDATE SET, function argument, HAVING, ORDER BY, LIMIT (ints), IN list of a type with bind_expression, "
    "operand of unary minus} x value: ALL strings of length <= 2 over {' \\ % a , space} and random strings "
    "(<= 8 atoms from quotes, backslashes, %, %s, %(x)s, :x, ?, --, /*, ;, newlines, ', ', non-ASCII, "
    "POSTCOMPILE markers ...), boundary integers, booleans, None, Numeric/Float values given as str / float / "
    "Decimal / int (plain, exponent, NaN, Infinity, underscores, padded, non-ASCII digits), dates, times, "
    "datetimes. The statement is compiled by the real compiler; the literal is cut out by comparing with the "
    "bound compilation of the same statement (everything outside the placeholder must be identical) and "
    "compared with the model's text. On the default SQLite dialect every such statement is also EXECUTED in "
    "bound and in literal form and the rows compared (oracle). Spec-side families: SQLite 'SELECT (<raw text>)' "
    "against the model's lexer; decimal.Decimal(text) acceptance against the model's grammar; the oracle's "
    "Python lexers against the Coq lexers. The compiler's %(name)s passes over the finished text "
    "(_process_positional for qmark/format, the numeric passes) are part of the model; a SQLite engine with "
    "paramstyle='numeric' executes the statements that combine a literal_execute string with an expanding "
    "parameter (oracle only). non-trivial = the value needs escaping, is negative, non-finite, "
    "non-ASCII, or the raw text contains a quote"
)
TRUSTED = [
    "hand-written Gallina transcription of the literal processors and render_literal_value overrides; tied to "
    "the source by the normalised-source pin, by the regenerated tables (ordered .replace() calls and quote "
    "templates of String/_UnicodeLiteral.literal_processor and of the mysql/postgresql render_literal_value: "
    "Python ast -> Gen_C05.v, equal to the model's by reflexivity; default paramstyle, _backslash_escapes, "
    "_double_percents per paramstyle and the boolean tokens read from the live dialect objects) and by the "
    "behavioural correspondence",
    "the string-literal grammar of SQLite is validated on every run against SQLite 3.40 (execution of every "
    "SQLite case + raw-text lexer cases); the grammars of PostgreSQL (standard_conforming_strings on/off), "
    "MySQL (NO_BACKSLASH_ESCAPES off/on), SQL Server (N'..') and Oracle are TRUSTED transcriptions of their "
    "documentation (no backend in the sandbox); PostgreSQL \\ooo, \\xhh, \\uXXXX escapes are left undescribed "
    "(the lexer answers None there; rendered text never reaches them)",
    "a format/pyformat DBAPI turns %% into % and leaves everything else alone (collapse)",
    "Python str.replace(c, r) for a one-character c is character-wise substitution; CPython's "
    "decimal.Decimal(str) acceptance is re-implemented in Gallina (decimal_accepts) and compared with the "
    "live interpreter on every run (whitespace and decimal-digit tables regenerated from unicodedata)",
    "the %(name)s passes of the compiler are modelled on the rendered literal (list) only: a pattern that "
    "straddles the literal and the surrounding statement text is not described (the harness statements cannot "
    "produce one)",
    "str(float) / str(Decimal) / isoformat are not modelled: numeric values enter the model as the text "
    "str(value) and their Python type",
]
ASSUMPTIONS = [
    "dialect._backslash_escapes reflects the server (MySQL sql_mode / PostgreSQL standard_conforming_strings) "
    "and _double_percents reflects the driver; c05_backslash_flag_mismatch_injects shows what happens otherwise",
    "strings are sequences of non-NUL Unicode scalar values",
    "date/time values are naive and of the Python type matching the SQL type",
    "the backend converts decimal text to binary floating point correctly rounded (SQLite 3.40 does not for "
    "|exponent| > ~250: 33 of 20000 random doubles come back 1 ulp off; such values are not generated)",
]
LEVEL_TEXT = (
    "Machine-checked proof (Coq) over the Gallina transcription of the literal processors: for every code "
    "point sequence, every dialect and every flag setting the rendered string literal is exactly one token of "
    "the server's lexical grammar, denotes exactly the value and leaves the rest of the statement untouched "
    "(also through the driver's %% collapse, the N prefix and inside IN lists); integers, dates/times, "
    "booleans and NULL likewise; refuted (with guarded complements) for non-literal Numeric/Float texts and for "
    "the compiler's %(name)s passes (qmark/format/numeric paramstyles) running over rendered literals. Since the "
    "fixes 83f298d (unary minus) and 550a51d (IN list under bind_expression with literal_execute) the "
    "corresponding theorems are unguarded: the rendered unary minus is an operator for every operand text, and "
    "every element of such an IN list is wrapped as a whole. Post-compile substitution is proved to be a "
    "single pass that never re-scans the substituted literals."
)
LEVEL_NOTE = (
    "Trusted: Coq kernel; the transcription (source pin + regenerated replace tables + correspondence on "
    "every clause position and dialect configuration); the dialect grammars other than SQLite's. No axioms "
    "(Print Assumptions: closed under the global context)."
)
TECHNIQUE = (
    "Coq proof by induction over the string (lexer automaton vs character-wise encoding); ast->Gallina table "
    "translation; model/implementation correspondence; SQLite execution oracle"
)

ST = "lib/sqlalchemy/sql/sqltypes.py"
CO = "lib/sqlalchemy/sql/compiler.py"
T2_ANCHORS = [
    (ST, "String.literal_processor"),
    ("lib/sqlalchemy/dialects/mssql/base.py", "_UnicodeLiteral.literal_processor"),
    ("lib/sqlalchemy/dialects/mysql/base.py", "MySQLCompiler.render_literal_value"),
    ("lib/sqlalchemy/dialects/postgresql/base.py", "PGCompiler.render_literal_value"),
]
PIN_ANCHORS = [
    (ST, "String._resolve_for_literal"),
    (ST, "Integer.literal_processor"),
    (ST, "NumericCommon.literal_processor"),
    (ST, "_RenderISO8601NoT"),
    (ST, "DateTime.literal_processor"),
    (ST, "Date.literal_processor"),
    (ST, "Time.literal_processor"),
    (ST, "Boolean.literal_processor"),
    (CO, "SQLCompiler.render_literal_value"),
    (CO, "SQLCompiler.render_literal_bindparam"),
    (CO, "SQLCompiler._literal_execute_expanding_parameter_literal_binds"),
    (CO, "SQLCompiler._process_parameters_for_postcompile"),
    (CO, "SQLCompiler._generate_generic_unary_operator"),
    ("lib/sqlalchemy/dialects/oracle/types.py", "_OracleDateLiteralRender"),
    ("lib/sqlalchemy/dialects/sqlite/base.py", "_DateTimeMixin.literal_processor"),
]
ANCHORS = T2_ANCHORS + PIN_ANCHORS

DIALECTS = ["sqlite", "postgresql", "mysql", "mssql", "oracle"]
COQ_DIALECTS = ["SQLite", "PG", "MySQL", "MSSQL", "Oracle"]
PARAMSTYLES = ["qmark", "format", "pyformat", "named", "numeric", "numeric_dollar"]
COQ_PARAMSTYLES = ["Qmark", "Format", "Pyformat", "Named", "Numeric", "NumericDollar"]


def S(s):
    return [ord(c) for c in s]


def unS(t):
    return "".join(chr(c) for c in t)


# ====================================================================== translate (pin + T2 + T1)
class _TE(Exception):
    pass


def _fail(msg, node=None):
    raise _TE("C05 translate: %s%s" % (msg, (" at: " + ast.unparse(node)[:200]) if node is not None else ""))


def _body(fn):
    return [s for s in fn.body if not (isinstance(s, ast.Expr) and isinstance(s.value, ast.Constant))]


def _replace_assign(st, var):
    """`var = var.replace(<1 char>, <str>)` -> (code point, [code points])"""
    if not (
        isinstance(st, ast.Assign)
        and len(st.targets) == 1
        and isinstance(st.targets[0], ast.Name)
        and st.targets[0].id == var
        and isinstance(st.value, ast.Call)
        and isinstance(st.value.func, ast.Attribute)
        and st.value.func.attr == "replace"
        and isinstance(st.value.func.value, ast.Name)
        and st.value.func.value.id == var
        and len(st.value.args) == 2
        and not st.value.keywords
        and all(isinstance(a, ast.Constant) and isinstance(a.value, str) for a in st.value.args)
        and len(st.value.args[0].value) == 1
    ):
        _fail("expected `%s = %s.replace(c, s)`" % (var, var), st)
    return ord(st.value.args[0].value), [ord(c) for c in st.value.args[1].value]


CONDS = {
    "dialect.identifier_preparer._double_percents": "IfDoublePercents",
    "self.dialect._backslash_escapes": "IfBackslashEscapes",
}


def _replace_block(stmts, var):
    """a run of (conditional) replace statements -> [(cond, from, to)]"""
    out = []
    for st in stmts:
        if isinstance(st, ast.If):
            t = ast.unparse(st.test)
            if t not in CONDS or st.orelse:
                _fail("unexpected condition", st)
            for s2 in st.body:
                out.append((CONDS[t],) + _replace_assign(s2, var))
        else:
            out.append(("Always",) + _replace_assign(st, var))
    return out


def _extract_string_processor(fn):
    """literal_processor(self, dialect): def process(value): <replaces>; return "<open>%s<close>" % value"""
    b = _body(fn)
    if not (
        len(b) == 2
        and isinstance(b[0], ast.FunctionDef)
        and b[0].name == "process"
        and [a.arg for a in b[0].args.args] == ["value"]
        and ast.unparse(b[1]) == "return process"
    ):
        _fail("literal_processor is not `def process(value): ...; return process`", fn)
    pb = _body(b[0])
    ret = pb[-1]
    if not (
        isinstance(ret, ast.Return)
        and isinstance(ret.value, ast.BinOp)
        and isinstance(ret.value.op, ast.Mod)
        and isinstance(ret.value.left, ast.Constant)
        and isinstance(ret.value.left.value, str)
        and ret.value.left.value.count("%s") == 1
        and "%" not in ret.value.left.value.replace("%s", "")
        and isinstance(ret.value.right, ast.Name)
        and ret.value.right.id == "value"
    ):
        _fail("unexpected return of process()", ret)
    op, cl = ret.value.left.value.split("%s")
    return _replace_block(pb[:-1], "value"), [ord(c) for c in op], [ord(c) for c in cl]


def _extract_dialect_rlv(fn):
    """render_literal_value(self, value, type_): value = super()...; <replaces>; return value"""
    b = _body(fn)
    if [a.arg for a in fn.args.args] != ["self", "value", "type_"]:
        _fail("unexpected signature", fn)
    if not (
        len(b) >= 2
        and ast.unparse(b[0]) == "value = super().render_literal_value(value, type_)"
        and ast.unparse(b[-1]) == "return value"
    ):
        _fail("render_literal_value override is not `value = super()...; ...; return value`", fn)
    return _replace_block(b[1:-1], "value")


def _coq_str(cps):
    return "[" + "; ".join(str(c) for c in cps) + "]"


def _coq_repls(rs):
    return "[" + "; ".join("mkRepl %s %d %s" % (c, f, _coq_str(t)) for c, f, t in rs) + "]"


def t1_facts(_arg=None):
    """runs in the implementation interpreter: flags and tokens of the live dialect objects"""
    import unicodedata

    from sqlalchemy.dialects import mssql, mysql, oracle, postgresql, sqlite

    mods = [sqlite, postgresql, mysql, mssql, oracle]
    out = {"dialects": [], "dp": [], "compiler_has_rlv": []}
    for m in mods:
        d = m.dialect()
        comp = d.statement_compiler(d, None)
        out["dialects"].append(
            {
                "paramstyle": d.paramstyle,
                "bs": bool(getattr(d, "_backslash_escapes", False)),
                "dp": bool(d.identifier_preparer._double_percents),
                "true": comp.visit_true(None),
                "false": comp.visit_false(None),
            }
        )
        # which class in the compiler's MRO below SQLCompiler defines render_literal_value
        owners = [k.__name__ for k in type(comp).__mro__ if "render_literal_value" in k.__dict__]
        out["compiler_has_rlv"].append(owners)
    for ps in PARAMSTYLES:
        vals = set()
        for m in mods:
            vals.add(bool(m.dialect(paramstyle=ps).identifier_preparer._double_percents))
        if len(vals) != 1:
            raise RuntimeError("_double_percents for paramstyle %s differs between dialects" % ps)
        out["dp"].append(vals.pop())
    out["ws"] = [c for c in range(0x110000) if chr(c).isspace()]
    zeros = [c for c in range(0x110000) if unicodedata.decimal(chr(c), None) == 0]
    alld = [c for c in range(0x110000) if unicodedata.decimal(chr(c), None) is not None]
    if len(alld) != 10 * len(zeros) or not all(
        unicodedata.decimal(chr(z + i), None) == i for z in zeros for i in range(10)
    ):
        raise RuntimeError("decimal digits are not runs of ten")
    out["zeros"] = zeros
    return out


def translate(repo, outdir):
    from translate import fingerprint
    from vlib import implcall

    fingerprint.check(repo, PIN_ANCHORS, "C05")
    try:
        trees = {}
        for rel, _ in T2_ANCHORS:
            with open(os.path.join(repo, rel)) as f:
                trees[rel] = ast.parse(f.read())
        nodes = [fingerprint.find_node(trees[rel], qn) for rel, qn in T2_ANCHORS]
        s_repl, s_open, s_close = _extract_string_processor(nodes[0])
        u_repl, u_open, u_close = _extract_string_processor(nodes[1])
        my_repl = _extract_dialect_rlv(nodes[2])
        pg_repl = _extract_dialect_rlv(nodes[3])
    except _TE as e:
        raise fingerprint.TranslateError(str(e))
    f = implcall.call("specs.c05", "t1_facts")
    want_owners = [
        ["SQLCompiler"],
        ["PGCompiler", "SQLCompiler"],
        ["MySQLCompiler", "SQLCompiler"],
        ["SQLCompiler"],  # (only MSSQLStrictCompiler, which the default dialect does not use, overrides it)
        ["SQLCompiler"],
    ]
    got = f["compiler_has_rlv"]
    if got != want_owners:
        raise fingerprint.TranslateError(
            "C05 translate: render_literal_value is defined by %r, the model expects %r" % (got, want_owners)
        )
    ds = f["dialects"]
    for d in ds:
        if d["paramstyle"] not in PARAMSTYLES:
            raise fingerprint.TranslateError("C05 translate: unknown paramstyle %r" % d["paramstyle"])

    def per_dialect(fn):
        return "match d with " + " ".join("| %s => %s" % (COQ_DIALECTS[i], fn(i)) for i in range(5)) + " end"

    bb = lambda v: "true" if v else "false"
    lines = [
        "(* GENERATED by specs/c05.py translate(): ast of the literal processors + live dialect objects *)",
        "From Coq Require Import List NArith Bool.",
        "Import ListNotations.",
        "From SAV.sql Require Import Literal LiteralStrProofs.",
        "Open Scope N_scope.",
        "",
        "(* String.literal_processor: the .replace() calls in program order, and the quote template *)",
        "Definition gen_string_replaces : list repl := %s." % _coq_repls(s_repl),
        "Definition gen_string_open : str := %s." % _coq_str(s_open),
        "Definition gen_string_close : str := %s." % _coq_str(s_close),
        "(* mssql _UnicodeLiteral.literal_processor *)",
        "Definition gen_unicode_replaces : list repl := %s." % _coq_repls(u_repl),
        "Definition gen_unicode_open : str := %s." % _coq_str(u_open),
        "Definition gen_unicode_close : str := %s." % _coq_str(u_close),
        "(* render_literal_value overrides of the dialect compilers *)",
        "Definition gen_dialect_replaces (d : dialect) : list repl := %s."
        % per_dialect(lambda i: _coq_repls(pg_repl) if i == 1 else _coq_repls(my_repl) if i == 2 else "[]"),
        "(* live dialect objects *)",
        "Definition gen_default_paramstyle (d : dialect) : paramstyle := %s."
        % per_dialect(lambda i: COQ_PARAMSTYLES[PARAMSTYLES.index(ds[i]["paramstyle"])]),
        "Definition gen_default_bs (d : dialect) : bool := %s." % per_dialect(lambda i: bb(ds[i]["bs"])),
        "Definition gen_default_dp (d : dialect) : bool := %s." % per_dialect(lambda i: bb(ds[i]["dp"])),
        "Definition gen_dp (p : paramstyle) : bool := match p with %s end."
        % " ".join("| %s => %s" % (COQ_PARAMSTYLES[i], bb(f["dp"][i])) for i in range(6)),
        "Definition gen_bool_tokens (d : dialect) : str * str := %s."
        % per_dialect(lambda i: "(%s, %s)" % (_coq_str(S(ds[i]["true"])), _coq_str(S(ds[i]["false"])))),
        "(* CPython: str.isspace() code points, zero digits of the decimal-digit runs *)",
        "Definition gen_ws_points : list N := %s." % _coq_str(f["ws"]),
        "Definition gen_digit_zeros : list N := %s." % _coq_str(f["zeros"]),
        "",
        "Lemma gen_string_replaces_ok : gen_string_replaces = string_replaces.",
        "Proof. reflexivity. Qed.",
        "Lemma gen_string_template_ok :",
        "  (gen_string_open, gen_string_close) = (string_prefix false ++ [39], [39]).",
        "Proof. reflexivity. Qed.",
        "Lemma gen_unicode_replaces_ok : gen_unicode_replaces = string_replaces.",
        "Proof. reflexivity. Qed.",
        "Lemma gen_unicode_template_ok :",
        "  (gen_unicode_open, gen_unicode_close) = (string_prefix true ++ [39], [39]).",
        "Proof. reflexivity. Qed.",
        "Lemma gen_dialect_replaces_ok : forall d, gen_dialect_replaces d = dialect_replaces d.",
        "Proof. destruct d; reflexivity. Qed.",
        "Lemma gen_defaults_ok : forall d,",
        "  (gen_default_paramstyle d, gen_default_bs d) = (default_paramstyle d, default_bs d).",
        "Proof. destruct d; reflexivity. Qed.",
        "Lemma gen_dp_ok : forall p, gen_dp p = dp_of_paramstyle p.",
        "Proof. destruct p; reflexivity. Qed.",
        "Lemma gen_default_dp_ok : forall d, gen_default_dp d = f_dp (default_flags d).",
        "Proof. destruct d; reflexivity. Qed.",
        "Lemma gen_bool_tokens_ok : forall d, gen_bool_tokens d = (bool_text d true, bool_text d false).",
        "Proof. destruct d; reflexivity. Qed.",
        "Lemma gen_cpython_tables_ok : gen_ws_points = ws_points /\\ gen_digit_zeros = digit_zeros.",
        "Proof. split; reflexivity. Qed.",
        "",
        "(* the round trip, for the replace lists and flags the code has NOW *)",
        "Theorem gen_c05_roundtrip_defaults : forall d t s rest,",
        "  no_quote_prefix rest ->",
        "  let fl := mkFlags (gen_default_dp d) (gen_default_bs d) in",
        "  lex_str (server d fl)",
        "    (driver fl (apply_repls fl (gen_dialect_replaces d)",
        "       ((if unicode_n d t s then gen_unicode_open else gen_string_open)",
        "        ++ apply_repls fl (if unicode_n d t s then gen_unicode_replaces else gen_string_replaces) s",
        "        ++ (if unicode_n d t s then gen_unicode_close else gen_string_close)) ++ rest))",
        "  = Some (s, driver fl rest).",
        "Proof.",
        "  intros d t s rest Hr fl.",
        "  assert (E : fl = default_flags d) by (destruct d; reflexivity).",
        "  rewrite gen_dialect_replaces_ok, gen_unicode_replaces_ok, gen_string_replaces_ok, E.",
        "  assert (H := string_literal_roundtrip d (default_flags d) (unicode_n d t s) s rest",
        "                 (unicode_n_mssql d t s) Hr).",
        "  unfold render_string, string_process in H.",
        "  destruct (unicode_n d t s); exact H.",
        "Qed.",
        "Print Assumptions gen_c05_roundtrip_defaults.",
        "",
    ]
    path = os.path.join(outdir, "Gen_C05.v")
    with open(path, "w") as fh:
        fh.write("\n".join(lines))
    return [path]


# ====================================================================== Python transcription of the lexers
# (the oracle's own statement of "one token, denotes the value, remainder untouched"; compared with
#  the Coq lexers by the 'pylex' families so the two transcriptions cannot drift apart)
def py_collapse(s):
    out = []
    i = 0
    while i < len(s):
        if s[i] == "%" and i + 1 < len(s) and s[i + 1] == "%":
            out.append("%")
            i += 2
        else:
            out.append(s[i])
            i += 1
    return "".join(out)


def _esc_dec(em, c):
    if em == 1:  # MySQL
        tab = {"0": "\0", "b": "\b", "n": "\n", "r": "\r", "t": "\t", "Z": "\x1a"}
        if c in tab:
            return tab[c]
        if c in "%_":
            return "\\" + c
        return c
    if em == 2:  # PostgreSQL, standard_conforming_strings = off
        tab = {"b": "\b", "f": "\f", "n": "\n", "r": "\r", "t": "\t"}
        if c in tab:
            return tab[c]
        if c in "01234567xuU":
            return None
        return c
    return None


def py_lex_str(em, nprefix, s):
    """-> (denoted string, remainder) or None"""
    if s[:1] == "'":
        i = 1
    elif s[:2] == "N'" and nprefix:
        i = 2
    else:
        return None
    out = []
    n = len(s)
    while True:
        if i >= n:
            return None
        c = s[i]
        if c == "'":
            if i + 1 < n and s[i + 1] == "'":
                out.append("'")
                i += 2
                continue
            return "".join(out), s[i + 1 :]
        if c == "\\" and em != 0:
            if i + 1 >= n:
                return None
            d = _esc_dec(em, s[i + 1])
            if d is None:
                return None
            out.append(d)
            i += 2
            continue
        out.append(c)
        i += 1


def _isdig(c):
    return "0" <= c <= "9"


def _idchar(c):
    return _isdig(c) or "A" <= c <= "Z" or "a" <= c <= "z" or c in "_$" or ord(c) >= 128


def _follow_ok(rest):
    return rest == "" or not (_idchar(rest[0]) or rest[0] == ".")


def _span(s, i):
    j = i
    while j < len(s) and _isdig(s[j]):
        j += 1
    return j


def py_lex_num(s):
    i = _span(s, 0)
    ip = i
    fp = 0
    if i < len(s) and s[i] == ".":
        j = _span(s, i + 1)
        fp = j - (i + 1)
        if ip == 0 and fp == 0:
            return None
        i = j
    elif ip == 0:
        return None
    if i < len(s) and s[i] in "eE":
        k = i + 1
        if k < len(s) and s[k] in "+-":
            k += 1
        j = _span(s, k)
        if j == k:
            return None
        i = j
    if not _follow_ok(s[i:]):
        return None
    return s[:i], s[i:]


def py_lex_signed(s):
    if s[:1] in ("+", "-") and s:
        r = py_lex_num(s[1:])
        return None if r is None else (s[0] + r[0], r[1])
    if not s:
        return None
    return py_lex_num(s)


def py_sql_numeric(text):
    r = py_lex_signed(text)
    return r is not None and r[1] == ""


# ====================================================================== generation
CONFIGS = [
    (0, 2, 6), (0, 2, 6), (0, 2, 6), (0, 2, 2), (0, 2, 1), (0, 2, 3), (0, 2, 4), (0, 1, 6),
    (1, 2, 6), (1, 1, 6), (1, 0, 0), (1, 1, 5), (1, 2, 1),
    (2, 2, 6), (2, 0, 6), (2, 1, 0), (2, 1, 2),
    (3, 2, 6), (3, 2, 2), (3, 1, 0),
    (4, 2, 6), (4, 2, 1), (4, 1, 6),
]
# quick tier: the exhaustive small-string sweep uses one configuration per code path
SMALL_CONFIGS = [
    (0, 2, 6), (0, 2, 2), (0, 2, 4), (1, 2, 6), (1, 1, 6), (1, 1, 5), (2, 2, 6), (2, 0, 6), (2, 1, 0), (3, 2, 6),
    (3, 2, 2), (4, 2, 6), (4, 2, 1),
]
STR_POS = [0, 1, 3, 4, 5, 6, 7]
SMALL = "'\\%a, "
ATOMS = [
    "'", "''", "\\", "\\\\", "\\'", "'\\", "%", "%%", "%s", "%(x)s", ":", ":x", "?", "--", "/*", "*/", ";", " ",
    "\n", "\r", "\t", ", ", ",", "a", "N", "N'", "é", " ", "\U0001d4b3", '"', "$1", "__[POSTCOMPILE_zq]",
    "~~", "\x01", "\x7f", "0", "Z", "b", "n", "_", ")", "(", "' OR 1=1 --", "\\n", " ", "٠",
]
INTS = [0, 1, -1, 2, 9, 10, -10, 99, 100, 255, 2**31 - 1, 2**31, -(2**31), 2**63 - 1, -(2**63), 2**64, 10**30, -(10**30), 7, -5]
NUM_STR = [
    "0", "1", "-1", "+1", "1.5", "-1.50", "1.", ".5", "-.5", "1e5", "1E5", "1e+5", "1.5e-3", "0.000001", "123456.789",
    "NaN", "nan", "-NaN", "sNaN", "NaN123", "Infinity", "-Infinity", "inf", "-inf", "INF", "1_0", "_1", "1_", "1e_5",
    " 1", "1 ", "\n1", "1 ", " 1", "١٢", "１", "1e", "e5", ".", "", "abc", "1;DROP", "1 0",
    "--1", "+-1", "1,0", "0x10", "1e5e5", "1..2", "infinit", "na", "1'", "1\\", "1%",
]
NUM_FLOAT = ["0.0", "-0.0", "1.5", "-1.5", "0.1", "1e-07", "1e+16", "123456.789", "2.5e-05", "-3.0", "inf", "-inf", "nan", "1e+20", "0.30000000000000004"]
NUM_DEC = ["0", "1.10", "-1.10", "1E+3", "0E-7", "-0", "12345.678", "NaN", "-NaN", "sNaN", "Infinity", "-Infinity", "NaN123", "1.5E-10"]
NUM_INT = ["0", "7", "-7", "1000000"]


# the pre-expanded text of the post-compile family's statement on the default SQLite dialect (the
# implementation side checks that this is what the compiler produces)
PRE6 = (
    "SELECT d.id \nFROM d \nWHERE d.a = __[POSTCOMPILE_zq] AND d.b IN (__[POSTCOMPILE_x]) "
    "AND d.b != __[POSTCOMPILE_y] ORDER BY d.id"
)


def _rstr(rng, maxn=8):
    n = rng.choice([0, 1, 1, 2, 2, 3, 4, 5, maxn])
    return "".join(rng.choice(ATOMS) for _ in range(n))


def _v_str(s):
    return [1, S(s)]


def _case(cfg, mode, pos, ty, vals, kind):
    return {"in": [0, list(cfg), mode, pos, ty, vals], "kind": kind}


def _rdate(rng):
    y = rng.choice([1, 9, 99, 999, 1000, 1999, 2020, 2024, 9999])
    m = rng.randint(1, 12)
    d = rng.randint(1, 28)
    return [y, m, d]


def _rtime(rng):
    return [rng.choice([0, 3, 12, 23]), rng.choice([0, 4, 59]), rng.choice([0, 5, 59]), rng.choice([0, 0, 1, 6, 500000, 999999, 100])]


# further witnesses of known findings, run on every check (the findings file carries one witness each)
EXTRA_WITNESSES = [
    # C05-numeric-paramstyle-pyformat-in-literal reached through the IN list of a bind_expression type
    # (numeric_dollar, literal_execute): KeyError 'x'
    {"in": [0, [1, 1, 5], 1, 9, 0, [[1, [39, 39, 44, 32, 39]], [1, [97, 44, 32, 98]], [1, [37, 40, 120, 41, 115]]]],
     "kind": "witness2"},
]


def gen_cases(rng, tier):
    big = tier == "thorough"
    cases = [dict(w) for w in EXTRA_WITNESSES]
    # --- exhaustive small strings
    smalls = [""] + [a for a in SMALL] + [a + b for a in SMALL for b in SMALL]
    k = 0
    for cfg in sorted(set(CONFIGS)) if big else SMALL_CONFIGS:
        for s in smalls:
            for mode in (0, 1) if big else (k % 2,):
                if big:
                    poss = STR_POS
                else:
                    poss = [STR_POS[k % len(STR_POS)]]
                    k += 1
                for pos in poss:
                    cases.append(_case(cfg, mode, pos, (k + mode) % 3, [_v_str(s)], "small-str"))
    # --- random strings in every position
    for _ in range(6000 if big else 380):
        cfg = rng.choice(CONFIGS)
        cases.append(_case(cfg, rng.randint(0, 1), rng.choice(STR_POS), rng.randint(0, 2), [_v_str(_rstr(rng))], "rand-str"))
    # --- IN lists
    for _ in range(3000 if big else 200):
        cfg = rng.choice(CONFIGS)
        vals = [_v_str(_rstr(rng, 5)) for _ in range(rng.randint(1, 4))]
        cases.append(_case(cfg, rng.randint(0, 1), 2, rng.randint(0, 1), vals, "in-list"))
    for _ in range(1500 if big else 120):
        cfg = rng.choice(CONFIGS)
        vals = [_v_str(rng.choice(["a", "A b", "x,y", "q'", "%", "\\", "a, b", ", ", "p, q, r", "'', '"]) if rng.random() < 0.6 else _rstr(rng, 3)) for _ in range(rng.randint(1, 3))]
        cases.append(_case(cfg, rng.randint(0, 1), 9, 0, vals, "in-list-bind-expression"))
    # --- integers (Integer type), booleans, None
    for z in INTS:
        for cfg in rng.sample(sorted(set(CONFIGS)), 3 if not big else 12):
            for pos in (0, 1, 3, 8, 10):
                if pos == 8 and (cfg[0] == 3 or z < 0 or z > 2**31 or (cfg[0] == 0 and cfg[2] in (4, 5))):
                    continue
                cases.append(_case(cfg, rng.randint(0, 1), pos, 3, [[2, z]], "int"))
    for _ in range(400 if big else 60):
        cfg = rng.choice(CONFIGS)
        z = rng.choice([rng.randint(-1000, 1000), rng.randint(-(2**70), 2**70)])
        cases.append(_case(cfg, rng.randint(0, 1), rng.choice([0, 1, 3, 10]), 3, [[2, z]], "int"))
        cases.append(_case(cfg, rng.randint(0, 1), 2, 3, [[2, rng.randint(-50, 50)] for _ in range(rng.randint(1, 4))], "int-in"))
    for cfg in sorted(set(CONFIGS)):
        for b in (0, 1):
            cases.append(_case(cfg, rng.randint(0, 1), rng.choice([0, 1, 3]), 4, [[3, b]], "bool"))
            cases.append(_case(cfg, rng.randint(0, 1), rng.choice([0, 1, 3]), 3, [[3, b]], "bool-as-int"))
        for ty in (0, 3, 4, 5, 7, 9):
            cases.append(_case(cfg, rng.randint(0, 1), rng.choice([0, 3, 4]), ty, [[0]], "none"))
    # --- Numeric / Float
    pool = [(0, t) for t in NUM_STR] + [(1, t) for t in NUM_FLOAT] + [(2, t) for t in NUM_DEC] + [(3, t) for t in NUM_INT]
    for kd, text in pool:
        cfgs = [(0, 2, 6)] + rng.sample(sorted(set(CONFIGS)), 2 if not big else 8)
        for cfg in cfgs:
            ty = 6 if kd == 1 else 5
            cases.append(_case(cfg, rng.randint(0, 1), rng.choice([0, 1, 3]), ty, [[4, [kd, S(text)]]], "numeric"))
    for kd, text in [(1, "-1.5"), (2, "-2.50"), (0, "-3"), (1, "1.5"), (0, "+4")]:
        for cfg in [(0, 2, 6), (1, 2, 6), (2, 2, 6)]:
            cases.append(_case(cfg, 0, 10, 6 if kd == 1 else 5, [[4, [kd, S(text)]]], "numeric-neg"))
    # --- non-str Python values whose literal is a quoted string (TypeDecorator over String)
    for cfg in sorted(set(CONFIGS)) if big else SMALL_CONFIGS:
        for sv in ["\\", "\\' OR 1=1 -- ", "C:\\temp\\new", "it's", "trailing\\", "50%", "plain", "\\\\'"]:
            cases.append(_case(cfg, rng.randint(0, 1), rng.choice(STR_POS), 10, [[8, S(sv)]], "obj-str"))
    for _ in range(1500 if big else 100):
        cfg = rng.choice(CONFIGS)
        if rng.random() < 0.3:
            cases.append(_case(cfg, rng.randint(0, 1), 2, 10, [[8, S(_rstr(rng, 4))] for _ in range(rng.randint(1, 3))], "obj-str"))
        else:
            cases.append(_case(cfg, rng.randint(0, 1), rng.choice(STR_POS), 10, [[8, S(_rstr(rng))]], "obj-str"))
    # --- post-compile substitution: string values that spell tokens of other parameters
    PCV = ["__[POSTCOMPILE_x]", "__[POSTCOMPILE_zq]", "__[POSTCOMPILE_y]", "__[POSTCOMPILE_nothing]",
           "__[POSTCOMPILE_x~~lower(~~REPL~~)~~]", " OR 1=1 OR ", "'", "", "a", "a, b", "?", "%(x)s", "__[", "]", "_",
           "x __[POSTCOMPILE_y] '", "__[POSTCOMPILE_x_1]"]
    for _ in range(3000 if big else 200):
        kind_x = rng.choice([1, 2])
        pick = lambda: rng.choice(PCV) if rng.random() < 0.8 else _rstr(rng, 3)
        bs = [[S("zq"), 0, [S(pick())]], [S("x"), kind_x, [S(pick()) for _ in range(rng.randint(1, 3))]], [S("y"), 0, [S(pick())]]]
        cases.append({"in": [6, [0, 2, 6], S(PRE6), bs], "kind": "postcompile"})
    # --- numeric paramstyle: executed on a SQLite engine with paramstyle="numeric" (oracle only)
    for v in ["%(x_1)s", "%(x_2)s", "%(zq)s", "plain", "%(x_1)", "100%", "a%(x_3)sb"]:
        for mode in (0, 1):
            cases.append({"in": [0, [0, 2, 4], mode, 11, 0, [_v_str(v)]], "kind": "numeric-paramstyle-exec", "model": False})
    for _ in range(300 if big else 40):
        v = "".join(rng.choice(["%(", "x", ")s", "%", "(", ")", "s", "zq", "_1", "'", " "]) for _ in range(rng.randint(1, 6)))
        cases.append(_case(rng.choice([(0, 2, 4), (1, 1, 5), (1, 2, 5), (0, 2, 5)]), rng.randint(0, 1), rng.choice(STR_POS + [2]), 0, [_v_str(v)], "numeric-paramstyle"))
    # --- dates and times
    for _ in range(2500 if big else 200):
        cfg = rng.choice(CONFIGS)
        which = rng.randint(0, 2)
        if which == 0:
            ty, v = 7, [5, _rdate(rng)]
        elif which == 1:
            ty, v = 8, [6, _rtime(rng)]
        else:
            ty, v = 9, [7, _rdate(rng) + _rtime(rng)]
        pos = rng.choice([0, 1, 3, 2])
        vals = [v] if pos != 2 else [v, v]
        cases.append(_case(cfg, rng.randint(0, 1), pos, ty, vals, "temporal"))
    # --- spec side: SQLite lexer on raw text
    RAW = ["'", "'", "''", "a", "\\", "%", " ", "\n", "N", "é", ":", "?", "'a'", "b"]
    for _ in range(5000 if big else 280):
        r = "".join(rng.choice(RAW) for _ in range(rng.randint(0, 7)))
        if rng.random() < 0.5:
            r = "'" + r + "'"
        cases.append({"in": [1, S(r)], "kind": "sqlite-lexer"})
    # --- spec side: decimal.Decimal acceptance
    DA = list("0123456789") + ["+", "-", ".", "e", "E", "_", " ", "\n", "n", "a", "N", "i", "f", "I", "s", "S", "t", "y", "inf", "nan", "NaN", "Infinity", "snan", "٠", " ", " ", "１", "x", ",", "'", "\x1c", "\x85", "\U0001d7ce"]
    for t in NUM_STR + NUM_DEC + NUM_FLOAT:
        cases.append({"in": [2, S(t)], "kind": "decimal-accepts"})
    for _ in range(6000 if big else 330):
        t = "".join(rng.choice(DA) for _ in range(rng.randint(0, 6)))
        cases.append({"in": [2, S(t)], "kind": "decimal-accepts"})
    # --- spec side: the oracle's Python lexers against the Coq lexers
    LX = ["'", "'", "''", "\\", "\\\\", "\\'", "a", "%", "N", "n", "0", "7", "x", "u", "Z", "_", " ", "é", "b", "t"]
    for _ in range(4000 if big else 230):
        r = "".join(rng.choice(LX) for _ in range(rng.randint(0, 7)))
        if rng.random() < 0.7:
            r = rng.choice(["'", "'", "N'"]) + r
        cases.append({"in": [3, rng.randint(0, 2), rng.randint(0, 1), S(r)], "kind": "pylex-str"})
    NX = list("0123456789") + ["+", "-", ".", "e", "E", "_", " ", "a", ")", ",", "$", "é"]
    for _ in range(3000 if big else 190):
        r = "".join(rng.choice(NX) for _ in range(rng.randint(0, 7)))
        cases.append({"in": [4, S(r)], "kind": "pylex-num"})
    for _ in range(1000 if big else 120):
        r = "".join(rng.choice(["%", "%", "%%", "a", "'", "s"]) for _ in range(rng.randint(0, 7)))
        cases.append({"in": [5, S(r)], "kind": "pylex-collapse"})
    return cases


def nontrivial(c):
    i = c["in"]
    if i[0] == 0:
        for v in i[5]:
            if v[0] in (1, 8) and any(ch in (39, 92, 37) or ch > 127 for ch in v[1]):
                return True
            if v[0] == 2 and v[1] < 0:
                return True
            if v[0] == 4 and not py_sql_numeric(unS(v[1][1])):
                return True
            if v[0] in (5, 6, 7):
                return True
        return i[3] in (9, 10)
    if i[0] == 6:
        return any(95 in v for b in i[3] for v in b[2])
    return 39 in i[-1] or i[0] in (2, 4)


# ====================================================================== implementation side
_ST = {}


def _setup():
    if _ST:
        return _ST
    import warnings

    import sqlalchemy as sa
    from sqlalchemy.dialects import mssql, mysql, oracle, postgresql, sqlite
    from sqlalchemy.types import TypeDecorator

    warnings.simplefilter("ignore")

    class Low(TypeDecorator):
        impl = sa.String
        cache_ok = True

        def bind_expression(self, bindvalue):
            return sa.func.lower(bindvalue)

    class Box:
        """a non-str Python value; the type below sends str(box) to the database"""

        def __init__(self, s):
            self.s = s

        def __str__(self):
            return self.s

        def __eq__(self, other):
            return isinstance(other, Box) and other.s == self.s

        def __hash__(self):
            return hash(self.s)

    class BoxType(TypeDecorator):
        impl = sa.String
        cache_ok = True

        def process_bind_param(self, value, dialect):
            return str(value) if value is not None else None

    md = sa.MetaData()
    dd = sa.Table("d", md, sa.Column("id", sa.Integer, primary_key=True), sa.Column("a", sa.String), sa.Column("b", sa.String))
    t = sa.Table(
        "t", md, sa.Column("id", sa.Integer, primary_key=True), sa.Column("s", sa.String), sa.Column("n", sa.Integer),
        sa.Column("f", sa.Float),
    )
    # no primary key: INSERT renders no RETURNING / OUT parameter on any dialect
    w = sa.Table("w", md, sa.Column("s", sa.String), sa.Column("n", sa.Integer), sa.Column("f", sa.Float))
    eng = sa.create_engine("sqlite://")
    md.create_all(eng)
    _ST.update(
        sa=sa, mods=[sqlite, postgresql, mysql, mssql, oracle], Low=Low, Box=Box, BoxType=BoxType, t=t, w=w, d=dd,
        eng=eng, md=md, dialects={}, pc={},
        conn=eng.connect(),
    )
    return _ST


def _numeric_conn():
    """a second SQLite engine using the 'numeric' paramstyle (:1, :2 ...)"""
    st = _setup()
    if "nconn" not in st:
        e2 = st["sa"].create_engine("sqlite://", paramstyle="numeric")
        st["md"].create_all(e2)
        st["nconn"] = e2.connect()
    return st["nconn"]


def _dialect(cfg):
    st = _setup()
    key = tuple(cfg)
    if key not in st["dialects"]:
        d, bs, ps = cfg
        kw = {} if ps == 6 else {"paramstyle": PARAMSTYLES[ps]}
        dia = st["mods"][d].dialect(**kw)
        if bs != 2:
            dia._backslash_escapes = bool(bs)
        st["dialects"][key] = dia
    return st["dialects"][key]


def _pyvalue(v):
    import datetime
    import decimal

    k = v[0]
    if k == 0:
        return None
    if k == 1:
        return unS(v[1])
    if k == 2:
        return v[1]
    if k == 3:
        return bool(v[1])
    if k == 4:
        kd, text = v[1][0], unS(v[1][1])
        if kd == 0:
            return text
        if kd == 1:
            return float(text)
        if kd == 2:
            return decimal.Decimal(text)
        return int(text)
    if k == 8:
        return _setup()["Box"](unS(v[1]))
    if k == 5:
        return datetime.date(*v[1])
    if k == 6:
        return datetime.time(*v[1])
    if k == 7:
        return datetime.datetime(*v[1])
    raise ValueError(v)


def _satype(ty):
    sa = _setup()["sa"]
    if ty == 10:
        return _setup()["BoxType"]()
    return [sa.String(), sa.Unicode(), None, sa.Integer(), sa.Boolean(), sa.Numeric(), sa.Float(), sa.Date(), sa.Time(), sa.DateTime()][ty]


def _column(ty):
    t = _setup()["t"]
    return t.c.n if ty in (3, 4) else t.c.f if ty in (5, 6) else t.c.s


def _stmt(pos, ty, vals, le):
    st = _setup()
    sa = st["sa"]
    t = st["w"] if pos in (3, 4) else st["t"]
    col = t.c.n if ty in (3, 4) else t.c.f if ty in (5, 6) else t.c.s
    pv = [_pyvalue(v) for v in vals]
    typ = _satype(ty)

    def bp():
        kw = {"literal_execute": le}
        if typ is not None:
            kw["type_"] = typ
        return sa.bindparam("zq", pv[0], **kw)

    if pos == 0:
        return sa.select(bp().label("x"))
    if pos == 1:
        return sa.select(t.c.id).where(col == bp()).order_by(t.c.id)
    if pos == 2:
        kw = {"literal_execute": le, "expanding": True}
        if typ is not None:
            kw["type_"] = typ
        return sa.select(t.c.id).where(col.in_(sa.bindparam("zq", pv, **kw))).order_by(t.c.id)
    if pos == 3:
        return t.insert().values({col.name: bp()})
    if pos == 4:
        return t.update().values({col.name: bp()})
    if pos == 5:
        return sa.select(sa.func.coalesce(col, bp())).order_by(t.c.id)
    if pos == 6:
        return sa.select(col).group_by(col).having(sa.func.max(col) == bp()).order_by(col)
    if pos == 7:
        return sa.select(t.c.id).order_by(col == bp(), t.c.id)
    if pos == 8:
        return sa.select(t.c.id).order_by(t.c.id).limit(bp())
    if pos == 9:
        return sa.select(t.c.id).where(
            t.c.s.in_(sa.bindparam("zq", pv, literal_execute=le, expanding=True, type_=st["Low"]()))
        ).order_by(t.c.id)
    if pos == 10:
        return sa.select((-bp()).label("x"))
    if pos == 11:
        # a second, expanding, parameter named x: its expansion keys are x_1, x_2
        return sa.select(t.c.id).where(col == bp()).where(t.c.id.in_(sa.bindparam("x", [1, 2, 3], expanding=True))).order_by(t.c.id)
    raise ValueError(pos)


PLACEHOLDER = re.compile(
    r"(?:\?|%\(zq\)s|%s|:zq|:1|\$1|__\[POSTCOMPILE_zq[^\]]*\])"
    r"(?:::(?:VARCHAR|INTEGER|BIGINT|SMALLINT|NUMERIC|FLOAT|DOUBLE PRECISION|BOOLEAN|DATE|TIME WITHOUT TIME ZONE|"
    r"TIMESTAMP WITHOUT TIME ZONE)(?:\(\d+(?:, *\d+)?\))?)?"
)
PYFORMAT = re.compile(r"%\(([^)]+?)\)s")
DEFAULT_PS = [0, 2, 1, 3, 3]  # default paramstyle of the five base dialects (checked by translate())
_CACHE = {}


def _render(inp):
    """-> dict(code=0|1|2, lit, pre, post, full)"""
    key = json.dumps(inp)
    if key in _CACHE:
        return _CACHE[key]
    _CACHE.clear()
    from sqlalchemy import exc

    _, cfg, mode, pos, ty, vals = inp
    dia = _dialect(cfg)
    bound = str(_stmt(pos, ty, vals, False).compile(dialect=dia))
    ms = list(PLACEHOLDER.finditer(bound))
    other_zero = False
    if pos == 8 and cfg[0] == 0 and ms:
        # SQLite always renders  LIMIT <our bind> OFFSET <literal(0)>
        other_zero = True
        ms = ms[:1]
    if len(ms) != 1:
        raise RuntimeError("harness: %d placeholders in %r" % (len(ms), bound))
    pre, post = bound[: ms[0].start()], bound[ms[0].end() :]
    if pos == 10:
        # operand of unary minus: the operator belongs to the observation ("-5" / "- -5")
        if not pre.endswith("-"):
            raise RuntimeError("harness: unary minus not found: %r" % bound)
        pre = pre[:-1]
    if pos in (2, 9):
        # (__[POSTCOMPILE_zq])  ->  the list stands between the parentheses
        if not (pre.endswith("(") and post.startswith(")")):
            raise RuntimeError("harness: expanding placeholder not parenthesised: %r" % bound)
    try:
        if mode == 0:
            full = str(_stmt(pos, ty, vals, False).compile(dialect=dia, compile_kwargs={"literal_binds": True}))
            if other_zero:
                post = re.sub(r" OFFSET \S+$", " OFFSET 0", post)
        else:
            full = str(_stmt(pos, ty, vals, True).compile(dialect=dia, compile_kwargs={"render_postcompile": True}))
    except exc.CompileError:
        r = {"code": 1}
        _CACHE[key] = r
        return r
    except KeyError as e:
        # SQLCompiler._process_numeric: param_pos[m.group(1)] for a %(name)s found in the text
        r = {"code": 3, "key": str(e)}
        _CACHE[key] = r
        return r
    if full.startswith(pre) and full.endswith(post) and len(full) >= len(pre) + len(post):
        r = {"code": 0, "lit": full[len(pre) : len(full) - len(post)], "pre": pre, "post": post, "full": full}
    else:
        r = {"code": 2, "full": full, "pre": pre, "post": post}
    _CACHE[key] = r
    return r


def _sqlite_lex(raw):
    import sqlite3

    st = _setup()
    try:
        rows = st["conn"].connection.dbapi_connection.execute("SELECT (" + raw + ")").fetchall()
    except (sqlite3.Error, ValueError, sqlite3.Warning):
        return [0]
    if len(rows) == 1 and len(rows[0]) == 1 and isinstance(rows[0][0], str):
        return [1, S(rows[0][0])]
    return [0]


def impl(c):
    inp = c["in"]
    fam = inp[0]
    if fam == 0:
        if inp[3] == 11:
            return [9]  # executed only (oracle); not compared with the model
        r = _render(inp)
        if r["code"] == 0:
            return [0, S(r["lit"])]
        return [r["code"]]
    if fam == 1:
        return _sqlite_lex(unS(inp[1]))
    if fam == 2:
        import decimal

        try:
            decimal.Decimal(unS(inp[1]))
            return [1]
        except (decimal.InvalidOperation, ValueError):
            return [0]
    if fam == 3:
        r = py_lex_str(inp[1], bool(inp[2]), unS(inp[3]))
        return [0] if r is None else [1, S(r[0]), S(r[1])]
    if fam == 4:
        r = py_lex_signed(unS(inp[1]))
        return [0] if r is None else [1, S(r[0]), S(r[1])]
    if fam == 5:
        return S(py_collapse(unS(inp[1])))
    if fam == 6:
        params, le_x = _pc_params(inp)
        comp = _pc_compiled(le_x)
        if comp.string != unS(inp[2]):
            return [2, S(comp.string)]
        try:
            es = comp._process_parameters_for_postcompile(comp.construct_params(params, _check=False))
        except KeyError:
            return [3]
        return [0, S(es.statement)]
    raise ValueError(fam)


def _pc_params(inp):
    bs = {unS(b[0]): b for b in inp[3]}
    params = {"zq": unS(bs["zq"][2][0]), "x": [unS(v) for v in bs["x"][2]], "y": unS(bs["y"][2][0])}
    return params, bs["x"][1] == 1


def _pc_stmt(le_scalar, le_x):
    st = _setup()
    sa, d = st["sa"], st["d"]
    return (
        sa.select(d.c.id)
        .where(d.c.a == sa.bindparam("zq", type_=sa.String, literal_execute=le_scalar))
        .where(d.c.b.in_(sa.bindparam("x", type_=sa.String, expanding=True, literal_execute=le_x)))
        .where(d.c.b != sa.bindparam("y", type_=sa.String, literal_execute=le_scalar))
        .order_by(d.c.id)
    )


def _pc_compiled(le_x):
    st = _setup()
    if le_x not in st["pc"]:
        st["pc"][le_x] = _pc_stmt(True, le_x).compile(dialect=st["eng"].dialect)
    return st["pc"][le_x]


def _pc_oracle(inp, obs):
    """the statement keeps its shape (every token became exactly the literal(s) of its own value) and
    returns the rows of the bound form"""
    st = _setup()
    params, le_x = _pc_params(inp)
    if obs == [3]:
        return "literal_execute: internal KeyError while substituting post-compile parameters"
    if obs[0] != 0:
        return None
    text = unS(obs[1])
    chunks = re.split(r"__\[POSTCOMPILE_(zq|x|y)\]", PRE6)
    pos = 0
    for i, ch in enumerate(chunks):
        if i % 2 == 0:
            if not text.startswith(ch, pos):
                return "literal_execute: the statement changed shape at %r (expected %r)" % (text[pos : pos + 50], ch[:40])
            pos += len(ch)
            continue
        vals = params[ch] if ch == "x" else [params[ch]]
        for j, v in enumerate(vals):
            if j:
                if not text.startswith(", ", pos):
                    return "literal_execute: IN list broken at %r" % text[pos : pos + 40]
                pos += 2
            if ch == "x" and not le_x:
                if not text.startswith("?", pos):
                    return "literal_execute: placeholder expected at %r" % text[pos : pos + 40]
                pos += 1
                continue
            lx = py_lex_str(0, False, text[pos:])
            if lx is None or lx[0] != v:
                return "literal_execute: parameter %s=%r is rendered as %r" % (ch, v[:40], text[pos : pos + 60])
            pos = len(text) - len(lx[1])
    if pos != len(text):
        return "literal_execute: trailing text %r" % text[pos : pos + 40]
    # live execution
    conn = st["conn"]
    d = st["d"]
    try:
        conn.exec_driver_sql("DELETE FROM d")
        avals = [params["zq"], "", "zz"]
        bvals = list(dict.fromkeys(params["x"] + [params["y"], "other", " OR 1=1 OR ", ""]))
        rows = [{"a": a, "b": b} for a in avals for b in bvals]
        conn.execute(d.insert(), rows)
        want = conn.execute(_pc_stmt(False, False), params).all()
        try:
            got = conn.execute(_pc_stmt(True, le_x), params).all()
        except Exception as e:
            return "bound statement returns %d rows, the literal_execute statement fails: %s" % (len(want), str(e).split("\n")[0][:120])
        if want != got:
            return "rows differ on SQLite: bound %r, literal_execute %r" % (want[:4], got[:6])
        return None
    finally:
        conn.rollback()


# ---------------------------------------------------------------------- the property, stated directly
def _server_mode(cfg):
    """(escape mode, N prefix) of the server the dialect's flag describes"""
    d, bs, _ = cfg
    if bs == 2:
        bs = 1 if d == 2 else 0  # documented server defaults: MySQL honours backslashes, PostgreSQL >= 9.1 does not
    em = 1 if (d == 2 and bs) else 2 if (d == 1 and bs) else 0
    return em, d == 3


def _norm(x):
    if isinstance(x, float) and x != x:
        return "nan"
    return x


def _sqlite_exec(inp, conn=None):
    """bound rows vs literal rows on SQLite; returns None (same) or a description"""
    st = _setup()
    sa = st["sa"]
    _, cfg, mode, pos, ty, vals = inp
    conn = conn or st["conn"]
    t = st["t"]
    col = _column(ty)
    pv = [_pyvalue(v) for v in vals]
    typ = _satype(ty)

    def reset():
        conn.exec_driver_sql("DELETE FROM t")
        conn.exec_driver_sql("DELETE FROM w")
        kw = {"type_": typ} if typ is not None else {}
        try:
            conn.execute(t.insert().values({"id": 1, col.name: sa.bindparam("a", pv[0], **kw)}))
        except Exception:
            conn.rollback()
            conn.exec_driver_sql("DELETE FROM t")
        extra = {"s": "zz", "n": 7, "f": 1.25}
        conn.execute(t.insert(), [{"id": 2, **extra}, {"id": 3, "s": None, "n": None, "f": None}])
        if pos == 8:
            conn.execute(t.insert(), [{"id": 10 + i, **extra} for i in range(12)])
        if pos == 4:
            conn.execute(st["w"].insert(), [extra, {"s": None, "n": None, "f": None}])

    def run(kind):
        reset()
        if kind == "bound":
            res = conn.execute(_stmt(pos, ty, vals, False))
        elif mode == 0:
            sql = str(_stmt(pos, ty, vals, False).compile(conn.engine, compile_kwargs={"literal_binds": True}))
            res = conn.exec_driver_sql(sql)
        else:
            res = conn.execute(_stmt(pos, ty, vals, True))
        if res.returns_rows:
            out = [tuple(_norm(x) for x in r) for r in res.cursor.fetchall()]
        else:
            out = [tuple(_norm(x) for x in r) for r in conn.exec_driver_sql("SELECT s, n, f FROM w").fetchall()]
        return out

    try:
        try:
            want = run("bound")
        except Exception:
            return None  # the bound statement does not execute: nothing to compare with
        try:
            got = run("literal")
        except Exception as e:
            return "bound statement executes (%d rows) but the %s statement fails on SQLite: %s" % (
                len(want), "literal_binds" if mode == 0 else "literal_execute", str(e).split("\n")[0][:120])
        if want != got:
            return "rows differ on SQLite: bound %r, %s %r" % (want[:3], "literal_binds" if mode == 0 else "literal_execute", got[:3])
        return None
    finally:
        conn.rollback()


SQLWS = " \t\n\r\f"


def _same_number(a, b):
    import decimal

    try:
        x, y = decimal.Decimal(a), decimal.Decimal(b)
    except decimal.InvalidOperation:
        return False
    return x.is_finite() and y.is_finite() and x == y


def oracle(c, obs):
    inp = c["in"]
    if inp[0] == 6:
        return _pc_oracle(inp, obs)
    if inp[0] != 0:
        return None
    _, cfg, mode, pos, ty, vals = inp
    what = "literal_binds" if mode == 0 else "literal_execute"
    if pos == 11:
        return _sqlite_exec(inp, _numeric_conn() if cfg[2] == 4 else None)
    r = _render(inp)
    if r["code"] == 3:
        return "%s: internal KeyError %s while compiling a supported value (the %%(name)s pass of the numeric paramstyles ran over the literal)" % (what, r["key"])
    if r["code"] == 1:
        if all(v[0] == 4 and v[1][0] == 0 for v in vals):
            return None  # a str the Numeric type refuses: not a renderable value
        return "%s: a supported value could not be rendered (CompileError)" % what
    if r["code"] == 2:
        return "%s changed the statement outside the parameter: %r vs bound %r" % (what, r["full"][:160], (r["pre"] + "<P>" + r["post"])[:160])
    lit, post, pre = r["lit"], r["post"], r["pre"]
    # what the DBAPI does is a fact about the driver, not read from the code under test:
    # format / pyformat drivers apply  statement % parameters
    ps = cfg[2] if cfg[2] != 6 else DEFAULT_PS[cfg[0]]
    drv = py_collapse if ps in (1, 2) else (lambda x: x)
    em, npre = _server_mode(cfg)
    tail = drv(lit + post)
    dpost = drv(post)
    kinds = {v[0] for v in vals}

    def lex_one(text, v):
        """text starts with the literal of v; returns the remainder or a complaint (str starting with '!')"""
        k = v[0]
        if k == 0:
            return text[4:] if text.startswith("NULL") and not _idchar(text[4:5] or " ") else "!NULL expected"
        if k in (1, 8):
            lx = py_lex_str(em, npre, text)
            if lx is None:
                return "!the rendered text is not a string literal for the server: %r" % text[:80]
            if lx[0] != unS(v[1]):
                return "!the string literal denotes %r instead of %r" % (lx[0][:60], unS(v[1])[:60])
            return lx[1]
        if k in (2, 3) and ty == 3:
            want = int(v[1])
            lx = py_lex_signed(text)
            if lx is None or int(lx[0]) != want:
                return "!the integer literal does not denote %d: %r" % (want, text[:60])
            return lx[1]
        if k == 3:
            for tok, val in (("true", 1), ("false", 0), ("1", 1), ("0", 0)):
                if text.startswith(tok) and not _idchar(text[len(tok) : len(tok) + 1] or " "):
                    return text[len(tok) :] if val == v[1] else "!boolean literal %s for %r" % (tok, bool(v[1]))
            return "!not a boolean literal: %r" % text[:40]
        if k == 4:
            vt = unS(v[1][1])
            lx = py_lex_signed(text.lstrip(SQLWS))
            if lx is None:
                return "!the Numeric/Float value %r is rendered as %r which is not one numeric literal" % (vt, text[: max(len(vt), 12)])
            if not _same_number(lx[0], vt):
                return "!the numeric literal %r does not denote %r" % (lx[0], vt)
            return lx[1]
        if k in (5, 6, 7):
            import datetime

            p = text
            wrap = None
            for w in ("TO_DATE(", "TO_TIMESTAMP("):
                if p.startswith(w) and cfg[0] == 4:
                    wrap = w
                    p = p[len(w) :]
            lx = py_lex_str(em, npre, p)
            if lx is None:
                return "!the rendered date/time is not a string literal: %r" % text[:60]
            val = _pyvalue(v)
            try:
                if k == 5:
                    back = datetime.date.fromisoformat(lx[0])
                elif k == 6:
                    back = datetime.time.fromisoformat(lx[0])
                else:
                    back = datetime.datetime.fromisoformat(lx[0])
            except ValueError:
                return "!the date/time literal %r is not ISO" % lx[0]
            if back != val:
                return "!the date/time literal %r does not denote %r" % (lx[0], val)
            rest = lx[1]
            if wrap:
                m = re.match(r", '[A-Z0-9:\-\. ]*'\)", rest)
                if not m:
                    return "!unexpected text after the Oracle date literal: %r" % rest[:40]
                rest = rest[m.end() :]
            return rest
        return "!?"

    # the literal (list) must be tokens denoting the values, and the remainder must be untouched
    text = tail
    if pos == 10:
        # the unary operator, then the literal: "--" would start a comment
        if not text.startswith("-"):
            return "%s: the unary minus disappeared: %r" % (what, text[:40])
        if text.startswith("--"):
            return "%s: the literal %r follows the minus sign directly: '--' starts a comment" % (what, lit[1:20])
        text = text[1:].lstrip(" ")
    n = len(vals) if pos in (2, 9) else 1
    for i in range(n):
        if pos == 9:
            if not text.startswith("lower("):
                return "%s: element %d of the IN list does not start with the bind expression: %r" % (what, i, text[:60])
            text = text[6:]
        rest = lex_one(text, vals[i])
        if isinstance(rest, str) and rest.startswith("!"):
            return "%s: %s" % (what, rest[1:])
        if pos == 9:
            if not rest.startswith(")"):
                return "%s: the bind expression around element %d is not closed after the literal: %r" % (what, i, rest[:60])
            rest = rest[1:]
        if i + 1 < n:
            if not rest.lstrip(SQLWS).startswith(","):
                return "%s: IN list element %d is not followed by a comma: %r" % (what, i, rest[:40])
            rest = rest.lstrip(SQLWS)[1:].lstrip(SQLWS)
        text = rest
    if text != dpost and not (kinds == {4} and text.lstrip(SQLWS) == dpost.lstrip(SQLWS)):
        return "%s: the remainder of the statement changed: %r instead of %r" % (what, text[:80], dpost[:80])
    # a '-' in front of a literal starting with '-' begins a comment
    if pos != 10 and lit.startswith("-") and pre.endswith("-"):
        return "%s: the literal %r follows a minus sign: '--' starts a comment" % (what, lit[:20])
    # execution on the default SQLite dialect
    if cfg[0] == 0 and cfg[2] in (6, 0):
        return _sqlite_exec(inp)
    return None


def _decimal_ok(text):
    import decimal

    try:
        decimal.Decimal(text)
        return True
    except (decimal.InvalidOperation, ValueError):
        return False


def match_finding(c, what):
    inp = c["in"]
    if inp[0] != 0:
        return None
    _, cfg, mode, pos, ty, vals = inp
    if pos == 10 and all((v[0] == 2 and v[1] < 0) or (v[0] == 4 and unS(v[1][1]).startswith("-")) for v in vals):
        if "comment" in what or "fails on SQLite" in what or "not one numeric literal" in what:
            return "C05-negated-negative-literal-comment"
    ps = cfg[2] if cfg[2] != 6 else DEFAULT_PS[cfg[0]]
    strs = [unS(v[1]) for v in vals if v[0] in (1, 8)]
    # the %(name)s passes come first: they fail in every family whose values are rendered as literals
    # (by their error signature: KeyError under the numeric paramstyles, a changed value under qmark/format)
    if strs and PYFORMAT.search("', '".join(strs)):
        if ps in (4, 5) and ("KeyError" in what or pos == 11):
            return "C05-numeric-paramstyle-pyformat-in-literal"
        if ps in (0, 1) and mode == 0 and "KeyError" not in what:
            return "C05-positional-pass-rewrites-literal"
    if pos == 9 and mode == 1 and "KeyError" not in what and any(v[0] in (1, 8) and ", " in unS(v[1]) for v in vals):
        return "C05-literal-execute-bind-expression-split"
    if ty in (5, 6) and any(v[0] == 4 and not py_sql_numeric(unS(v[1][1])) for v in vals):
        bad = [v for v in vals if v[0] == 4 and not py_sql_numeric(unS(v[1][1]))]
        if all(v[1][0] == 1 and unS(v[1][1]) in ("inf", "-inf", "nan") for v in bad):
            return "C05-float-inf-nan-bare-word"
        if all(v[1][0] in (0, 2) and _decimal_ok(unS(v[1][1])) for v in bad):
            return "C05-numeric-text-not-a-literal"
    return None
