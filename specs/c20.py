"""C20 - database URLs round-trip through their string form."""
import json
import re

ID = "C20"
LEVEL = "proof"
PROPS = "props/C20.v"
RUNNER = ("SAV.sql.UrlRun", "run_case")
STATIC_MODULES = ["SAV.sql.UrlRun"]
RULE = (
    "op0 (URL.create -> render_as_string(hide_password=False) -> make_url, model vs impl on the rendered "
    "text AND on the parsed components): every URL-special character (@ : / ? # % + & = [ ] space newline "
    "NUL) and boundary code points (U+7F/80/7FF/800/FFFF/10000/10FFFF, surrogates) alone and embedded in "
    "each of username/password/host/database/query key/query value, with the other components all "
    "present and all absent; all 64 None/'' and None/simple presence patterns; random URLs with components "
    "weighted to those characters, tuple values of length 0..3, ports incl. 0/negative/huge, IPv6 hosts, "
    "invalid hosts and driver names.  op1/op6: make_url and the raw regex groups on random and mutated URL "
    "strings (model splitter vs Python re).  op2-5,7-10: the Gallina quote/quote_plus/unquote/parse_qsl/"
    "utf-8 decode/int/str/sort re-implementations vs CPython (all byte pairs over 25 boundary bytes, random "
    "percent strings).  non-trivial = an op0 URL with a special or non-ASCII character in some component"
)
TRUSTED = [
    "hand-written Gallina transcription of engine/url.py (URL.create, render_as_string, make_url, _parse_url; "
    "the regex as an explicit splitter), pinned to the normalised source and compared behaviourally on the "
    "rendered text, the regex groups and the parsed components",
    "Gallina re-implementations of urllib.parse.quote/quote_plus/unquote/parse_qsl, UTF-8 encode/decode "
    "('replace'), int()/str() and list.sort, validated against CPython 3.12 on every run",
    "per-run generated obligation: the safe= sets, keep_blank_values flag and keys.sort() extracted from the "
    "current source equal the model's constants",
]
ASSUMPTIONS = [
    "strings are sequences of code points; 'over the full unicode range' is read as Unicode scalar values "
    "(a lone surrogate cannot be UTF-8 encoded: quote() raises UnicodeEncodeError, modelled as a result)",
    "Python's \\w on non-ASCII code points is an arbitrary predicate uw (theorems hold for every uw); the "
    "executable instance knows the word status of the generator's pool only",
    "int()/str() are modelled for [+-]?[0-9]+ (no surrounding white space, '_' or non-ASCII digits, no "
    "4300-digit limit); the generator keeps port texts inside that class",
    "the password is a str (URL.create also accepts objects with __str__)",
    "URL equality is NamedTuple/dict equality: the query dict is compared without regard to insertion order",
]
ANCHORS = [
    ("lib/sqlalchemy/engine/url.py", "URL.create"),
    ("lib/sqlalchemy/engine/url.py", "URL._assert_port"),
    ("lib/sqlalchemy/engine/url.py", "URL._assert_none_str"),
    ("lib/sqlalchemy/engine/url.py", "URL._str_dict"),
    ("lib/sqlalchemy/engine/url.py", "URL.render_as_string"),
    ("lib/sqlalchemy/engine/url.py", "URL.__eq__"),
    ("lib/sqlalchemy/engine/url.py", "make_url"),
    ("lib/sqlalchemy/engine/url.py", "_parse_url"),
    ("lib/sqlalchemy/util/_collections.py", "to_list"),
]

# the regex of _parse_url as the model was written against it (used by the generator only, to keep
# port texts inside the modelled class of int(); the implementation side reads the live source)
_PINNED_PATTERN = r"""
            (?P<name>[\w\+]+)://
            (?:
                (?P<username>[^:/]*)
                (?::(?P<password>[^@]*))?
            @)?
            (?:
                (?:
                    \[(?P<ipv6host>[^/\?]+)\] |
                    (?P<ipv4host>[^/:\?]+)
                )?
                (?::(?P<port>[^/\?]*))?
            )?
            (?:/(?P<database>[^\?]*))?
            (?:\?(?P<query>.*))?
            """


# ---------------------------------------------------------------- translate (pin + T2-lite)
def translate(repo, outdir):
    import ast
    import os

    from translate import fingerprint

    fingerprint.check(repo, ANCHORS, "C20")
    path = os.path.join(repo, "lib/sqlalchemy/engine/url.py")
    with open(path) as f:
        tree = ast.parse(f.read())
    render = fingerprint.find_node(tree, "URL.render_as_string")
    parse = fingerprint.find_node(tree, "_parse_url")

    def fail(msg):
        raise fingerprint.TranslateError("C20 translator: " + msg)

    def name_of(f):
        return f.id if isinstance(f, ast.Name) else getattr(f, "attr", None)

    quotes = []
    plus = 0
    sorts = 0
    for n in ast.walk(render):
        if isinstance(n, ast.Call) and name_of(n.func) == "quote":
            if len(n.args) != 1 or len(n.keywords) != 1 or n.keywords[0].arg != "safe":
                fail("unexpected quote() call shape")
            k = n.keywords[0].value
            if not (isinstance(k, ast.Constant) and isinstance(k.value, str)):
                fail("safe= is not a string literal")
            quotes.append((n.lineno, n.col_offset, ast.unparse(n.args[0]), k.value))
        elif isinstance(n, ast.Call) and name_of(n.func) == "quote_plus":
            if len(n.args) != 1 or n.keywords:
                fail("unexpected quote_plus() call shape")
            plus += 1
        elif isinstance(n, ast.Call) and name_of(n.func) == "sort":
            if n.args or n.keywords or ast.unparse(n.func) != "keys.sort":
                fail("unexpected sort call")
            sorts += 1
    quotes.sort()
    if [q[2] for q in quotes] != ["self.username", "str(self.password)", "self.database"]:
        fail("quote() calls are not username/password/database: %r" % (quotes,))
    if plus != 2:
        fail("expected exactly two quote_plus() calls, found %d" % plus)
    kb = None
    for n in ast.walk(parse):
        if isinstance(n, ast.Call) and name_of(n.func) == "parse_qsl":
            if len(n.args) != 1 or kb is not None:
                fail("unexpected parse_qsl() call shape")
            kb = False
            for k in n.keywords:
                if k.arg == "keep_blank_values" and isinstance(k.value, ast.Constant) and isinstance(k.value.value, bool):
                    kb = k.value.value
                else:
                    fail("unexpected parse_qsl() keyword %s" % k.arg)
    if kb is None:
        fail("no parse_qsl() call")

    def cps(s):
        return "[" + "; ".join(str(ord(c)) for c in s) + "]%N"

    out = os.path.join(outdir, "C20_gen.v")
    with open(out, "w") as f:
        f.write(
            "(* generated from %s on every run *)\n"
            "From Coq Require Import List NArith Bool.\nImport ListNotations.\n"
            "From SAV.sql Require Import UrlCodec Url.\n"
            "Definition gen_safe_username : list N := %s.\n"
            "Definition gen_safe_password : list N := %s.\n"
            "Definition gen_safe_database : list N := %s.\n"
            "Definition gen_keep_blank_values : bool := %s.\n"
            "Definition gen_keys_sorted : bool := %s.\n"
            "Lemma c20_gen_constants_match_model :\n"
            "  (gen_safe_username, gen_safe_password, gen_safe_database, gen_keep_blank_values, gen_keys_sorted)\n"
            "  = (SAFE_USER, SAFE_USER, SAFE_DB, true, true).\n"
            "Proof. reflexivity. Qed.\n"
            % (
                path,
                cps(quotes[0][3]),
                cps(quotes[1][3]),
                cps(quotes[2][3]),
                "true" if kb else "false",
                "true" if sorts == 1 else "false",
            )
        )
    return [out]


# ---------------------------------------------------------------- generator
SPECIALS = "@:/?#%+&=[] \n\x00;"
BOUNDARY = [0x7F, 0x80, 0xA0, 0xE9, 0x7FF, 0x800, 0x20AC, 0xD7FF, 0xE000, 0xFFFD, 0xFFFF, 0x10000, 0x1F600, 0x10FFFF]
SURROGATES = [0xD800, 0xDFFF]
# non-ASCII pool with the status Python's \w gives it (mirrored by uw_pool in coq/sql/UrlRun.v)
POOL_WORD = [170, 223, 233, 241, 1635, 2048, 20013, 65536]
POOL_NONWORD = [0x80, 0xA0, 0x7FF, 0x20AC, 0xD7FF, 0xE000, 0xFFFD, 0xFFFF, 0x1F600, 0x10FFFF]
POOL = POOL_WORD + POOL_NONWORD


def _check_pool():
    for c in POOL_WORD:
        assert re.match(r"\w", chr(c)), c
    for c in POOL_NONWORD + SURROGATES:
        assert not re.match(r"\w", chr(c)), c


def _rstr(rng, maxlen=6, surrogate=0.01):
    n = rng.choice([0, 1, 1, 2, 2, 3, 4, maxlen])
    out = []
    for _ in range(n):
        x = rng.random()
        if x < 0.5:
            out.append(ord(rng.choice(SPECIALS)))
        elif x < 0.72:
            out.append(ord(rng.choice("abzAZ09_.-~")))
        elif x < 0.72 + surrogate:
            out.append(rng.choice(SURROGATES))
        elif x < 0.94:
            out.append(rng.choice(POOL))
        else:
            out += [ord(c) for c in rng.choice(["%41", "%zz", "%", "%4", "%C3%A9", "%c3", "%2B", "%2b", "%00"])]
    return out


def _some(s):
    return [s]


def _url(drv="x", user=None, pw=None, host=None, port=None, db=None, query=()):
    o = lambda v: [] if v is None else [v]
    return [drv, o(user), o(pw), o(host), o(port), o(db), [list(kv) for kv in query]]


def _cp(s):
    return [ord(c) for c in s] if isinstance(s, str) else list(s)


def _valid_host(rng):
    x = rng.random()
    if x < 0.3:
        return _cp(rng.choice(["h", "localhost", "db.example.com", "10.0.0.1", "h-1", "a b", "h#1", "%41", "h[1]"]))
    if x < 0.6:
        return _cp(rng.choice(["::1", "fe80::1%eth0", "2001:db8::ff00:42:8329", "a:b", ":", "a]:b", "[::1]", "]:"]))
    h = [c for c in _rstr(rng, 5, 0.03) if c not in (47, 63, 64)]
    if not h:
        h = [104]
    if 58 not in h and h[0] == 91:
        h = [104] + h
    return h


def _rand_url(rng, defects=True):
    drv = rng.choice(["x", "x", "postgresql+psycopg2", "a_b9", "sqlite", "Z+9_"])
    if rng.random() < 0.06:
        drv = rng.choice(["", "x-y", "x y", "x:", chr(233), chr(0x20AC) + "x", "x" + chr(20013), "+"])
    user = _rstr(rng) if rng.random() < 0.6 else None
    pw = _rstr(rng) if rng.random() < 0.5 else None
    if user is None and pw is not None and not (defects and rng.random() < 0.25):
        pw = None
    host = _valid_host(rng) if rng.random() < 0.7 else None
    if rng.random() < 0.06:
        host = _cp(rng.choice(["", "a/b", "a?b", "a@b", "[ab]", "[ab]c", "[ab", "[]", "[]a]", "u:p@h", "a@b:c"]))
    port = rng.choice([None, None, 0, 5, 5432, 65535, -1, -20, 10**20, 7]) if rng.random() < 0.6 else None
    db = _rstr(rng) if rng.random() < 0.6 else None
    q = []
    if rng.random() < 0.7:
        keys = []
        for _ in range(rng.choice([1, 1, 2, 3])):
            k = _rstr(rng, 4)
            if k in keys:
                continue
            keys.append(k)
            x = rng.random()
            if x < 0.55:
                v = [0, _rstr(rng)]
            else:
                n = rng.choice([2, 2, 3]) if not (defects and rng.random() < 0.3) else rng.choice([0, 1])
                vs = [_rstr(rng, 3) for _ in range(n)]
                if vs and rng.random() < 0.3:
                    vs[-1] = list(vs[0])  # repeated element
                v = [1, vs]
            q.append([k, v])
    return [_cp(drv), [] if user is None else [user], [] if pw is None else [pw], [] if host is None else [host],
            [] if port is None else [port], [] if db is None else [db], q]


def _int_modelled(p):
    try:
        int(p)
        ok = True
    except ValueError:
        ok = False
    return ok == bool(re.fullmatch(r"[+-]?[0-9]+", p, re.A)) and len(p) < 4000


_PAT = re.compile(_PINNED_PATTERN, re.X)


def _parse_ok_for_model(s):
    """keep a parse-direction string only if its port text is inside the modelled class of int()"""
    m = _PAT.match(s)
    if m is None:
        return True
    p = m.group("port")
    return p is None or p == "" or _int_modelled(p)


def _rand_urlstring(rng):
    drv = rng.choice(["x", "pg+d", "a_1", "", "x-y", chr(233) + "x", "x" + chr(0x20AC), "x y"])
    x = rng.random()
    if x < 0.5:
        # structured: optional pieces with noisy content
        def piece(alpha, n):
            return "".join(rng.choice(alpha) for _ in range(rng.randint(0, n)))

        a = "ab1@:/?[]%+&= #\n" + chr(233) + chr(0x20AC)
        s = drv + rng.choice(["://", "://", "://", ":/", ":", "//", ""])
        if rng.random() < 0.6:
            s += piece(a, 4)
            if rng.random() < 0.6:
                s += ":" + piece(a, 4)
            s += "@"
        if rng.random() < 0.7:
            s += rng.choice(["h", "[::1]", "[a]b]", "[]", "[", "h[", "a.b", "[x", "[a]:b", "]"]) + piece("a]:[", 2)
        if rng.random() < 0.5:
            s += ":" + rng.choice(["5", "5432", "", "-1", "+3", "abc", "5a", "007", "--1", "+", "-", "1]"])
        if rng.random() < 0.6:
            s += "/" + piece(a, 5)
        if rng.random() < 0.6:
            s += "?" + piece("ab=&+%41 \n;" + chr(233), 8)
        return s
    return drv + "://" + "".join(rng.choice("ab5@:/?[]%+&=# \n" + chr(233)) for _ in range(rng.randint(0, 10)))


def gen_cases(rng, tier):
    _check_pool()
    thorough = tier == "thorough"
    cases = []

    def add(kind, t):
        cases.append({"in": t, "kind": kind})

    # ---- op 0: small scope, systematic
    chars = [ord(c) for c in SPECIALS] + BOUNDARY + SURROGATES
    for ch in chars:
        for shape in ([ch], [97, ch, 98], [ch, ch]):
            for others in (False, True):
                base = dict(user=[117], pw=[112], host=[104], port=5, db=[100], query=[[[107], [0, [118]]]]) if others else {}
                for field in ("user", "pw", "db", "qkey", "qval", "qseq", "host"):
                    kw = dict(base)
                    if field == "qkey":
                        kw["query"] = [[shape, [0, [118]]]]
                    elif field == "qval":
                        kw["query"] = [[[107], [0, shape]]]
                    elif field == "qseq":
                        kw["query"] = [[[107], [1, [shape, [118], shape]]]]
                    elif field == "pw":
                        kw["pw"] = shape
                        kw.setdefault("user", [117])
                    else:
                        kw[field] = shape
                    add("small", [0, _url(**kw)])
    for mask in range(64):
        for val in ([], [97]):
            f = [val if mask >> i & 1 else None for i in range(6)]
            add("presence", [0, _url(user=f[0], pw=f[1], host=f[2], port=(3 if f[3] is not None else None), db=f[4],
                                     query=[[val, [0, val]]] if f[5] is not None else [])])
    # the defects (known findings) and their neighbours
    add("defect", [0, _url(query=[[[97], [0, []]]])])  # blank value: repaired by 7ad97ba
    add("defect", [0, _url(query=[[[97], [1, [[120]]]]])])
    add("defect", [0, _url(query=[[[97], [1, []]]])])
    add("defect", [0, _url(pw=[112], host=[104])])
    add("defect", [0, _url(query=[[[97], [1, [[], []]]]])])
    add("defect", [0, _url(query=[[[], [0, []]]])])
    # key order: insertion order differs from sorted order
    add("order", [0, _url(query=[[[98], [0, [49]]], [[97], [1, [[50], [51]]]], [[97, 97], [0, [52]]], [[66], [0, []]]])])
    for _ in range(9000 if thorough else 900):
        add("random", [0, _rand_url(rng)])

    # ---- op 1 / op 6: parse direction on arbitrary strings
    n1 = 6000 if thorough else 400
    k = 0
    while k < n1:
        s = _rand_urlstring(rng)
        if not _parse_ok_for_model(s):
            continue
        k += 1
        add("parse", [1, _cp(s)])
        add("regex", [6, _cp(s)])
    for s in ["x://a:b", "x://a:b@", "x://@", "x://:@", "x://h:5/db?a=b@c", "x://u@h@i", "x://a@b:c@d", "x://[::1]:5/d",
              "x://[ab]c", "x://[a]b]:1", "x://[]", "x://[]a]", "x://h:", "x://h:x", "x://h/d?q\nr", "x://h/d\ne?q",
              "x://?", "x://?a", "x://?a=", "x://?=", "x://?&&a=1&&", "x://?a=1&a=2&a=3&b=&b", "x://u:p@h:007/d",
              "x://u%40:p%3A@h", "x://%ff@h", "x://%c3%a9:%C3@h/%E2%82", "x", "x:/", "x//", "://h", "x+y_9://", "x://a/b/c?d/e",
              "x://u:p:q@h", "x://u/v@h", "x://:5", "x://:5@h", "x://h:-5", "x://h:+5"]:
        add("parse", [1, _cp(s)])
        add("regex", [6, _cp(s)])

    # ---- spec-side validation against CPython
    for _ in range(2500 if thorough else 250):
        s = _rstr(rng, 8, 0.03)
        add("quote", [2, _cp(rng.choice([" +", " +/", "", " ", "/", "@:"])), s])
        add("quote_plus", [3, s])
    pct_alpha = "%%%%0123456789abcdefABCDEFgG+ =&" + chr(233) + chr(0x20AC)
    for _ in range(4000 if thorough else 400):
        s = "".join(rng.choice(pct_alpha) for _ in range(rng.randint(0, 12)))
        add("unquote", [4, _cp(s)])
    for _ in range(2500 if thorough else 350):
        s = "".join(rng.choice("ab=&&==+%412 ;" + chr(233)) for _ in range(rng.randint(0, 12)))
        add("parse_qsl", [5, rng.randint(0, 1), _cp(s)])
    for s in ["", "&", "=", "a", "a=", "=b", "a=b=c", "a=1&a=2", "a&b", "&&a=&&", "a=+%2B+", "%", "a=%"]:
        add("parse_qsl", [5, 0, _cp(s)])
        add("parse_qsl", [5, 1, _cp(s)])
    B = [0x00, 0x41, 0x7F, 0x80, 0x8F, 0x90, 0x9F, 0xA0, 0xBF, 0xC0, 0xC1, 0xC2, 0xDF, 0xE0, 0xE1, 0xEC, 0xED, 0xEE,
         0xEF, 0xF0, 0xF1, 0xF3, 0xF4, 0xF5, 0xFF]
    for a in B:
        add("utf8dec", [7, [a]])
        for b in B:
            add("utf8dec", [7, [a, b, 0x41]])
    if thorough:
        for a in B:
            for b in B:
                for c in B:
                    add("utf8dec", [7, [a, b, c]])
    for _ in range(6000 if thorough else 400):
        add("utf8dec", [7, [rng.choice(B) if rng.random() < 0.8 else rng.randint(0, 255) for _ in range(rng.randint(1, 7))]])
    for c in BOUNDARY + [0x24, 0xA2, 0x939, 0x10348]:  # well-formed encodings decode to themselves
        add("utf8dec", [7, list(chr(c).encode("utf-8")) + [0x41]])
    for s in ["0", "5", "-5", "+5", "007", "-0", "", "-", "+", "--1", "5a", "a", "12345678901234567890123", "+-1", "5-"]:
        add("int", [8, _cp(s)])
    for _ in range(40):
        add("int", [8, _cp("".join(rng.choice("0123456789+-a") for _ in range(rng.randint(0, 5))))])
    for z in [0, 1, 9, 10, 99, 100, 5432, 65535, -1, -10, -65536, 10**20, -(10**20)] + [rng.randint(-10**6, 10**6) for _ in range(30)]:
        add("str", [9, z])
    for _ in range(60):
        add("sort", [10, [_rstr(rng, 3) for _ in range(rng.randint(0, 5))]])
    return cases


def nontrivial(c):
    t = c["in"]
    if t[0] != 0:
        return False
    u = t[1]
    strs = [x[0] for x in (u[1], u[2], u[3], u[5]) if x]
    for k, v in u[6]:
        strs.append(k)
        strs += [v[1]] if v[0] == 0 else v[1]
    return any(ch > 127 or chr(ch) in SPECIALS for s in strs for ch in s)


# ---------------------------------------------------------------- implementation side
def _s(t):
    return "".join(chr(c) for c in t)


def _t(s):
    return [ord(c) for c in s]


def _url_tree(u):
    o = lambda v: [] if v is None else [_t(v)]
    q = []
    for k, v in u.query.items():
        q.append([_t(k), [0, _t(v)] if isinstance(v, str) else [1, [_t(e) for e in v]]])
    return [_t(u.drivername), o(u.username), o(u.password), o(u.host), [] if u.port is None else [u.port],
            o(u.database), q]


def _make(s):
    from sqlalchemy.engine.url import make_url
    from sqlalchemy.exc import ArgumentError

    try:
        return [0, _url_tree(make_url(s))]
    except ArgumentError:
        return [1]
    except ValueError:
        return [2]


_LIVE = {}


def _live_pattern():
    """the regex of _parse_url, taken from the source that is being checked"""
    if "p" not in _LIVE:
        import ast
        import inspect
        import textwrap

        from sqlalchemy.engine import url as url_mod

        tree = ast.parse(textwrap.dedent(inspect.getsource(url_mod._parse_url)))
        pats = [
            n.args[0].value
            for n in ast.walk(tree)
            if isinstance(n, ast.Call) and getattr(n.func, "attr", None) == "compile" and n.args
            and isinstance(n.args[0], ast.Constant) and isinstance(n.args[0].value, str)
        ]
        assert len(pats) == 1, "cannot locate the regex of _parse_url"
        _LIVE["p"] = re.compile(pats[0], re.X)
    return _LIVE["p"]


def impl(c):
    import urllib.parse as up

    t = c["in"]
    op = t[0]
    if op == 0:
        from sqlalchemy.engine.url import URL

        d, us, pw, ho, po, db, q = t[1]
        o = lambda v: None if not v else _s(v[0])
        query = {}
        for k, v in q:
            query[_s(k)] = _s(v[1]) if v[0] == 0 else tuple(_s(e) for e in v[1])
        u = URL.create(_s(d), username=o(us), password=o(pw), host=o(ho), port=(po[0] if po else None),
                       database=o(db), query=query)
        try:
            s = u.render_as_string(hide_password=False)
        except UnicodeEncodeError:
            return [[3], [3]]
        return [[0, _t(s)], _make(s)]
    if op == 1:
        return _make(_s(t[1]))
    if op == 2:
        try:
            return [0, _t(up.quote(_s(t[2]), safe=_s(t[1])))]
        except UnicodeEncodeError:
            return [1]
    if op == 3:
        try:
            return [0, _t(up.quote_plus(_s(t[1])))]
        except UnicodeEncodeError:
            return [1]
    if op == 4:
        return _t(up.unquote(_s(t[1])))
    if op == 5:
        return [[_t(k), _t(v)] for k, v in up.parse_qsl(_s(t[2]), keep_blank_values=bool(t[1]))]
    if op == 6:
        m = _live_pattern().match(_s(t[1]))
        if m is None:
            return []
        g = m.groupdict()
        o = lambda v: [] if v is None else [_t(v)]
        return [[_t(g["name"]), o(g["username"]), o(g["password"]), o(g["ipv4host"] or g["ipv6host"]), o(g["port"]),
                 o(g["database"]), o(g["query"])]]
    if op == 7:
        return _t(bytes(t[1]).decode("utf-8", "replace"))
    if op == 8:
        try:
            return [0, int(_s(t[1]))]
        except ValueError:
            return [1]
    if op == 9:
        return _t(str(t[1]))
    if op == 10:
        return [_t(x) for x in sorted(_s(k) for k in t[1])]
    raise AssertionError("unknown op")


# ---------------------------------------------------------------- the property itself
def _scalar(s):
    return all(not (0xD800 <= ch <= 0xDFFF) for ch in s)


def _host_valid(h):
    """'syntactically valid host' as the check reads it: non-empty, none of / ? @, and a host without ':'
    does not start with '[' (it is written without brackets and would read as a bracketed literal)"""
    return len(h) > 0 and not any(ch in (47, 63, 64) for ch in h) and (58 in h or h[0] != 91)


def in_domain(u):
    d, us, pw, ho, po, db, q = u
    if not d or not all(chr(ch) in "ABCDEFGHIJKLMNOPQRSTUVWXYZabcdefghijklmnopqrstuvwxyz0123456789_+" for ch in d):
        return False
    for x in (us, pw, db):
        if x and not _scalar(x[0]):
            return False
    for k, v in q:
        if not _scalar(k) or not all(_scalar(e) for e in ([v[1]] if v[0] == 0 else v[1])):
            return False
    if ho and not _host_valid(ho[0]):
        return False
    return True


def _qdict(q):
    return sorted([k, v] for k, v in q)


def _same_url(a, b):
    return a[:6] == b[:6] and _qdict(a[6]) == _qdict(b[6])


def oracle(c, obs):
    """make_url(url.render_as_string(hide_password=False)) == url for every URL of the property's domain"""
    t = c["in"]
    if t[0] != 0 or not in_domain(t[1]):
        return None
    r, p = obs
    if r[0] != 0:
        return "render_as_string raised (code %s) on a URL of the domain" % r[0]
    if p[0] != 0:
        return "make_url raised (code %s) on the rendered form %r" % (p[0], _s(r[1]))
    if not _same_url(p[1], t[1]):
        diff = [n for n, i in (("username", 1), ("password", 2), ("host", 3), ("port", 4), ("database", 5)) if p[1][i] != t[1][i]]
        if p[1][0] != t[1][0]:
            diff.insert(0, "drivername")
        if _qdict(p[1][6]) != _qdict(t[1][6]):
            diff.append("query")
        return "round trip through %r changes %s; parsed=%s" % (_s(r[1]), ", ".join(diff), json.dumps(p[1]))
    return None


def _expected_with_known_defects(u):
    """the URL the unchanged code is known to give back: which known defects explain the difference"""
    d, us, pw, ho, po, db, q = [list(x) if isinstance(x, list) else x for x in u]
    ids = []
    if pw and not us:
        pw = []
        ids.append("C20-password-without-username")
    q2 = []
    for k, v in q:
        if v[0] == 1 and len(v[1]) == 1:
            q2.append([k, [0, v[1][0]]])
            ids.append("C20-singleton-sequence-value")
        elif v[0] == 1 and len(v[1]) == 0:
            ids.append("C20-empty-sequence-value")
        else:
            q2.append([k, v])
    return [d, us, pw, ho, po, db, q2], ids


def match_finding(c, what):
    t = c["in"]
    if t[0] != 0:
        return None
    exp, ids = _expected_with_known_defects(t[1])
    if not ids:
        return None
    # the difference must be exactly the one the known defects produce
    if "; parsed=" not in what:
        return None
    parsed = json.loads(what.rsplit("; parsed=", 1)[1])
    return ids[0] if _same_url(parsed, exp) else None


LEVEL_TEXT = (
    "Machine-checked proof (Coq) over the Gallina transcription of URL.render_as_string / _parse_url and of "
    "the library functions they call: for every URL whose driver name matches [\\w+]+, whose host is "
    "syntactically valid, whose text components are Unicode scalar values (any of them, incl. every "
    "URL-special character), with any integer port, rendering never raises and parsing the rendered text "
    "gives back the same URL (query compared as a dict); the parse of an assembled string is componentwise "
    "(no text moves); UTF-8 and percent coding round-trip for all scalar values; the result of the round "
    "trip is characterised for every URL of the domain, three defects of the unchanged code are refuted by "
    "witness, and the guard is proved to exclude exactly the URLs that come back different."
)
LEVEL_NOTE = (
    "Trusted: Coq kernel; the hand transcription of url.py (source pin + generated constants obligation + "
    "behavioural correspondence on rendered text, regex groups and parsed components); the Gallina versions "
    "of urllib.parse/UTF-8/int/str/sort (validated against CPython on every run). No axioms."
)
TECHNIQUE = (
    "Coq proof (list induction, span/split lemmas, lia with Euclidean division for UTF-8, stdlib decimal "
    "round trip); source pin + generated constants; model/impl and model/CPython correspondence"
)
