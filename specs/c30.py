"""C30 - flush writes exactly the in-memory object graph to the database.

Case input (tree): [rels, ops]
  rels : [id, kind, a, b, o2m, flags]   kind 0: class a holds a foreign key to class b (many-to-one attribute on a
                                        if flags bit0, one-to-many collection on b if o2m; back_populates when both;
                                        flags bit1: cascade="all, delete-orphan" on the collection - oracle only;
                                        flags bit2: post_update=True - invisible in the model: same rows, other statements);
                                        kind 1: many-to-many a <-> b with backref
  ops  : [0, o, cls, v] o = cls(id=o+1, data=v); session.add(o)      [1, o, v] o.data = v
         [2, r, c, p|[]] set the parent of c along r (attribute or collection API, chosen by parity)
         [3, r, a, b] many-to-many append   [4, r, a, b] remove   [5, o] session.delete(o)   [6] flush
  an operation whose precondition (Flush.v [step]) fails is skipped on both sides.
"""
import itertools

ID = "C30"
LEVEL = "proof"
PROPS = "props/C30.v"
RUNNER = ("SAV.orm.FlushRun", "run_case")
STATIC_MODULES = ["SAV.orm.FlushRun"]
RULE = (
    "operation histories (<= 10 operations quick, <= 40 thorough, plus all histories of <= 3 operations after a "
    "flushed prefix) over schema families: one-to-many/many-to-one with backref, collection only, attribute only, "
    "adjacency list, three-level chain, two relationships between the same classes, many-to-many with backref; "
    "both the attribute and the collection API are used for the same logical operation. After EVERY flush the "
    "table contents (second look through the connection) are compared with the model database, at the end the "
    "graph loaded by a NEW session and the lifecycle state of every object. Oracle (the property itself, no "
    "model): the committed database reloaded in a new session vs the in-memory graph of the old one. "
    "non-trivial = the history has >= 2 flushes with a relationship or scalar change between them"
)
TRUSTED = [
    "hand-written Gallina model of what a flush writes: INSERT of every attribute, UPDATE of the attributes in "
    "committed_state whose value differs (_collect_update_commands), DELETE, foreign keys written only from "
    "relationship history (sync.populate / sync.clear through process_saves / process_deletes), children of a "
    "deleted parent cleared, secondary rows from collection history; pinned to the normalised source and compared "
    "behaviourally after every flush",
    "the attribute / backref event system (attributes.py, collections.py) is abstracted: the model's operations act "
    "on 'the parent of c along r'; C36/C37/C38 cover that layer",
    "SQLite is the referee for row contents",
]
ASSUMPTIONS = [
    "primary keys are supplied (database-generated in the auto:* families) and changed only in the composite "
    "natural key family (FlushSync.v: passive_updates=False, one key column per assignment, a key never collides "
    "with a key another parent has or had at the last flush); session.delete(o) only when every reference to o has been "
    "flushed and the referring relationships have their collection side (otherwise the ORM documents that the "
    "children keep their key); objects are not expunged; no rollback inside the history (C32/C33)",
    "autoflush off, expire_on_commit off (the in-memory graph stays what the operations made it)",
]
ANCHORS = [
    ("lib/sqlalchemy/orm/persistence.py", "_collect_insert_commands"),
    ("lib/sqlalchemy/orm/persistence.py", "_collect_update_commands"),
    ("lib/sqlalchemy/orm/persistence.py", "_collect_delete_commands"),
    ("lib/sqlalchemy/orm/sync.py", "_source_modified"),
    ("lib/sqlalchemy/orm/dependency.py", "_DetectKeySwitch._process_key_switches"),
    ("lib/sqlalchemy/orm/dependency.py", "_DetectKeySwitch._pks_changed"),
    ("lib/sqlalchemy/orm/persistence.py", "_post_update"),
    ("lib/sqlalchemy/orm/sync.py", "_populate"),
    ("lib/sqlalchemy/orm/sync.py", "_clear"),
    ("lib/sqlalchemy/orm/dependency.py", "_OneToManyDP.process_saves"),
    ("lib/sqlalchemy/orm/dependency.py", "_OneToManyDP.process_deletes"),
    ("lib/sqlalchemy/orm/dependency.py", "_OneToManyDP._synchronize"),
    ("lib/sqlalchemy/orm/dependency.py", "_ManyToOneDP.process_saves"),
    ("lib/sqlalchemy/orm/dependency.py", "_ManyToOneDP._synchronize"),
    ("lib/sqlalchemy/orm/dependency.py", "_ManyToManyDP.process_saves"),
    ("lib/sqlalchemy/orm/dependency.py", "_ManyToManyDP.process_deletes"),
    ("lib/sqlalchemy/orm/dependency.py", "_ManyToManyDP._synchronize"),
]


def translate(repo, outdir):
    from translate import fingerprint

    fingerprint.check(repo, ANCHORS, "C30")
    return []


# ---------------------------------------------------------------- schema families
def _fk(i, a, b, m2o=1, o2m=1, orphan=0, post=0):
    return [i, 0, a, b, o2m, m2o | orphan << 1 | post << 2]


def _mm(i, a, b):
    return [i, 1, a, b, 1, 1]


FAMILIES = {
    "o2m": (2, [_fk(0, 1, 0)]),
    "o2m-only": (2, [_fk(0, 1, 0, m2o=0)]),
    "m2o-only": (2, [_fk(0, 1, 0, o2m=0)]),
    "tree": (1, [_fk(0, 0, 0)]),
    "tree-o2m-only": (1, [_fk(0, 0, 0, m2o=0)]),
    "chain3": (3, [_fk(0, 1, 0), _fk(1, 2, 1)]),
    "two-rels": (2, [_fk(0, 1, 0), _fk(1, 1, 0, o2m=0)]),
    "m2m": (2, [_mm(0, 0, 1)]),
    "m2m-self": (1, [_mm(0, 0, 0)]),
    "mixed": (2, [_fk(0, 1, 0), _mm(1, 0, 1), _fk(2, 0, 0)]),
}
ORPHAN = (2, [_fk(0, 1, 0, orphan=1)])
# database-generated primary keys (the foreign key can only be synchronised after the parent's INSERT) and
# post_update relationships: the model is the same, the statement order the rows depend on is not
AUTOPK = {
    "auto:tree-post+next": (1, [_fk(0, 0, 0, m2o=0, post=1), _fk(1, 0, 0, o2m=0)]),
    "auto:tree+next": (1, [_fk(0, 0, 0), _fk(1, 0, 0, o2m=0)]),
    "auto:o2m-post": (2, [_fk(0, 1, 0, post=1), _fk(1, 0, 1, o2m=0)]),
    "auto:chain3": (3, [_fk(0, 1, 0), _fk(1, 2, 1)]),
    "auto:m2m": (2, [_mm(0, 0, 1)]),
}


# scripts that are always part of the run: one per mechanism that a random sample could miss
ALWAYS = [
    # post_update collection, the pending parent waits for another pending row (database-generated keys)
    ("auto:tree-post+next", [[0, 0, 0, 0], [0, 1, 0, 1], [0, 2, 0, 2], [2, 1, 0, 1], [2, 0, 2, 0], [6]]),
    ("auto:tree-post+next", [[0, 0, 0, 0], [0, 1, 0, 1], [0, 2, 0, 2], [0, 3, 0, 3], [2, 0, 2, 0], [2, 0, 3, 0], [2, 1, 0, 1], [6]]),
    ("auto:tree+next", [[0, 0, 0, 0], [0, 1, 0, 1], [0, 2, 0, 2], [2, 1, 0, 1], [2, 0, 2, 0], [6]]),
    # a member removed from a many-to-many collection and the owner deleted in the same flush
    ("m2m", [[0, 0, 0, 0], [0, 1, 1, 1], [0, 2, 1, 2], [3, 0, 0, 1], [3, 0, 0, 2], [6], [4, 0, 0, 1], [5, 0], [6]]),
    ("m2m", [[0, 0, 0, 0], [0, 1, 1, 1], [0, 2, 0, 2], [3, 0, 0, 1], [3, 0, 2, 1], [6], [4, 0, 0, 1], [5, 1], [6]]),
    ("m2m-self", [[0, 0, 0, 0], [0, 1, 0, 1], [0, 2, 0, 2], [3, 0, 0, 1], [3, 0, 0, 2], [6], [4, 0, 0, 2], [5, 0], [6]]),
    # self-referential many-to-many with backref: two nodes linked in BOTH directions, both deleted in one flush
    ("m2m-self", [[0, 0, 0, 0], [0, 1, 0, 1], [3, 0, 0, 1], [3, 0, 1, 0], [6], [5, 0], [5, 1], [6]]),
    ("m2m-self", [[0, 0, 0, 0], [0, 1, 0, 1], [0, 2, 0, 2], [3, 0, 0, 1], [3, 0, 1, 0], [3, 0, 1, 2], [3, 0, 2, 0], [6], [5, 1], [5, 0], [6]]),
    ("m2m-self", [[0, 0, 0, 0], [0, 1, 0, 1], [3, 0, 0, 1], [3, 0, 1, 0], [3, 0, 0, 0], [6], [5, 0], [6]]),
    ("m2m", [[0, 0, 0, 0], [0, 1, 1, 1], [0, 2, 0, 2], [3, 0, 0, 1], [3, 0, 2, 1], [6], [5, 0], [5, 1], [6]]),
]


# joined-table inheritance: the relationship (and its foreign key column) lives on the SUB-table; the
# objects that hold it are instances of exactly that subclass (the model compares classes by equality)
INHERIT = {
    "inh:post-sub-self": (2, [_fk(0, 1, 1, o2m=0, post=1)], [-1, 0]),
    "inh:sub-fk": (3, [_fk(0, 1, 2), _fk(1, 1, 2, o2m=0, post=1)], [-1, 0, -1]),
    "inh:sub-target": (3, [_fk(0, 2, 1), _fk(1, 2, 1, m2o=0, post=1)], [-1, 0, -1]),
}


def _fresh(ncls, rels, depth):
    """three pending objects, every sequence of <= depth re-parenting operations, one flush"""
    pre = [[0, k, k % ncls, k] for k in range(3)]
    alphabet = []
    for rel in rels:
        if rel[1] != 0:
            continue
        for c_ in range(3):
            for p_ in range(3):
                if c_ != p_ and c_ % ncls == rel[2] and p_ % ncls == rel[3]:
                    alphabet.append([2, rel[0], c_, p_])
    out = []
    for d in range(1, depth + 1):
        for seq in itertools.product(alphabet, repeat=d):
            out.append(pre + [list(o) for o in seq] + [[6]])
    return out


class Mirror:
    """the preconditions of Flush.v [step], for generating histories and for skipping on the real side"""

    def __init__(self, rels):
        self.rels = {r[0]: r for r in rels}
        self.st, self.cls, self.par, self.pd = {}, {}, {}, {}
        self.pairs, self.padd, self.pdel = set(), set(), set()
        self.rowfk = {}  # the foreign keys of the rows (Flush.v [flush_rows])

    def live(self, o):
        return self.st.get(o, 0) in (1, 2)

    def reach(self, x, target, fuel):
        """x reaches target through current links and the links of the rows (Flush.v [reach])"""
        if x == target:
            return True
        if fuel == 0:
            return False
        ps = list(self.par.get(x, {}).values()) + list(self.rowfk.get(x, {}).values())
        return any(self.reach(p, target, fuel - 1) for p in ps)

    def ok(self, op):
        t = op[0]
        if t == 0:
            return op[1] not in self.st
        if t == 1:
            return self.live(op[1])
        if t == 2:
            r = self.rels.get(op[1])
            c, p = op[2], op[3]
            if r is None or r[1] != 0 or not self.live(c) or self.cls[c] != r[2]:
                return False
            if p is not None and self.reach(p, c, len(self.st) + 1):
                return False
            return p is None or (self.live(p) and self.cls[p] == r[3])
        if t == 3:
            r = self.rels.get(op[1])
            a, b = op[2], op[3]
            return (r is not None and r[1] == 1 and self.live(a) and self.live(b) and self.cls[a] == r[2]
                    and self.cls[b] == r[3] and (op[1], a, b) not in self.pairs)
        if t == 4:
            return (op[1], op[2], op[3]) in self.pairs and self.live(op[2]) and self.live(op[3])
        if t == 5:
            i = op[1]
            if self.st.get(i, 0) != 2:
                return False
            for c, st in self.st.items():
                if st not in (1, 2):
                    continue
                for r, p in self.par[c].items():
                    if p == i and not (st == 2 and r not in self.pd[c] and self.rels[r][4]):
                        return False
            return not any(x[1] == i or x[2] == i for x in self.padd) and not self.pd[i]
        return True

    def do(self, op):
        t = op[0]
        if t == 0:
            self.st[op[1]] = 1
            self.cls[op[1]] = op[2]
            self.par[op[1]] = {}
            self.pd[op[1]] = set()
        elif t == 2:
            if op[3] is None:
                self.par[op[2]].pop(op[1], None)
            else:
                self.par[op[2]][op[1]] = op[3]
            self.pd[op[2]].add(op[1])
        elif t == 3:
            x = (op[1], op[2], op[3])
            self.pairs.add(x)
            if x in self.pdel:
                self.pdel.discard(x)
            else:
                self.padd.add(x)
        elif t == 4:
            x = (op[1], op[2], op[3])
            self.pairs.discard(x)
            if x in self.padd:
                self.padd.discard(x)
            else:
                self.pdel.add(x)
        elif t == 5:
            self.st[op[1]] = 3
        elif t == 6:
            dead = {o for o, s in self.st.items() if s == 3}
            new = {}
            for o, st in self.st.items():
                if st == 1:
                    new[o] = {r: p for r, p in self.par[o].items() if self.live(p)}
                elif st == 2:
                    d = {r: p for r, p in self.par[o].items() if r in self.pd[o] and self.live(p)}
                    for r, p in self.rowfk.get(o, {}).items():
                        if r not in self.pd[o] and self.st.get(p, 0) != 3:
                            d[r] = p
                    new[o] = d
            self.rowfk = new
            self.pairs = {x for x in self.pairs if x[1] not in dead and x[2] not in dead}
            self.padd, self.pdel = set(), set()
            for o in list(self.st):
                self.st[o] = {1: 2, 3: 0}.get(self.st[o], self.st[o])
                self.pd[o] = set()


def _post_o2m_unlink(rels, ops):
    """does the history remove a FLUSHED member from a post_update one-to-many collection that has no
    many-to-one side (known finding C30-post-update-o2m-remove-keeps-fk: the key is never cleared)?"""
    bad = {r[0] for r in rels if r[1] == 0 and r[4] and not (r[5] & 1) and r[5] >> 2 & 1}
    if not bad:
        return False
    m = Mirror(rels)
    for op in ops:
        op = [x if x != [] else None for x in op]
        if not m.ok(op):
            continue
        if op[0] == 2 and op[1] in bad and op[3] is None and m.rowfk.get(op[2], {}).get(op[1]) is not None \
                and m.st.get(op[2]) == 2:
            return True
        m.do(op)
    return False


def _post_o2m_delete_parent(rels, ops):
    """does the history delete the FLUSHED parent of a surviving member of a post_update one-to-many collection
    (known finding C30-post-update-o2m-delete-parent-keeps-fk: whether the member's key is cleared depends on
    the order the topological sort happens to produce)?"""
    bad = {r[0] for r in rels if r[1] == 0 and r[4] and r[5] >> 2 & 1}
    if not bad:
        return False
    m = Mirror(rels)
    for op in ops:
        op = [x if x != [] else None for x in op]
        if not m.ok(op):
            continue
        if op[0] == 5 and any(m.st.get(c_) == 2 and fk.get(r_) == op[1] for c_, fk in m.rowfk.items() for r_ in bad):
            return True
        m.do(op)
    return False


def _rand_history(rng, ncls, rels, nops):
    m = Mirror(rels)
    ops = []
    nid = 0
    for _ in range(rng.randint(2, 3)):
        op = [0, nid, rng.randrange(ncls), rng.randint(0, 9)]
        nid += 1
        ops.append(op)
        m.do(op)
    tries = 0
    while len(ops) < nops and tries < nops * 6:
        tries += 1
        r = rng.random()
        objs = list(m.st)
        if r < 0.14:
            op = [0, nid, rng.randrange(ncls), rng.randint(0, 9)]
        elif r < 0.26:
            op = [1, rng.choice(objs), rng.randint(0, 9)]
        elif r < 0.62:
            rel = rng.choice(rels)
            if rel[1] == 0:
                cs = [o for o in objs if m.cls[o] == rel[2]]
                ps = [o for o in objs if m.cls[o] == rel[3]]
                if not cs:
                    continue
                c = rng.choice(cs)
                p = rng.choice(ps + [None]) if ps else None
                if p == c:
                    continue
                op = [2, rel[0], c, p]
            else:
                xs = [o for o in objs if m.cls[o] == rel[2]]
                ys = [o for o in objs if m.cls[o] == rel[3]]
                if not xs or not ys:
                    continue
                a, b = rng.choice(xs), rng.choice(ys)
                op = [3 if (rel[0], a, b) not in m.pairs else 4, rel[0], a, b]
        elif r < 0.76:
            op = [5, rng.choice(objs)]
        else:
            op = [6]
        if rng.random() < 0.93 and not m.ok(op):
            continue  # mostly valid histories; a few operations whose precondition fails are kept
        if m.ok(op):
            if op[0] == 0:
                nid += 1
            m.do(op)
        elif op[0] == 0:
            continue
        ops.append(op)
    ops.append([6])
    return ops


def _small_scope(ncls, rels, depth):
    pre = [[0, k, k % ncls, k] for k in range(4)]
    link = []
    for rel in rels:
        cs = [k for k in range(4) if k % ncls == rel[2]]
        ps = [k for k in range(4) if k % ncls == rel[3]]
        if rel[1] == 0:
            if cs and ps and cs[0] != ps[-1]:
                link.append([2, rel[0], cs[0], ps[-1]])
        elif cs and ps:
            link.append([3, rel[0], cs[0], ps[-1]])
    alphabet = [[1, 0, 7], [6]]
    for rel in rels:
        cs = [k for k in range(5) if ([j % ncls for j in range(4)] + [rel[2]])[k] == rel[2]]
        ps = [k for k in range(5) if ([j % ncls for j in range(4)] + [rel[2]])[k] == rel[3]]
        for c in cs:
            for p in ps:
                if rel[1] == 0:
                    if c != p:
                        alphabet.append([2, rel[0], c, p])
                else:
                    alphabet.append([3, rel[0], c, p])
                    alphabet.append([4, rel[0], c, p])
            if rel[1] == 0:
                alphabet.append([2, rel[0], c, None])
    for k in range(4):
        alphabet.append([5, k])
    out = []
    for prefix in (pre + link + [[6]], pre + link + [[6], [0, 4, rels[0][2], 4]]):
        for d in range(1, depth + 1):
            for seq in itertools.product(alphabet, repeat=d):
                out.append(prefix + [list(o) for o in seq] + [[6]])
    return out


def gen_cases(rng, tier):
    quick = tier != "thorough"
    cases = []
    for name, (ncls, rels) in FAMILIES.items():
        ss = _small_scope(ncls, rels, 2 if quick else 3)
        cap = 25 if quick else 2500
        if len(ss) > cap:
            ss = rng.sample(ss, cap)
        for ops in ss:
            cases.append({"in": [rels, ops], "kind": "small:" + name, "ncls": ncls})
        for _ in range(25 if quick else 1500):
            ops = _rand_history(rng, ncls, rels, rng.randint(4, 10 if quick else 40))
            cases.append({"in": [rels, ops], "kind": "rand:" + name, "ncls": ncls})
    for name, (ncls, rels) in AUTOPK.items():
        ss = _fresh(ncls, rels, 2 if quick else 3)
        cap = 20 if quick else 2000
        if len(ss) > cap:
            ss = rng.sample(ss, cap)
        for ops in ss:
            cases.append({"in": [rels, ops], "kind": "fresh:" + name, "ncls": ncls, "autopk": True})
        for _ in range(8 if quick else 600):
            ops = _rand_history(rng, ncls, rels, rng.randint(4, 10 if quick else 40))
            cases.append({"in": [rels, ops], "kind": "rand:" + name, "ncls": ncls, "autopk": True})
    for name, (ncls, rels, inh) in INHERIT.items():
        ss = _small_scope(ncls, rels, 2 if quick else 3) + _fresh(ncls, rels, 2)
        cap = 30 if quick else 2500
        if len(ss) > cap:
            ss = rng.sample(ss, cap)
        for ops in ss:
            cases.append({"in": [rels, ops], "kind": "small:" + name, "ncls": ncls, "inh": inh})
        for _ in range(15 if quick else 1000):
            ops = _rand_history(rng, ncls, rels, rng.randint(4, 10 if quick else 40))
            cases.append({"in": [rels, ops], "kind": "rand:" + name, "ncls": ncls, "inh": inh})
    cases.append({"in": [INHERIT["inh:post-sub-self"][1], [[0, 0, 1, 1], [0, 1, 1, 2], [2, 0, 0, 1], [6], [2, 0, 0, None], [6], [2, 0, 1, 0], [6]]],
                  "kind": "always:inh:post-sub-self", "ncls": 2, "inh": [-1, 0]})
    for name, ops in ALWAYS:
        ncls, rels = (AUTOPK if name in AUTOPK else FAMILIES)[name]
        cases.append({"in": [rels, ops], "kind": "always:" + name, "ncls": ncls, "autopk": name in AUTOPK})
    cases += _nat_cases(rng, quick)
    # delete-orphan: oracle only (the model has no cascades)
    ncls, rels = ORPHAN
    for _ in range(30 if quick else 600):
        ops = _rand_history(rng, ncls, rels, rng.randint(4, 10 if quick else 30))
        cases.append({"in": [rels, ops], "kind": "orphan", "ncls": ncls, "model": False})
    return _finish(cases)


# ---------------------------------------------------------------- composite natural keys (FlushSync.v)
class NatMirror:
    """the preconditions of FlushSync.v [nstep]"""

    def __init__(self, n):
        self.n = n
        self.key, self.old, self.children = {}, {}, set()

    def free(self, i, k):
        return all(j == i or (self.key[j] != k and self.old[j] != k) for j in self.key)

    def ok(self, op):
        t = op[0]
        if t == 0:
            return op[1] not in self.key and len(op[2]) == self.n and self.free(op[1], list(op[2]))
        if t == 1:
            return op[1] not in self.children
        if t == 2:
            return op[1] in self.children and (op[2] is None or op[2] in self.key)
        if t == 3:
            if op[1] not in self.key or not op[2] < self.n:
                return False
            k = list(self.key[op[1]])
            k[op[2]] = op[3]
            return self.free(op[1], k)
        return True

    def do(self, op):
        t = op[0]
        if t == 0:
            self.key[op[1]] = list(op[2])
            self.old[op[1]] = list(op[2])
            self.pending = getattr(self, "pending", set()) | {op[1]}
        elif t == 1:
            self.children.add(op[1])
        elif t == 3:
            self.key[op[1]][op[2]] = op[3]
            if op[1] in getattr(self, "pending", set()):
                self.old[op[1]] = list(self.key[op[1]])
        elif t == 6:
            self.pending = set()
            for i in self.key:
                self.old[i] = list(self.key[i])


def _nat_history(rng, n, nops):
    m = NatMirror(n)
    ops = []
    np_, nc_ = 0, 0
    tries = 0
    while len(ops) < nops and tries < nops * 8:
        tries += 1
        r = rng.random()
        if r < 0.15 or np_ == 0:
            op = [0, np_, [rng.randint(0, 3) for _ in range(n)]]
        elif r < 0.3 or nc_ == 0:
            op = [1, nc_]
        elif r < 0.5:
            op = [2, rng.randrange(nc_), rng.choice(list(range(np_)) + [None])]
        elif r < 0.8:
            op = [3, rng.randrange(np_), rng.randrange(n), rng.randint(0, 3)]
        else:
            op = [6]
        if not m.ok(op):
            if rng.random() < 0.9 or op[0] in (0, 1):
                continue
        else:
            if op[0] == 0:
                np_ += 1
            elif op[0] == 1:
                nc_ += 1
            m.do(op)
        ops.append(op)
    ops.append([6])
    return ops


def _nat_stale_collection(n, ops, backref):
    """the known finding: a persistent parent whose key has an unflushed change gets its not yet loaded collection
    loaded by a user-level access (p.children.append/remove/contains): the lazy load queries with the NEW key and
    finds nothing, so the flushed members are missing from the collection and the key change is not propagated to them"""
    if not backref:
        return False
    m = NatMirror(n)
    loaded, cpar, dbpar = set(), {}, {}
    for op in ops:
        op = [x if x != [] else None for x in op]
        if not m.ok(op):
            continue
        t = op[0]
        pend = getattr(m, "pending", set())
        if t == 2:
            old = cpar.get(op[1])
            if (op[1] + (op[2] or 0)) % 2 == 0 or op[2] is None and old is None:
                for q in (old, op[2]):
                    if q is not None and q in pend:
                        loaded.add(q)  # a backref event on a pending parent initialises its collection
            else:
                acc = []
                if old is not None and (op[2] is None or old != op[2]):
                    acc.append(old)
                if op[2] is not None:
                    acc.append(op[2])
                for q in acc:
                    if q not in loaded and q not in pend and m.key[q] != m.old[q] and q in dbpar.values():
                        return True
                    loaded.add(q)
            cpar[op[1]] = op[2]
        elif t == 6:
            dbpar = {k: v for k, v in cpar.items() if v is not None}
        m.do(op)
    return False


def _nat_directed(n):
    """a parent with two flushed children; every single key column changed on its own, then pairs of columns"""
    out = []
    pre = [[0, 0, list(range(1, n + 1))], [0, 1, [9] * n], [1, 0], [1, 1], [1, 2], [2, 0, 0], [2, 1, 0], [2, 2, 1], [6]]
    for j in range(n):
        out.append(pre + [[3, 0, j, 7], [6]])
        out.append(pre + [[3, 0, j, 7], [2, 2, 0], [6]])
        out.append(pre + [[3, 0, j, 7], [2, 0, None], [6]])
        for j2 in range(n):
            if j2 != j:
                out.append(pre + [[3, 0, j, 7], [3, 0, j2, 8], [6]])
                out.append(pre + [[3, 0, j, 7], [6], [3, 0, j2, 8], [6]])
    return out


def _nat_cases(rng, quick):
    """variants: with the one-to-many backref (_OneToManyDP propagates the key) / many-to-one only
    (_DetectKeySwitch scans the identity map); referencing objects of the class itself / of a joined subclass"""
    cases = []
    for vi, var in enumerate(({"backref": True, "sub": False}, {"backref": False, "sub": False},
                              {"backref": False, "sub": True}, {"backref": True, "sub": True})):
        tag = "natpk:%s%s" % ("o2m" if var["backref"] else "m2o-only", "+sub" if var["sub"] else "")
        for n in (1, 2, 3):
            dd = _nat_directed(n)
            if quick and vi > 0:
                dd = dd[:: 3]
            for ops in dd:
                cases.append({"in": [7, n, ops], "kind": tag + ":directed", "nat": var})
            for _ in range((15 if vi == 0 else 6) if quick else 800):
                cases.append({"in": [7, n, _nat_history(rng, n, rng.randint(4, 10 if quick else 40))], "kind": tag + ":rand", "nat": var})
    return cases


def _nat_impl(c):
    import warnings

    from sqlalchemy import Column, ForeignKeyConstraint, Integer, create_engine, inspect, select
    from sqlalchemy.orm import Session, declarative_base, relationship
    from sqlalchemy.pool import StaticPool

    warnings.simplefilter("ignore")
    _, n, ops = c["in"]
    ops = [[x if x != [] else None for x in o] for o in ops]
    _last.clear()
    Base = declarative_base()
    pa = {"__tablename__": "parent"}
    for j in range(n):
        pa["k%d" % j] = Column(Integer, primary_key=True)
    var = c.get("nat") or {}
    backref = var.get("backref", True)
    if backref:
        pa["children"] = relationship("Child", back_populates="parent", passive_updates=False)
    P = type("Parent", (Base,), pa)
    ca = {"__tablename__": "child", "id": Column(Integer, primary_key=True)}
    if var.get("sub"):
        ca["typ"] = Column(Integer)
        ca["__mapper_args__"] = {"polymorphic_on": "typ", "polymorphic_identity": 0}
    for j in range(n):
        ca["f%d" % j] = Column(Integer)
    ca["__table_args__"] = (ForeignKeyConstraint(["f%d" % j for j in range(n)], ["parent.k%d" % j for j in range(n)]),)
    ca["parent"] = relationship("Parent", back_populates="children" if backref else None, passive_updates=False)
    C = type("Child", (Base,), ca)
    CS = C
    if var.get("sub"):
        # the referencing objects are instances of a joined-table subclass of the class that owns the many-to-one
        from sqlalchemy import ForeignKey

        CS = type("ChildSub", (C,), {"__tablename__": "childsub", "id": Column(ForeignKey("child.id"), primary_key=True),
                                     "__mapper_args__": {"polymorphic_identity": 1}})
    eng = create_engine("sqlite://", poolclass=StaticPool)
    Base.metadata.create_all(eng)
    sess = Session(eng, autoflush=False, expire_on_commit=False)
    mir = NatMirror(n)
    pars, chs, cpar = {}, {}, {}
    snaps = []
    err = None
    NUL = -1000000

    def keyof(p):
        return [getattr(p, "k%d" % j) for j in range(n)]

    try:
        for op in ops:
            if not mir.ok(op):
                continue
            t = op[0]
            if t == 0:
                p = P(**{"k%d" % j: v for j, v in enumerate(op[2])})
                pars[op[1]] = p
                sess.add(p)
            elif t == 1:
                ch = (CS if op[1] % 2 == 0 else C)(id=op[1] + 1)
                chs[op[1]] = ch
                sess.add(ch)
            elif t == 2:
                ch = chs[op[1]]
                par = pars[op[2]] if op[2] is not None else None
                if not backref or (op[1] + (op[2] or 0)) % 2 == 0 or par is None and cpar.get(op[1]) is None:
                    ch.parent = par
                else:
                    old = cpar.get(op[1])
                    if old is not None and (par is None or old != op[2]) and ch in pars[old].children:
                        pars[old].children.remove(ch)
                    if par is not None and ch not in par.children:
                        par.children.append(ch)
                cpar[op[1]] = op[2]
            elif t == 3:
                setattr(pars[op[1]], "k%d" % op[2], op[3])
            elif t == 6:
                sess.flush()
                conn = sess.connection()
                kmap = {tuple(keyof(p)): i for i, p in pars.items()}
                prow = sorted([kmap.get(tuple(r), 1000000)] + list(r)
                              for r in conn.exec_driver_sql("select %s from parent" % ", ".join("k%d" % j for j in range(n))).fetchall())
                crow = []
                for r in conn.exec_driver_sql("select id, %s from child" % ", ".join("f%d" % j for j in range(n))).fetchall():
                    fk = list(r[1:])
                    crow.append([r[0] - 1, [] if all(v is None for v in fk) else [NUL if v is None else v for v in fk]])
                snaps.append([prow, sorted(crow)])
            mir.do(op)
    except Exception as e:
        err = "%s: %s" % (type(e).__name__, str(e)[:200])
    viol = None
    if err is None:
        mem = {i: (keyof(ch.parent) if ch.parent is not None else None) for i, ch in chs.items() if inspect(ch).persistent}
        memkids = {i: sorted(j for j, ch in chs.items() if ch.parent is p) for i, p in pars.items() if inspect(p).persistent}
        memkeys = {i: keyof(p) for i, p in pars.items() if inspect(p).persistent}
        try:
            sess.commit()
        except Exception as e:
            err = "commit: %s: %s" % (type(e).__name__, str(e)[:200])
    sess.close()
    if err is None:
        s2 = Session(eng)
        for i, want in mem.items():
            ch = s2.get(C, i + 1)
            got = [getattr(ch, "f%d" % j) for j in range(n)] if ch is not None else "no row"
            if got != (want if want is not None else [None] * n):
                viol = "child %d: foreign key columns %r, the key of its parent in memory is %r" % (i, got, want)
        for i, kids in memkids.items():
            p = s2.get(P, tuple(memkeys[i]))
            got = (sorted(x.id - 1 for x in s2.scalars(select(C)).all()
                          if [getattr(x, "f%d" % j) for j in range(n)] == memkeys[i]) if p is not None else "no row")
            if got != kids:
                viol = "parent %d (key %r): children %r in memory, %r reloaded" % (i, memkeys[i], kids, got)
        s2.close()
    else:
        viol = "flush/commit failed: " + err
    eng.dispose()
    _last["viol"] = viol
    if err is not None:
        return [9, err[:60]]
    return snaps


def _finish(cases):
    for c in cases:
        if c["in"][0] != 7 and c.get("model", True) and (_post_o2m_unlink(c["in"][0], c["in"][1])
                                                          or _post_o2m_delete_parent(c["in"][0], c["in"][1])):
            c["model"] = False  # the implementation deviates there (known findings); oracle only
        if c["in"][0] == 7 and c.get("model", True) and _nat_stale_collection(c["in"][1], c["in"][2], (c.get("nat") or {}).get("backref", True)):
            c["model"] = False  # known finding C30-pk-change-lazy-collection-new-key; oracle only
    return cases


def nontrivial(c):
    if c["in"][0] == 7:
        return any(o[0] == 3 for o in c["in"][2])
    ops = c["in"][1]
    fl = [i for i, o in enumerate(ops) if o[0] == 6]
    return len(fl) >= 2 and any(o[0] in (1, 2, 3, 4, 5) for o in ops[fl[0]:fl[-1]])


# ---------------------------------------------------------------- implementation side
_last = {}


def _cbase(inh, k):
    while inh and inh[k] >= 0:
        k = inh[k]
    return k


def _build(ncls, rels, inh=None):
    import warnings

    from sqlalchemy import Column, ForeignKey, Integer, Table
    from sqlalchemy.orm import declarative_base, relationship

    warnings.simplefilter("ignore")
    Base = declarative_base()
    cl = []
    inh = inh or [-1] * ncls
    for k in range(ncls):
        if inh[k] < 0:
            attrs = {"__tablename__": "t%d" % k, "id": Column(Integer, primary_key=True), "data": Column(Integer)}
            if k in inh:
                attrs["typ"] = Column(Integer)
                attrs["__mapper_args__"] = {"polymorphic_on": "typ", "polymorphic_identity": k}
        else:
            idc = Column(ForeignKey("t%d.id" % inh[k]), primary_key=True)
            attrs = {"__tablename__": "t%d" % k, "id": idc,
                     "__mapper_args__": {"polymorphic_identity": k, "inherit_condition": idc == cl[inh[k]].__table__.c.id}}
        for r in rels:
            if r[1] == 0 and r[2] == k:
                attrs["f%d" % r[0]] = Column(ForeignKey("t%d.id" % r[3]))
        cl.append(type("K%d" % k, (Base if inh[k] < 0 else cl[inh[k]],), attrs))
    secs = {}
    for r in rels:
        i, kind, a, b, o2m, fl = r
        ta, tb = cl[a].__table__, cl[b].__table__
        if kind == 0:
            col = ta.c["f%d" % i]
            if fl & 1:
                setattr(cl[a], "r%d" % i, relationship(
                    cl[b], foreign_keys=[col], remote_side=[tb.c.id], primaryjoin=col == tb.c.id, post_update=bool(fl >> 2 & 1),
                    back_populates=("c%d" % i) if o2m else None))
            if o2m:
                setattr(cl[b], "c%d" % i, relationship(
                    cl[a], foreign_keys=[col], remote_side=[col], primaryjoin=col == tb.c.id, post_update=bool(fl >> 2 & 1),
                    cascade="all, delete-orphan" if fl >> 1 & 1 else "save-update, merge",
                    back_populates=("r%d" % i) if fl & 1 else None))
        else:
            t = Table("s%d" % i, Base.metadata,
                      Column("l", ForeignKey("t%d.id" % a), primary_key=True),
                      Column("r", ForeignKey("t%d.id" % b), primary_key=True))
            secs[i] = t
            setattr(cl[a], "m%d" % i, relationship(
                cl[b], secondary=t, primaryjoin=ta.c.id == t.c.l, secondaryjoin=tb.c.id == t.c.r, back_populates="n%d" % i))
            setattr(cl[b], "n%d" % i, relationship(
                cl[a], secondary=t, primaryjoin=tb.c.id == t.c.r, secondaryjoin=ta.c.id == t.c.l, back_populates="m%d" % i))
    return Base, cl, secs


def _snapshot(conn, ncls, rels, pkmap, inh=None):
    """table contents, one logical row per object (the tables of a joined-inheritance hierarchy are put
    together), primary keys translated to object numbers (pkmap[base class][pk]); a key that belongs to no
    object of the session is shown as 1000000 + key"""
    inh = inh or [-1] * ncls
    relmap = {r[0]: r for r in rels}
    tr = lambda k, v: pkmap[_cbase(inh, k)].get(v, 1000000 + v)
    ids = {k: set(r[0] for r in conn.exec_driver_sql("select id from t%d" % k).fetchall()) for k in range(ncls)}
    fkv = {}
    for k in range(ncls):
        cols = [r[0] for r in rels if r[1] == 0 and r[2] == k]
        if cols:
            for row in conn.exec_driver_sql("select id%s from t%d" % ("".join(", f%d" % i for i in cols), k)).fetchall():
                for i, v in zip(cols, row[1:]):
                    if v is not None:
                        fkv.setdefault((_cbase(inh, k), row[0]), []).append([i, tr(relmap[i][3], v)])
    rows = []
    for k in range(ncls):
        if inh[k] >= 0:
            continue
        for pk, data in conn.exec_driver_sql("select id, data from t%d" % k).fetchall():
            conc = k
            for j in range(ncls):  # the deepest class of the hierarchy that has a row for this key
                if j != k and _cbase(inh, j) == k and pk in ids[j]:
                    conc = max(conc, j)
            rows.append([tr(k, pk), conc, data, sorted(fkv.get((k, pk), []))])
    secs = []
    for r in rels:
        if r[1] == 1:
            for l, rr in conn.exec_driver_sql("select l, r from s%d" % r[0]).fetchall():
                secs.append([r[0], tr(r[2], l), tr(r[3], rr)])
    return [sorted(rows), sorted(secs)]


def impl(c):
    if c["in"][0] == 7:
        return _nat_impl(c)
    from sqlalchemy import create_engine, inspect, select
    from sqlalchemy.orm import Session
    from sqlalchemy.pool import StaticPool

    rels, ops = c["in"]
    ops = [[x if x != [] else None for x in o] for o in ops]
    ncls = c.get("ncls") or (1 + max([r[2] for r in rels] + [r[3] for r in rels] + [o[2] for o in ops if o[0] == 0]))
    _last.clear()
    inh = c.get("inh") or [-1] * ncls
    Base, cl, sectabs = _build(ncls, rels, inh)
    eng = create_engine("sqlite://", poolclass=StaticPool)
    Base.metadata.create_all(eng)
    sess = Session(eng, autoflush=False, expire_on_commit=False)
    relmap = {r[0]: r for r in rels}
    mir = Mirror(rels)
    objs = {}
    snaps = []
    err = None
    flush_viol = None
    pkmap = [dict() for _ in range(ncls)]
    try:
        for op in ops:
            if not mir.ok(op) and not (c.get("raw") and op[0] == 5 and mir.st.get(op[1]) == 2):
                continue
            t = op[0]
            if t == 0:
                o = cl[op[2]](data=op[3]) if c.get("autopk") else cl[op[2]](id=op[1] + 1, data=op[3])
                objs[op[1]] = o
                sess.add(o)
            elif t == 1:
                objs[op[1]].data = op[2]
            elif t == 2:
                i, kind, a, b, o2m, fl = relmap[op[1]]
                ch = objs[op[2]]
                par = objs[op[3]] if op[3] is not None else None
                use_attr = bool(fl & 1) and (not o2m or (op[2] + (op[3] or 0)) % 2 == 0)
                if use_attr:
                    setattr(ch, "r%d" % i, par)
                else:
                    old = mir.par[op[2]].get(i)
                    if old is not None and old in objs and (par is None or old != op[3]):
                        coll = getattr(objs[old], "c%d" % i)
                        if ch in coll:
                            coll.remove(ch)
                    if par is not None:
                        coll = getattr(par, "c%d" % i)
                        if ch not in coll:
                            coll.append(ch)
            elif t in (3, 4):
                i = op[1]
                a, b = objs[op[2]], objs[op[3]]
                if (op[2] + op[3]) % 2 == 0:
                    coll, item = getattr(a, "m%d" % i), b
                else:
                    coll, item = getattr(b, "n%d" % i), a
                if t == 3:
                    coll.append(item)
                else:
                    coll.remove(item)
            elif t == 5:
                sess.delete(objs[op[1]])
            elif t == 6:
                sess.flush()
                pkmap = [dict() for _ in range(ncls)]
                for k_, o_ in objs.items():
                    if inspect(o_).persistent:
                        pkmap[_cbase(inh, mir.cls[k_])][o_.id] = k_
                snap = _snapshot(sess.connection(), ncls, rels, pkmap, inh)
                snaps.append(snap)
                # the property, after every flush: the secondary rows are the many-to-many memberships of the
                # objects that have a row (nothing left behind for a deleted object)
                alive = {k_ for k_, o_ in objs.items() if inspect(o_).persistent and o_ not in sess.deleted}
                want = set()
                for i_, kind_, a_, b_, o2m_, fl_ in rels:
                    if kind_ == 1:
                        for k_ in alive:
                            if isinstance(objs[k_], cl[a_]):
                                for x_ in getattr(objs[k_], "m%d" % i_):
                                    j_ = next((j for j, y in objs.items() if y is x_), None)
                                    if j_ in alive:
                                        want.add((i_, k_, j_))
                for row_ in snap[0]:
                    for i_, v_ in row_[3]:
                        if v_ >= 1000000 and flush_viol is None:
                            flush_viol = "after flush %d the foreign key column f%d of object %d references a row that no longer exists" % (
                                len(snaps), i_, row_[0])
                got = set(tuple(x) for x in snap[1])
                if got != want and flush_viol is None:
                    flush_viol = "after flush %d the secondary rows are %s, the many-to-many members in memory %s" % (
                        len(snaps), sorted(got), sorted(want))
            mir.do(op)
    except Exception as e:
        err = "%s: %s" % (type(e).__name__, str(e)[:200])
    states = []
    mem = {}
    if err is None:
        for k in sorted(objs):
            o = objs[k]
            s = inspect(o)
            st = 1 if s.pending else (3 if o in sess.deleted else 2) if s.persistent else 0
            states.append([k, st])
        # the in-memory graph of the objects in the session (for the oracle)
        insess = {k: o for k, o in objs.items() if inspect(o).persistent and o not in sess.deleted}
        ids = {id(o): k for k, o in objs.items()}
        for k, o in insess.items():
            ent = {"data": o.data, "fk": {}, "coll": {}, "mm": {}}
            for i, kind, a, b, o2m, fl in rels:
                if kind == 0:
                    if isinstance(o, cl[a]) and fl & 1:
                        p = getattr(o, "r%d" % i)
                        ent["fk"][i] = ids.get(id(p)) if p is not None and id(p) in ids and ids[id(p)] in insess else None
                    if isinstance(o, cl[b]) and o2m:
                        ent["coll"][i] = sorted(ids[id(x)] for x in getattr(o, "c%d" % i)
                                                if id(x) in ids and not inspect(x).deleted and not inspect(x).detached)
                else:
                    if isinstance(o, cl[a]):
                        ent["mm"][(i, 0)] = sorted(ids[id(x)] for x in getattr(o, "m%d" % i) if ids.get(id(x)) in insess)
                    if isinstance(o, cl[b]):
                        ent["mm"][(i, 1)] = sorted(ids[id(x)] for x in getattr(o, "n%d" % i) if ids.get(id(x)) in insess)
            mem[k] = ent
        try:
            sess.commit()
        except Exception as e:
            err = "commit: %s: %s" % (type(e).__name__, str(e)[:200])
    sess.close()
    graph = []
    viol = None
    if err is None:
        s2 = Session(eng)
        loaded = {}
        tr = lambda k, v: pkmap[_cbase(inh, k)].get(v, 1000000 + v)
        relmap2 = {r[0]: r for r in rels}
        for k in range(ncls):
            if inh[k] >= 0:
                continue
            for o in s2.scalars(select(cl[k])).all():
                loaded[tr(k, o.id)] = o
        num = {id(o): k for k, o in loaded.items()}
        for k in sorted(loaded):
            o = loaded[k]
            fks = []
            for i, kind, a, b, o2m, fl in rels:
                if kind == 0 and isinstance(o, cl[a]):
                    v = getattr(o, "f%d" % i)
                    if v is not None:
                        fks.append([i, tr(b, v)])
            graph.append([k, cl.index(type(o)), o.data, sorted(fks)])
        # ---- the property itself: the reloaded graph is the in-memory graph
        if set(loaded) != set(mem):
            viol = "objects in the session %s but rows of %s" % (sorted(mem), sorted(loaded))
        else:
            for k, ent in mem.items():
                o = loaded[k]
                if o.data != ent["data"]:
                    viol = "object %d: data %r in memory, %r reloaded" % (k, ent["data"], o.data)
                for i, p in ent["fk"].items():
                    q = getattr(o, "r%d" % i)
                    if (num[id(q)] if q is not None else None) != p:
                        viol = "object %d: parent along r%d is %r in memory, %r reloaded" % (k, i, p, num[id(q)] if q is not None else None)
                    v = getattr(o, "f%d" % i)
                    if (tr(relmap2[i][3], v) if v is not None else None) != p:
                        viol = "object %d: foreign key column f%d is %r, the parent in memory is %r" % (k, i, v, p)
                for i, l in ent["coll"].items():
                    for ch in l:
                        if ch in loaded:
                            v = getattr(loaded[ch], "f%d" % i)
                            if (tr(relmap2[i][3], v) if v is not None else None) != k:
                                viol = "object %d is in collection c%d of %d in memory, its foreign key column is %r" % (ch, i, k, v)
                    q = sorted(num[id(x)] for x in getattr(o, "c%d" % i))
                    if q != l:
                        viol = "object %d: collection c%d is %r in memory, %r reloaded" % (k, i, l, q)
                for (i, side), l in ent["mm"].items():
                    q = sorted(num[id(x)] for x in getattr(o, ("m%d" if side == 0 else "n%d") % i))
                    if q != l:
                        viol = "object %d: many-to-many %s%d is %r in memory, %r reloaded" % (k, "mn"[side], i, l, q)
        s2.close()
    elif c.get("model", True) or err.split(":")[0].replace("commit: ", "") in (
            "KeyError", "AttributeError", "TypeError", "AssertionError", "IndexError"):
        viol = "flush/commit failed: " + err
    eng.dispose()
    if flush_viol is not None and (viol is None or not viol.startswith("flush/commit failed")):
        viol = flush_viol
    _last["viol"] = viol
    if err is not None:
        return [9, err[:60]]
    return [snaps, graph, states]


def oracle(c, obs):
    return _last.get("viol")


def match_finding(c, what):
    if c["in"][0] == 7:
        if (_nat_stale_collection(c["in"][1], c["in"][2], (c.get("nat") or {}).get("backref", True))
                and (what.startswith("child ") or what.startswith("parent ")
                     # the pending removal of a flushed member is replayed on the wrongly loaded (empty) collection
                     or "ValueError: list.remove" in what)):
            return "C30-pk-change-lazy-collection-new-key"
        return None
    rels, ops = c["in"]
    orphan = any(r[1] == 0 and r[5] >> 1 & 1 for r in rels)
    if orphan and ("collection c" in what or "objects in the session" in what):
        return "C30-pending-orphan-reparented-not-inserted"
    if _post_o2m_unlink(rels, ops) and ("foreign key column" in what or "collection c" in what or "parent along" in what):
        return "C30-post-update-o2m-remove-keeps-fk"
    if _post_o2m_delete_parent(rels, ops) and "references a row that no longer exists" in what:
        return "C30-post-update-o2m-delete-parent-keeps-fk"
    if c.get("raw") and "collection c" in what:
        # a delete issued after the object was re-attached to a collection in the same flush window
        dirty = set()
        for o in ops:
            if o[0] == 2 and o[3] not in (None, []):
                dirty.add(o[2])
            elif o[0] == 6:
                dirty.clear()
            elif o[0] == 5 and o[1] in dirty:
                return "C30-cancelled-delete-is-only-postponed"
    return None

LEVEL_TEXT = (
    "Machine-checked proof (Coq) over a history-driven Gallina model of Session.flush: for EVERY operation "
    "history (new objects, scalar assignment, re-parenting through either side of a relationship, many-to-many "
    "append/remove, delete, flushes anywhere) over ANY set of relationships, the database after a flush is, row "
    "by row and secondary row by secondary row, the rows of the in-memory graph, and loading those rows gives the "
    "graph back; by the invariant 'database = rows of the committed view, every difference of the current view is "
    "recorded as history', proved preserved by every operation and re-established by flush. Tied to the code by a "
    "source pin and by comparing the real tables after every flush and the graph loaded by a new session."
)
LEVEL_NOTE = (
    "partial. The attribute/backref event layer is abstracted to 'the parent of c along r' (C36-C38 cover it); the "
    "operations have preconditions (Flush.v step): delete only when all references to the object are flushed and "
    "come through relationships with a collection side and the object was not re-parented since the last flush; "
    "re-parenting only when no cycle arises among current and flushed links (otherwise CircularDependencyError: "
    "C31). Primary key changes are covered for one-to-many/many-to-one with composite natural keys and "
    "passive_updates=False only (FlushSync.v), propagated by _OneToManyDP (with backref) or by _DetectKeySwitch "
    "(many-to-one only), referencing objects of the class or of a joined subclass; joined inheritance is covered "
    "for relationships whose holder objects are instances of exactly the subclass that declares the column "
    "(inh:* families); not covered: passive_updates=True, many-to-many key cascades, single-table inheritance, composite "
    "attributes, association objects as such (they are ordinary classes with two foreign keys here), expunge, merge, "
    "delete/delete-orphan cascades (oracle-only family; the known pending-orphan finding lives there), rollback and "
    "savepoints inside a history, PostgreSQL/MariaDB. Histories that run into one of the known findings (removal from / "
    "delete of the parent of a post_update one-to-many collection, a collection lazy-loaded after an unflushed key "
    "change) are compared by the oracle only. Trusted: Coq kernel, the hand transcription (pin + "
    "correspondence after every flush), SQLite. No axioms."
)
TECHNIQUE = (
    "Coq proof by induction over operation histories (invariant preserved by each operation, re-established by "
    "flush); source pin; differential execution of real Sessions on SQLite after every flush plus reload in a fresh "
    "session; direct graph-vs-database oracle"
)
