"""C31 - flush emits statements in an order that satisfies every constraint.

Case input (tree): [classes, rels, ops]
  classes : list of parent class index (-1 = base class; >= 0 = joined-table subclass of that class)
  rels    : [0, a, b, flags]  class a holds a foreign key to class b; flags bit0 many-to-one attribute on a,
                              bit1 one-to-many collection on b, bit2 post_update, bit3 NOT NULL,
                              bit4 cascade="all" on the collection, bit5 passive_deletes=True on the collection,
                              bit6 cascade="all, delete-orphan" on the collection, bit7 cascade="all" on the many-to-one
            [1, a, b, flags]  many-to-many through a secondary table; bit0 attribute on a, bit1 attribute on b
  ops     : [0, cls] new object (explicit primary key) added to the session
            [1, rel, holder, target|-1]  holder.<m2o> = target   (collection append/remove when no m2o attribute)
            [2, rel, target, holder] target.<o2m>.append(holder)   [3, ...] remove
            [4, rel, x, y] many-to-many append   [5, rel, x, y] remove
            [6, obj] session.delete   [7] flush   [8] commit   [9] expire_all
            [10, rel, holder, target] raw SQL: the holder's fk column is set to the target's key (a row written by
            another program; a no-op when the ORM has already written it)
  the LAST flush (implicit, after the ops) is the observed one.
"""
import itertools

ID = "C31"
LEVEL = "proof"
PROPS = "props/C31.v"
RUNNER = ("SAV.orm.FlushOrderRun", "run_case")
STATIC_MODULES = ["SAV.orm.FlushOrderRun"]
RULE = (
    "schema families (one-to-many/many-to-one pairs with and without backref, adjacency lists, mutually "
    "dependent mappers, post_update, many-to-many with/without backref, joined inheritance, NOT NULL and "
    "cascade variants) x operation scripts: small-scope exhaustive scripts (all scripts of <= 3 link/"
    "delete operations over 3-4 objects after a committed prefix) and random scripts (<= 14 ops quick, "
    "<= 40 thorough) with flush/commit/expire in between. Observed at the last flush, between "
    "_generate_actions and execute: uow.states, get_all_pending of every processor, uow.cycles, the final "
    "action set and dependency set (compared EXACTLY with the model), then the emitted INSERT/UPDATE/"
    "DELETE sequence (accepted by the model's layers, executed on the reference database with immediate "
    "FK checks, statement contents compared with the static contents the theorems use). non-trivial = "
    "the flush writes >= 2 rows related by a foreign key or a secondary row (cycle regime counted "
    "separately in the distribution)"
)
TRUSTED = [
    "hand-written Gallina transcription of UOWTransaction._generate_actions/execute, "
    "_SaveUpdateAll/_DeleteAll/_ProcessAll.per_state_flush_actions, _DependencyProcessor."
    "per_property_flush_actions/per_state_flush_actions (pinned to the normalised source, compared "
    "behaviourally: exact action and dependency sets on every case); the C19 model of util/topological.py",
    "the dependency tuples of per_property_dependencies/per_state_dependencies are NOT hand-written: they "
    "are regenerated from the AST of dependency.py on every run (Gen_C31.v) and must equal the table the "
    "theorems were proved for",
    "the statement CONTENTS (which fk value an INSERT/UPDATE carries) are a static function of the "
    "database state before/after the flush (the sync rules themselves belong to C30); compared with the "
    "emitted statements on every in-guard case",
    "the reference database (row exists / referenced row exists / no incoming reference on DELETE / NOT "
    "NULL) is validated against SQLite with PRAGMA foreign_keys=ON on every case; PostgreSQL/MariaDB "
    "immediate checks are assumed to agree with it",
    "execution inside one layer: every order is covered by the theorems (the real order is sort_key order "
    "without cycles, set.pop order with cycles)",
]
ASSUMPTIONS = [
    "foreign key values are changed only through relationships (no direct assignment of fk columns), "
    "primary keys are not changed (no _DetectKeySwitch / listonly states), no "
    "delete-orphan on many-to-one",
    "the hypotheses wf/consistent/managed of the theorems (decidable; evaluated on every case; they are "
    "expected to hold - and are checked to hold - on every case of the in-guard families)",
]
ANCHORS = [
    ("lib/sqlalchemy/orm/unitofwork.py", "UOWTransaction._generate_actions"),
    ("lib/sqlalchemy/orm/unitofwork.py", "UOWTransaction.execute"),
    ("lib/sqlalchemy/orm/unitofwork.py", "UOWTransaction._per_mapper_flush_actions"),
    ("lib/sqlalchemy/orm/unitofwork.py", "UOWTransaction.states_for_mapper_hierarchy"),
    ("lib/sqlalchemy/orm/unitofwork.py", "_Preprocess"),
    ("lib/sqlalchemy/orm/dependency.py", "_DependencyProcessor.prop_has_changes"),
    ("lib/sqlalchemy/orm/unitofwork.py", "_PostSortRec"),
    ("lib/sqlalchemy/orm/unitofwork.py", "_ProcessAll"),
    ("lib/sqlalchemy/orm/unitofwork.py", "_PostUpdateAll"),
    ("lib/sqlalchemy/orm/unitofwork.py", "_SaveUpdateAll"),
    ("lib/sqlalchemy/orm/unitofwork.py", "_DeleteAll"),
    ("lib/sqlalchemy/orm/unitofwork.py", "_ProcessState"),
    ("lib/sqlalchemy/orm/unitofwork.py", "_SaveUpdateState"),
    ("lib/sqlalchemy/orm/unitofwork.py", "_DeleteState"),
    ("lib/sqlalchemy/orm/dependency.py", "_DependencyProcessor.per_property_flush_actions"),
    ("lib/sqlalchemy/orm/dependency.py", "_DependencyProcessor.per_state_flush_actions"),
]
# the functions whose dependency tuples are extracted (T1)
TABLE_CLASSES = [("_OneToManyDP", 0), ("_ManyToOneDP", 1), ("_ManyToManyDP", 2)]

K = 1048576


# ---------------------------------------------------------------- T1: dependency tables from the AST
_PROP_NAMES = {
    "parent_saves": "PSaves", "child_saves": "CSaves", "parent_deletes": "PDels", "child_deletes": "CDels",
    "after_save": "AfterSave", "before_delete": "BeforeDel",
}
_STATE_NAMES = {
    "save_parent": "SSaveP", "delete_parent": "SDelP", "child_action": "SChild", "after_save": "SAfter",
    "before_delete": "SBefore",
}


def _extract(repo):
    """returns (prop_table, state_table): {(kind, post): [(a, b)...]}, {(kind, post, isdel, cdel): [...]};
    fails closed (raises) on any construct it does not understand"""
    import ast
    import os

    with open(os.path.join(repo, "lib/sqlalchemy/orm/dependency.py")) as f:
        mod = ast.parse(f.read())
    classes = {n.name: n for n in mod.body if isinstance(n, ast.ClassDef)}

    def method(cls, name):
        for n in classes[cls].body:
            if isinstance(n, ast.FunctionDef) and n.name == name:
                return n
        raise ValueError("no %s.%s" % (cls, name))

    def cond(e, env):
        if isinstance(e, ast.UnaryOp) and isinstance(e.op, ast.Not):
            return not cond(e.operand, env)
        if isinstance(e, ast.Name) and e.id in env:
            return env[e.id]
        if isinstance(e, ast.Attribute) and isinstance(e.value, ast.Name) and e.value.id == "self" and e.attr == "post_update":
            return env["post"]
        raise ValueError("unsupported condition: " + ast.dump(e))

    def post_role(call, state):
        # unitofwork._PostUpdateAll(uow, self.<mapper|parent>.primary_base_mapper, <False|True>)
        if not (isinstance(call, ast.Call) and isinstance(call.func, ast.Attribute) and call.func.attr == "_PostUpdateAll"):
            raise ValueError("unsupported assignment value: " + ast.dump(call))
        a = call.args
        if len(a) != 3 or not (isinstance(a[0], ast.Name) and a[0].id == "uow"):
            raise ValueError("unsupported _PostUpdateAll call")
        m = a[1]
        if not (isinstance(m, ast.Attribute) and m.attr == "primary_base_mapper" and isinstance(m.value, ast.Attribute)
                and isinstance(m.value.value, ast.Name) and m.value.value.id == "self" and m.value.attr in ("mapper", "parent")):
            raise ValueError("unsupported mapper expression")
        if not (isinstance(a[2], ast.Constant) and a[2].value in (True, False)):
            raise ValueError("unsupported isdelete flag")
        side = "C" if m.value.attr == "mapper" else "P"
        nm = side + ("Pre" if a[2].value else "Post")
        return ("S" + nm) if state else nm

    def run(body, env, names, state, out):
        for st in body:
            if isinstance(st, ast.Expr) and isinstance(st.value, ast.Constant):
                continue  # docstring
            if isinstance(st, ast.If):
                run(st.body if cond(st.test, env) else st.orelse, env, names, state, out)
            elif isinstance(st, ast.Assign) and len(st.targets) == 1 and isinstance(st.targets[0], ast.Name):
                names[st.targets[0].id] = post_role(st.value, state)
            elif (isinstance(st, ast.Expr) and isinstance(st.value, ast.Call) and isinstance(st.value.func, ast.Attribute)
                  and st.value.func.attr == "update" and ast.unparse(st.value.func.value) == "uow.dependencies"
                  and len(st.value.args) == 1 and isinstance(st.value.args[0], ast.List)):
                for tup in st.value.args[0].elts:
                    if not (isinstance(tup, ast.Tuple) and len(tup.elts) == 2 and all(isinstance(x, ast.Name) for x in tup.elts)):
                        raise ValueError("unsupported dependency tuple: " + ast.dump(tup))
                    a, b = (names[x.id] for x in tup.elts)
                    out.append((a, b))
            else:
                raise ValueError("unsupported statement: " + ast.unparse(st)[:200])

    prop, state = {}, {}
    for cls, kind in TABLE_CLASSES:
        fp = method(cls, "per_property_dependencies")
        args = [a.arg for a in fp.args.args]
        if args != ["self", "uow", "parent_saves", "child_saves", "parent_deletes", "child_deletes", "after_save", "before_delete"]:
            raise ValueError("signature of %s.per_property_dependencies changed: %s" % (cls, args))
        for post in (False, True):
            out = []
            run(fp.body, {"post": post}, dict(_PROP_NAMES), False, out)
            prop[(kind, post)] = out
        fs = method(cls, "per_state_dependencies")
        args = [a.arg for a in fs.args.args]
        if args != ["self", "uow", "save_parent", "delete_parent", "child_action", "after_save", "before_delete", "isdelete", "childisdelete"]:
            raise ValueError("signature of %s.per_state_dependencies changed: %s" % (cls, args))
        for post in (False, True):
            for isdel in (False, True):
                for cdel in (False, True):
                    out = []
                    run(fs.body, {"post": post, "isdelete": isdel, "childisdelete": cdel}, dict(_STATE_NAMES), True, out)
                    state[(kind, post, isdel, cdel)] = out
    return prop, state


def _tables_v(prop, state):
    b = lambda v: "true" if v else "false"
    pl = lambda l: "[" + "; ".join("(%s, %s)" % e for e in l) + "]"
    tp = ";\n    ".join("(%d, %s, %s)" % (k, b(p), pl(prop[(k, p)])) for k in (0, 1, 2) for p in (False, True))
    ts = ";\n    ".join(
        "(%d, %s, %s, %s, %s)" % (k, b(p), b(i), b(c), pl(state[(k, p, i, c)]))
        for k in (0, 1, 2) for p in (False, True) for i in (False, True) for c in (False, True)
    )
    return "{|\n  t_prop := [\n    %s ];\n  t_state := [\n    %s ]\n|}" % (tp, ts)


def pin_check(repo):
    from translate import fingerprint

    fingerprint.check(repo, ANCHORS, "C31")


def translate(repo, outdir):
    import os

    prop, state = _extract(repo)
    src = (
        "(* generated on every run from the AST of lib/sqlalchemy/orm/dependency.py - do not edit *)\n"
        "From Coq Require Import List NArith Bool.\nImport ListNotations.\n"
        "From SAV.base Require Import Tree.\nFrom SAV.orm Require Import FlushOrder FlushOrderSpec FlushOrderRun.\n"
        "Local Open Scope N_scope.\n\n"
        "Definition gen_tables : tables := %s.\n\n"
        "Definition run_case := run_with gen_tables.\n" % _tables_v(prop, state)
    )
    src2 = (
        "(* generated on every run - the dependency tuples the code registers NOW are the ones the theorems of\n"
        "   props/C31.v were proved for *)\n"
        "From Coq Require Import List NArith Bool.\nImport ListNotations.\n"
        "From SAV.orm Require Import FlushOrder.\nRequire Import Gen.Gen_C31.\n\n"
        "Lemma gen_tables_are_the_proved_ones : gen_tables = std_tables.\nProof. reflexivity. Qed.\n"
    )
    p = os.path.join(outdir, "Gen_C31.v")
    with open(p, "w") as fh:
        fh.write(src)
    p2 = os.path.join(outdir, "Gen_C31_obl.v")
    with open(p2, "w") as fh:
        fh.write(src2)
    return [p, p2]


def runner_for_run(bdir):
    return ("Gen.Gen_C31", "run_case")


# ---------------------------------------------------------------- schema families
def _fk(a, b, m2o=1, o2m=1, post=0, nn=0, casc=0, passive=0, orphan=0, m2ocasc=0):
    return [0, a, b, m2o | o2m << 1 | post << 2 | nn << 3 | casc << 4 | passive << 5 | orphan << 6 | m2ocasc << 7]


def _mm(a, b, fwd=1, bwd=1):
    return [1, a, b, fwd | bwd << 1]


FAMILIES = {
    # name: (classes, rels)
    "o2m": ([-1, -1], [_fk(1, 0)]),
    "o2m-nobackref": ([-1, -1], [_fk(1, 0, m2o=0)]),
    "m2o-only": ([-1, -1], [_fk(1, 0, o2m=0)]),
    "o2m-cascade-nn": ([-1, -1], [_fk(1, 0, nn=1, casc=1)]),
    "chain3": ([-1, -1, -1], [_fk(1, 0), _fk(2, 1)]),
    "tree": ([-1], [_fk(0, 0)]),
    "tree-m2o-only": ([-1], [_fk(0, 0, o2m=0)]),
    "tree-o2m-only": ([-1], [_fk(0, 0, m2o=0)]),
    "tree-cascade": ([-1], [_fk(0, 0, casc=1)]),
    "mutual-m2o": ([-1, -1], [_fk(0, 1, o2m=0), _fk(1, 0, o2m=0)]),
    "mutual-backref": ([-1, -1], [_fk(0, 1), _fk(1, 0)]),
    "post-m2o": ([-1, -1], [_fk(1, 0), _fk(0, 1, o2m=0, post=1)]),
    "post-self": ([-1], [_fk(0, 0, o2m=0, post=1)]),
    "post-o2m": ([-1, -1, -1], [_fk(1, 0, m2o=0, post=1), _fk(1, 2, m2o=0)]),
    "post-in-cycle": ([-1, -1], [_fk(0, 1, o2m=0), _fk(1, 0, o2m=0), _fk(1, 0, post=1)]),
    "m2m": ([-1, -1], [_mm(0, 1)]),
    "m2m-oneway": ([-1, -1], [_mm(0, 1, bwd=0)]),
    "m2m-self": ([-1], [_mm(0, 0)]),
    "m2m+tree": ([-1, -1], [_fk(0, 0), _mm(0, 1)]),
    "parent-of-tree": ([-1, -1], [_fk(1, 0), _fk(1, 1)]),
    "child-of-tree": ([-1, -1], [_fk(0, 0), _fk(1, 0)]),
    "inherit": ([-1, 0, -1], [_fk(0, 2), _fk(2, 1, o2m=0, post=1)]),
    "inherit-sub-fk": ([-1, 0, 0], [_fk(1, 2), _fk(2, 0, o2m=0)]),
    # a post_update many-to-one declared on a base class, flushed for instances of a joined subclass
    "inherit-post": ([-1, 0, -1], [_fk(0, 2, o2m=0, post=1), _fk(2, 0, nn=1, casc=1)]),
    # passive_deletes on a collection whose members are instances of a joined subclass
    "passive-sub": ([-1, -1, 1], [_fk(1, 0, m2o=0, passive=1)]),
    "passive": ([-1, -1], [_fk(1, 0, passive=1)]),
    # two relationships on one mapper: a many-to-one with delete cascade declared first, a delete-orphan
    # collection declared second; states reach the flush in a LATER presort round (orphans, cascades)
    "orphan-tree+m2o": ([-1, -1], [_fk(0, 1, o2m=0, m2ocasc=1), _fk(0, 0, m2o=0, orphan=1)]),
    "orphan-o2m+m2o": ([-1, -1, -1], [_fk(1, 2, o2m=0, m2ocasc=1), _fk(1, 0, orphan=1)]),
    # two mappers that depend on each other through two one-to-many relationships without many-to-one sides
    # (per-state regime; the only edge that orders "UPDATE child SET fk=NULL" before "DELETE parent" is the
    # (child_action, delete_parent) edge of _OneToManyDP.per_state_dependencies)
    "mutual-o2m": ([-1, -1], [_fk(0, 1, m2o=0), _fk(1, 0, m2o=0)]),
    # adjacency list + one-way self-referential many-to-many (per-state many-to-many dependencies)
    "tree+m2m-self-oneway": ([-1], [_fk(0, 0), _mm(0, 0, bwd=0)]),
}
# families all of whose cases are expected to satisfy the hypotheses of the guarded theorem
IN_GUARD = {"o2m", "chain3", "tree", "tree-cascade", "m2m", "m2m-self", "m2m+tree", "mutual-backref", "parent-of-tree", "child-of-tree"}


def _sub(classes, k, j):
    """class k is j or a subclass of j"""
    while k >= 0:
        if k == j:
            return True
        k = classes[k]
    return False


def _rand_script(rng, classes, rels, nops):
    objs = []  # class per object
    ops = []

    def pick(cls):
        c = [i for i, k in enumerate(objs) if _sub(classes, k, cls)]
        return rng.choice(c) if c else None

    for _ in range(rng.randint(2, 4)):
        k = rng.randrange(len(classes))
        objs.append(k)
        ops.append([0, k])
    for _ in range(nops):
        r = rng.random()
        if r < 0.18 or not objs:
            k = rng.randrange(len(classes))
            objs.append(k)
            ops.append([0, k])
        elif r < 0.62 and rels:
            i = rng.randrange(len(rels))
            kind, a, b, fl = rels[i]
            x, y = pick(a), pick(b)
            if x is None or y is None or (kind == 0 and x == y):
                continue
            if kind == 0:
                ch = rng.random()
                if ch < 0.55:
                    ops.append([1, i, x, y])
                elif ch < 0.7:
                    ops.append([1, i, x, -1])
                elif ch < 0.9:
                    ops.append([2, i, y, x])
                else:
                    ops.append([3, i, y, x])
            else:
                ops.append([4 if rng.random() < 0.7 else 5, i, x, y])
        elif r < 0.76:
            ops.append([6, rng.randrange(len(objs))])
        elif r < 0.86:
            ops.append([7])
        elif r < 0.96:
            ops.append([8])
        else:
            ops.append([9])
    return ops


def _small_scope(classes, rels, quick):
    """committed prefix (a few linked objects) followed by every script of <= 2 (quick) / 3 operations"""
    out = []
    ncls = len(classes)
    base = [[0, k % ncls] for k in range(4)]
    link = []
    for i, (kind, a, b, fl) in enumerate(rels):
        xs = [j for j in range(4) if _sub(classes, j % ncls, a)]
        ys = [j for j in range(4) if _sub(classes, j % ncls, b)]
        for x in xs[:1]:
            for y in ys[-1:]:
                if kind == 1 or x != y:
                    link.append([1, i, x, y] if kind == 0 else [4, i, x, y])
    alphabet = []
    for i, (kind, a, b, fl) in enumerate(rels):
        xs = [j for j in range(5) if _sub(classes, ([k % ncls for k in range(4)] + [a])[j], a)]
        ys = [j for j in range(5) if _sub(classes, ([k % ncls for k in range(4)] + [a])[j], b)]
        for x in xs:
            for y in ys:
                if kind == 0:
                    if x != y:
                        alphabet.append([1, i, x, y])
                else:
                    alphabet.append([4, i, x, y])
                    alphabet.append([5, i, x, y])
            if kind == 0:
                alphabet.append([1, i, x, -1])
    for j in range(4):
        alphabet.append([6, j])
    n = 2 if quick else 3
    pre = base + link + [[8]]
    for prefix in (pre, base + link + [[8], [0, rels[0][1]]]):
        for k in range(1, n + 1):
            for seq in itertools.product(alphabet, repeat=k):
                out.append(prefix + [list(o) for o in seq])
    return out


EXTRA = {
    # person(sub) <-> ball cycle: insert both with favorite set, commit, delete both
    "inherit-post": [
        [[0, 1], [0, 2], [1, 0, 0, 1], [1, 1, 1, 0], [8], [6, 0], [6, 1]],
        [[0, 1], [0, 2], [1, 0, 0, 1], [1, 1, 1, 0], [8], [10, 0, 0, 1], [6, 0], [6, 1]],
        [[0, 0], [0, 2], [1, 0, 0, 1], [1, 1, 1, 0], [8], [10, 0, 0, 1], [6, 0], [6, 1]],
        [[0, 1], [0, 2], [1, 0, 0, 1], [1, 1, 1, 0]],
        [[0, 1], [0, 2], [1, 0, 0, 1], [1, 1, 1, 0], [8], [9], [6, 0]],
        [[0, 0], [0, 2], [1, 0, 0, 1], [1, 1, 1, 0], [8], [6, 0], [6, 1]],
    ],
    "passive-sub": [
        [[0, 0], [0, 2], [0, 2], [2, 0, 0, 1], [2, 0, 0, 2], [8], [9], [6, 0], [6, 1], [6, 2]],
        [[0, 0], [0, 1], [0, 1], [2, 0, 0, 1], [2, 0, 0, 2], [8], [9], [6, 0], [6, 1], [6, 2]],
        [[0, 0], [0, 2], [2, 0, 0, 1], [8], [9], [6, 1], [6, 0]],
    ],
    "passive": [
        [[0, 0], [0, 1], [0, 1], [2, 0, 0, 1], [2, 0, 0, 2], [8], [9], [6, 0], [6, 1], [6, 2]],
    ],
    # root(0) with storage s1(2), child c2(1) with storage s2(3); everything expired; the child is removed from
    # the collection: it is an orphan, deleted in a later presort round together with its storage
    "orphan-tree+m2o": [
        [[0, 0], [0, 0], [0, 1], [0, 1], [1, 0, 0, 2], [1, 0, 1, 3], [2, 1, 0, 1], [8], [9], [3, 1, 0, 1]],
        [[0, 0], [0, 0], [0, 1], [0, 1], [1, 0, 0, 2], [1, 0, 1, 3], [2, 1, 0, 1], [8], [3, 1, 0, 1]],
        [[0, 0], [0, 0], [0, 1], [0, 1], [1, 0, 0, 2], [1, 0, 1, 3], [2, 1, 0, 1], [8], [9], [6, 0]],
        [[0, 0], [0, 0], [0, 0], [0, 1], [0, 1], [1, 0, 1, 3], [1, 0, 2, 4], [2, 1, 0, 1], [2, 1, 1, 2], [8], [9], [3, 1, 0, 1]],
    ],
    "orphan-o2m+m2o": [
        [[0, 0], [0, 1], [0, 2], [1, 0, 1, 2], [2, 1, 0, 1], [8], [9], [3, 1, 0, 1]],
        [[0, 0], [0, 1], [0, 2], [1, 0, 1, 2], [2, 1, 0, 1], [8], [9], [6, 0]],
    ],
    # a department with two employees is deleted, the employees stay
    "mutual-o2m": [
        [[0, 0], [0, 1], [0, 1], [1, 1, 1, 0], [1, 1, 2, 0], [8], [6, 0]],
        [[0, 0], [0, 1], [0, 1], [1, 1, 1, 0], [1, 0, 0, 2], [8], [6, 0]],
        [[0, 0], [0, 1], [0, 1], [1, 1, 1, 0], [1, 1, 2, 0], [8], [9], [6, 0]],
    ],
    # a node is unlinked and deleted while a new node is added to the tree and linked in the same flush
    "tree+m2m-self-oneway": [
        [[0, 0], [0, 0], [0, 0], [4, 1, 0, 1], [8], [5, 1, 0, 1], [6, 1], [0, 0], [1, 0, 3, 0], [4, 1, 3, 0]],
        [[0, 0], [0, 0], [0, 0], [4, 1, 0, 1], [4, 1, 2, 1], [8], [5, 1, 0, 1], [5, 1, 2, 1], [6, 1], [0, 0], [1, 0, 3, 0], [4, 1, 3, 2]],
        [[0, 0], [0, 0], [0, 0], [4, 1, 0, 1], [8], [6, 1], [0, 0], [1, 0, 3, 0], [4, 1, 3, 0]],
    ],
}


def _directed(classes, rels):
    """one script per ordering need and API form: every relationship x {insert both, unlink + delete the
    target, delete both, re-point + delete the old target, delete the target only, delete the holder only}"""

    def concrete(cls):
        # cls and its joined subclasses
        return [k for k in range(len(classes)) if _sub(classes, k, cls)]

    out = []
    for i, (kind, a, b, fl) in enumerate(rels):
      for ca in concrete(a):
       for cb in concrete(b):
        inst = lambda c: ca if c == a else cb
        base = [[0, ca], [0, cb], [0, cb]]  # x = 0 (holder / left), y = 1, y2 = 2
        if kind == 0:
            for link in ([1, i, 0, 1], [2, i, 1, 0]):
                unlink = [1, i, 0, -1] if link[0] == 1 else [3, i, 1, 0]
                relink = [1, i, 0, 2] if link[0] == 1 else [2, i, 2, 0]
                pre = base + [link, [8]]
                out += [base + [link], pre + [unlink, [6, 1]], pre + [[6, 1], unlink], pre + [[6, 0], [6, 1]],
                        pre + [relink, [6, 1]], pre + [[6, 1]], pre + [[6, 0]], pre + [[0, inst(a)], [6, 1]],
                        base[:2] + [[8], link, [0, inst(b)]], pre + [unlink, [7], link]]
        else:
            pre = base + [[4, i, 0, 1], [8]]
            out += [base + [[4, i, 0, 1]], pre + [[5, i, 0, 1], [6, 1]], pre + [[6, 1]], pre + [[6, 0]], pre + [[6, 0], [6, 1]],
                    pre + [[4, i, 0, 2], [6, 1]], pre + [[5, i, 0, 1], [4, i, 0, 2]]]
    return out


def search_cases(rng, tier):
    """search phase only (the tie is already broken): a much larger sample of the small-scope scripts"""
    return gen_cases(rng, "search")


def gen_cases(rng, tier):
    quick = tier != "thorough"
    cases = []
    for name, (classes, rels) in FAMILIES.items():
        ss = _small_scope(classes, rels, quick)
        cap = 90 if tier == "search" else 8 if quick else 1500
        if len(ss) > cap:
            ss = rng.sample(ss, cap)
        for ops in ss:
            cases.append({"in": [classes, rels, ops], "kind": "small:" + name, "fam": name})
        dd = _directed(classes, rels)
        extra = EXTRA.get(name, [])
        if tier not in ("search", "thorough") and len(dd) > 10:
            dd = rng.sample(dd, 10)
        for ops in extra:
            cases.append({"in": [classes, rels, ops], "kind": "directed:" + name, "fam": name, "claim": True})
        for ops in dd:
            cases.append({"in": [classes, rels, ops], "kind": "directed:" + name, "fam": name})
        for _ in range(6 if quick else 500):
            ops = _rand_script(rng, classes, rels, rng.randint(3, 14 if quick else 40))
            cases.append({"in": [classes, rels, ops], "kind": "rand:" + name, "fam": name})
    # random schemas
    for _ in range(60 if quick else 4000):
        ncls = rng.randint(1, 3)
        classes = [-1] + [rng.choice([-1, -1, rng.randrange(k)]) for k in range(1, ncls)]
        rels = []
        for _ in range(rng.randint(1, 3)):
            a, b = rng.randrange(ncls), rng.randrange(ncls)
            if rng.random() < 0.75:
                m2o, o2m = rng.choice([(1, 1), (1, 1), (1, 0), (0, 1)])
                rels.append(_fk(a, b, m2o, o2m, post=int(rng.random() < 0.2), nn=0, casc=int(o2m and rng.random() < 0.25)))
            else:
                fwd, bwd = rng.choice([(1, 1), (1, 0)])
                rels.append(_mm(a, b, fwd, bwd))
        ops = _rand_script(rng, classes, rels, rng.randint(3, 14 if quick else 40))
        cases.append({"in": [classes, rels, ops], "kind": "rand-schema", "fam": "rand"})
    return cases


def nontrivial(c):
    # model input (after model_pair): the trace has >= 2 statements
    try:
        return len(c["in"][8]) >= 2
    except Exception:
        return False


# ---------------------------------------------------------------- implementation side
_last = {}


def _build(classes, rels):
    import warnings

    from sqlalchemy import Column, ForeignKey, Integer, Table
    from sqlalchemy.orm import declarative_base, relationship

    warnings.simplefilter("ignore")
    Base = declarative_base()
    cl = [None] * len(classes)

    def tab(k):
        return cl[k].__table__

    for k, par in enumerate(classes):
        attrs = {"__tablename__": "t%d" % k}
        if par < 0:
            attrs["id"] = Column(Integer, primary_key=True)
            attrs["typ"] = Column(Integer)
            attrs["__mapper_args__"] = {"polymorphic_on": "typ", "polymorphic_identity": k}
        else:
            idc = Column(ForeignKey("t%d.id" % par), primary_key=True)
            attrs["id"] = idc
            attrs["__mapper_args__"] = {"polymorphic_identity": k, "inherit_condition": idc == cl[par].__table__.c.id}
        for i, (kind, a, b, fl) in enumerate(rels):
            if kind == 0 and a == k:
                attrs["f%d" % i] = Column(ForeignKey("t%d.id" % b), nullable=not (fl >> 3 & 1))
        cl[k] = type("C%d" % k, (Base if par < 0 else cl[par],), attrs)
    secs = {}
    for i, (kind, a, b, fl) in enumerate(rels):
        if kind == 0:
            post = bool(fl >> 2 & 1)
            if fl & 1:
                setattr(cl[a], "r%d" % i, relationship(
                    cl[b], foreign_keys=[tab(a).c["f%d" % i]], remote_side=[tab(b).c.id], post_update=post,
                    primaryjoin=tab(a).c["f%d" % i] == tab(b).c.id,
                    cascade="all" if fl >> 7 & 1 else "save-update, merge",
                    back_populates=("c%d" % i) if fl & 2 else None))
            if fl & 2:
                setattr(cl[b], "c%d" % i, relationship(
                    cl[a], foreign_keys=[tab(a).c["f%d" % i]], remote_side=[tab(a).c["f%d" % i]], post_update=post,
                    primaryjoin=tab(a).c["f%d" % i] == tab(b).c.id,
                    cascade="all, delete-orphan" if fl >> 6 & 1 else "all" if fl >> 4 & 1 else "save-update, merge",
                    passive_deletes=bool(fl >> 5 & 1),
                    back_populates=("r%d" % i) if fl & 1 else None))
        else:
            t = Table("s%d" % i, Base.metadata,
                      Column("l", ForeignKey("t%d.id" % a), primary_key=True),
                      Column("r", ForeignKey("t%d.id" % b), primary_key=True))
            secs[i] = t
            if fl & 1:
                setattr(cl[a], "m%d" % i, relationship(
                    cl[b], secondary=t, primaryjoin=tab(a).c.id == t.c.l, secondaryjoin=tab(b).c.id == t.c.r,
                    back_populates=("n%d" % i) if fl & 2 else None))
            if fl & 2:
                setattr(cl[b], "n%d" % i, relationship(
                    cl[a], secondary=t, primaryjoin=tab(b).c.id == t.c.r, secondaryjoin=tab(a).c.id == t.c.l,
                    back_populates=("m%d" % i) if fl & 1 else None))
    return Base, cl, secs


def _base(classes, k):
    while classes[k] >= 0:
        k = classes[k]
    return k


def _dbstate(conn, classes, rels):
    live, refs, secs = [], [], []
    for k in range(len(classes)):
        cols = [i for i, r in enumerate(rels) if r[0] == 0 and r[1] == k]
        rows = conn.exec_driver_sql("select id%s from t%d" % ("".join(", f%d" % i for i in cols), k)).fetchall()
        for row in rows:
            if classes[k] < 0:
                live.append(row[0] - 1)
            for i, v in zip(cols, row[1:]):
                if v is not None:
                    refs.append([row[0] - 1, i, v - 1])
    for i, r in enumerate(rels):
        if r[0] == 1:
            for l, rr in conn.exec_driver_sql("select l, r from s%d" % i).fetchall():
                secs.append([i, l - 1, rr - 1])
    return sorted(live), sorted(refs), sorted(secs)


def impl(c):
    import re

    from sqlalchemy import create_engine, event, inspect
    from sqlalchemy.exc import CircularDependencyError, IntegrityError
    from sqlalchemy.orm import Session, attributes, unitofwork
    from sqlalchemy.pool import StaticPool

    classes, rels, ops = c["in"]
    _last.clear()
    Base, cl, sectabs = _build(classes, rels)
    eng = create_engine("sqlite://", poolclass=StaticPool, use_insertmanyvalues=False)

    @event.listens_for(eng, "connect")
    def _fk_on(dbapi_con, rec):
        dbapi_con.execute("PRAGMA foreign_keys=ON")

    Base.metadata.create_all(eng)
    sess = Session(eng, autoflush=False, expire_on_commit=False)
    objs = []
    trouble = []

    def has(o, name):
        return hasattr(type(o), name)

    def scan_moved():
        """the known finding C31-o2m-member-moved-to-deleted-parent (an INTERMEDIATE flush leaves a row that
        references a parent whose collection no longer holds it): one-to-many without a many-to-one side, a
        persistent member whose foreign key names another row is an ADDED member of a parent that is deleted"""
        for o in list(sess.deleted):
            for i, (kind, a, b, fl) in enumerate(rels):
                if kind == 0 and fl & 2 and not (fl & 1) and isinstance(o, cl[b]) and ("c%d" % i) in inspect(o).dict:
                    h = attributes.get_history(o, "c%d" % i, passive=attributes.PASSIVE_NO_INITIALIZE)
                    for ch in h.added or ():
                        st = inspect(ch)
                        if st.persistent and st.dict.get("f%d" % i) not in (None, o.id):
                            trouble.append("moved")

    def scan_cancel():
        """an INTERMEDIATE flush that cancels a delete (C30-cancelled-delete-is-only-postponed): the object stays
        in session.deleted and is deleted by a later flush; nothing is claimed afterwards"""
        for o in list(sess.deleted):
            for i, (kind, a, b, fl) in enumerate(rels):
                if kind == 0 and fl & 2 and isinstance(o, cl[a]):
                    for p in objs:
                        if (isinstance(p, cl[b]) and p in sess and p not in sess.deleted and ("c%d" % i) in inspect(p).dict
                                and o in (attributes.get_history(p, "c%d" % i, passive=attributes.PASSIVE_NO_INITIALIZE).added or ())):
                            trouble.append("taint")

    def run_op(op):
        t = op[0]
        if t == 0:
            o = cl[op[1]](id=len(objs) + 1)
            objs.append(o)
            sess.add(o)
        elif t in (1, 2, 3):
            i = op[1]
            kind, a, b, fl = rels[i]
            if t == 1:
                h, tg = op[2], op[3]
            else:
                tg, h = op[2], op[3]
            if kind != 0 or h >= len(objs) or tg >= len(objs):
                return
            ho = objs[h]
            to = objs[tg] if tg >= 0 else None
            if not isinstance(ho, cl[a]) or (to is not None and not isinstance(to, cl[b])):
                return
            if t == 1:
                if fl & 1:
                    setattr(ho, "r%d" % i, to)
                elif to is not None:
                    for p in objs:
                        if isinstance(p, cl[b]) and p is not to and ho in getattr(p, "c%d" % i):
                            getattr(p, "c%d" % i).remove(ho)
                    if ho not in getattr(to, "c%d" % i):
                        getattr(to, "c%d" % i).append(ho)
                else:
                    for p in objs:
                        if isinstance(p, cl[b]) and ho in getattr(p, "c%d" % i):
                            getattr(p, "c%d" % i).remove(ho)
            elif fl & 2:
                coll = getattr(to, "c%d" % i)
                if t == 2:
                    if not (fl & 1):
                        for p in objs:
                            if isinstance(p, cl[b]) and p is not to and ho in getattr(p, "c%d" % i):
                                getattr(p, "c%d" % i).remove(ho)
                    if ho not in coll:
                        coll.append(ho)
                elif ho in coll:
                    coll.remove(ho)
        elif t in (4, 5):
            i = op[1]
            kind, a, b, fl = rels[i]
            if kind != 1 or op[2] >= len(objs) or op[3] >= len(objs):
                return
            x, y = objs[op[2]], objs[op[3]]
            if not isinstance(x, cl[a]) or not isinstance(y, cl[b]):
                return
            if fl & 1:
                coll, item = getattr(x, "m%d" % i), y
            else:
                coll, item = getattr(y, "n%d" % i), x
            if t == 4:
                if item not in coll:
                    coll.append(item)
            elif item in coll:
                coll.remove(item)
        elif t == 6:
            if op[1] < len(objs):
                o = objs[op[1]]
                st = inspect(o)
                if st.persistent:
                    sess.delete(o)
                elif st.pending:
                    sess.expunge(o)
        elif t == 10:
            # the row as another program would have written it: UPDATE <holder table> SET fk = target
            i = op[1]
            kind, a, b, fl = rels[i]
            if kind == 0 and op[2] < len(objs) and op[3] < len(objs):
                ho, to = objs[op[2]], objs[op[3]]
                if isinstance(ho, cl[a]) and isinstance(to, cl[b]) and inspect(ho).persistent and inspect(to).persistent:
                    sess.connection().exec_driver_sql("update t%d set f%d=%d where id=%d" % (a, i, to.id, ho.id))
        elif t in (7, 8):
            import warnings

            scan_moved()
            scan_cancel()
            with warnings.catch_warnings(record=True) as ws:
                warnings.simplefilter("always")
                if t == 7:
                    sess.flush()
                else:
                    sess.commit()
            if any("not in session" in str(w.message) for w in ws):
                # a member of a collection was outside the session: the unit of work skips the operation (with
                # this warning) but commits the collection as it is: memory and database differ from here on
                trouble.append("taint")
        elif t == 9:
            sess.expire_all()

    try:
        for op in ops:
            run_op(op)
    except Exception as e:  # a failing intermediate flush: the case degenerates, observe nothing
        sess.rollback()
        sess.close()
        eng.dispose()
        _last["skip"] = True
        return [9, type(e).__name__[:40]]

    def par_of(o, i):
        """o.r<i> WITHOUT loading an unloaded many-to-one (the flush must see it unloaded): the object whose
        key is in the foreign key column"""
        if ("r%d" % i) in inspect(o).dict:
            return getattr(o, "r%d" % i)
        v = getattr(o, "f%d" % i)
        if v is None:
            return None
        for x in objs:
            if isinstance(x, cl[rels[i][2]]) and inspect(x).identity is not None and x.id == v:
                return x
        return None

    def coll_of(par, i):
        """members of par.c<i> WITHOUT loading an unloaded collection (the flush must see it unloaded)"""
        if ("c%d" % i) in inspect(par).dict:
            return list(getattr(par, "c%d" % i))
        return [x for x in objs if x in sess and isinstance(x, cl[rels[i][1]]) and getattr(x, "f%d" % i) == par.id]

    # ---- intended final state read from the in-memory graph (for the oracle only)
    deleted = set(id(o) for o in sess.deleted)
    insess = [o for o in objs if o in sess]
    consistent = True
    rowcycle = False
    memlinks = {}
    tgt = {}
    try:
        for o in insess:
            if id(o) in deleted:
                # rows to delete: a reference cycle among them cannot be deleted without post_update either
                for i, (kind, a, b, fl) in enumerate(rels):
                    if kind == 0 and isinstance(o, cl[a]) and fl & 1 and not (fl >> 2 & 1):
                        t = par_of(o, i)
                        if t is not None:
                            tgt.setdefault(id(o), set()).add(id(t))
                    if kind == 0 and isinstance(o, cl[a]) and fl & 2:
                        for p in insess:
                            if (isinstance(p, cl[b]) and id(p) not in deleted and ("c%d" % i) in inspect(p).dict
                                    and o in (attributes.get_history(p, "c%d" % i, passive=attributes.PASSIVE_NO_INITIALIZE).added or ())):
                                # the one-to-many presort CANCELS this delete (register_object(cancel_delete=True),
                                # the known finding C30-cancelled-delete-is-only-postponed): which rows go away is
                                # decided during the flush, nothing is claimed
                                consistent = False
                continue
            for i, (kind, a, b, fl) in enumerate(rels):
                if kind == 0 and isinstance(o, cl[a]):
                    t = None
                    if fl & 1:
                        t = par_of(o, i)
                    else:
                        ps = [p for p in insess if isinstance(p, cl[b]) and o in coll_of(p, i)]
                        if any(isinstance(p, cl[b]) and p not in sess and ("c%d" % i) in inspect(p).dict
                               and o in getattr(p, "c%d" % i) for p in objs):
                            # a member of the collection of an object that is NOT in the session (expunged, or
                            # deleted by an earlier commit): has_parent is set, so the unit of work will not
                            # clear the key when o leaves its real parent; nothing is claimed
                            consistent = False
                        if fl >> 5 & 1 and any(("c%d" % i) not in inspect(p).dict for p in ps):
                            consistent = False  # passive_deletes: the unloaded members keep their key
                        if len(ps) > 1:
                            consistent = False
                        t = ps[0] if ps else None
                        if t is not None and id(t) in deleted and not (fl >> 4 & 1):
                            t = None  # the ORM sets the fk to NULL when the parent goes away
                    if t is None:
                        if fl >> 3 & 1:
                            consistent = False
                        if inspect(o).key is None and getattr(o, "f%d" % i) is not None:
                            # an object about to be INSERTed that carries a foreign key VALUE no relationship in
                            # the session accounts for (written into it by an earlier flush while it was a
                            # member of a collection but expunged, its parent since deleted): the flush writes
                            # the attribute as it is; nothing is claimed about such rows
                            consistent = False
                    elif id(t) in deleted or t not in sess:
                        consistent = False
                    elif not (fl >> 2 & 1):
                        tgt.setdefault(id(o), set()).add(id(t))
                elif kind == 1:
                    for nm, c_ in (("m%d" % i, cl[a]), ("n%d" % i, cl[b])):
                        if hasattr(type(o), nm) and isinstance(o, c_):
                            coll = list(getattr(o, nm))
                            if len(set(id(y) for y in coll)) != len(coll):
                                consistent = False  # duplicate secondary rows: primary key of the secondary table
                    if fl & 1 and isinstance(o, cl[a]):
                        for y in getattr(o, "m%d" % i):
                            if id(y) in deleted or y not in sess:
                                consistent = False
                    if fl & 2 and isinstance(o, cl[b]):
                        for y in getattr(o, "n%d" % i):
                            if id(y) in deleted or y not in sess:
                                consistent = False
        # every in-memory link (rows being deleted included), for the classification of a
        # CircularDependencyError
        for o in insess:
            for i, (kind, a, b, fl) in enumerate(rels):
                if kind != 0 or fl >> 2 & 1:
                    continue
                if fl & 1 and isinstance(o, cl[a]):
                    t = par_of(o, i)
                    if t is not None:
                        memlinks.setdefault(id(o), set()).add(id(t))
                if fl & 2 and isinstance(o, cl[b]):
                    for ch in coll_of(o, i):
                        memlinks.setdefault(id(ch), set()).add(id(o))
        # a cycle of references over columns that are not post_update
        seen = {}

        def dfs(n):
            seen[n] = 1
            for m in tgt.get(n, ()):
                if seen.get(m) == 1 or (m not in seen and dfs(m)):
                    return True
            seen[n] = 2
            return False

        rowcycle = any(dfs(n) for n in list(tgt) if n not in seen)
    except Exception:
        consistent = False

    conn = sess.connection()
    live0, ref0, sec0 = _dbstate(conn, classes, rels)

    for r_, cc_, t_ in ref0:
        if objs[r_] not in sess and objs[t_] in sess and id(objs[t_]) in deleted:
            # the row of an object that left the session (expunge cascade) still references a row to delete
            consistent = False
    snap = {}
    deps = []  # dependency processors in a fixed order

    def all_dps():
        if deps:
            return deps
        seen_dp = []
        for k in range(len(classes)):
            m = inspect(cl[k])
            for prop in m.relationships:
                dp = prop._dependency_processor
                if not any(dp is d for d in seen_dp):
                    seen_dp.append(dp)
        deps.extend(seen_dp)
        return deps

    mapper_idx = {inspect(cl[k]): k for k in range(len(classes))}
    st_idx = {}

    def code(rec):
        n = type(rec).__name__
        if n == "_SaveUpdateAll":
            return 7 * _base(classes, mapper_idx[rec.mapper])
        if n == "_DeleteAll":
            return 7 * _base(classes, mapper_idx[rec.mapper]) + 1
        if n == "_ProcessAll":
            return 7 * (2 * didx(rec.dependency_processor) + int(rec.isdelete)) + 2
        if n == "_PostUpdateAll":
            return 7 * (2 * _base(classes, mapper_idx[rec.mapper]) + int(rec.isdelete)) + 3
        if n == "_SaveUpdateState":
            return 7 * st_idx[rec.state] + 4
        if n == "_DeleteState":
            return 7 * st_idx[rec.state] + 5
        if n == "_ProcessState":
            return 7 * (2 * (K * st_idx[rec.state] + didx(rec.dependency_processor)) + int(rec.isdelete)) + 6
        raise ValueError(n)

    def didx(dp):
        for j, d in enumerate(all_dps()):
            if d is dp:
                return j
        raise ValueError("unknown dependency processor %r" % (dp,))

    def before_flush(session, ctx, instances):
        orig = ctx._generate_actions

        def wrapped():
            ret = orig()
            for j, o in enumerate(objs):
                st_idx[inspect(o)] = j
            sts = []
            for j, o in enumerate(objs):
                s = inspect(o)
                if s in ctx.states:
                    isdel, listonly = ctx.states[s]
                    if listonly:
                        snap["unsupported"] = "listonly"
                    role = 2 if isdel else 1
                else:
                    role = 0
                sts.append([j, _base(classes, mapper_idx[s.mapper]), int(s.key is not None), role])
            for s in ctx.states:
                if s not in st_idx:
                    snap["unsupported"] = "foreign state"
            dl = []
            links = []
            for j, dp in enumerate(all_dps()):
                prop = dp.prop
                key = dp.key
                # which rel / column
                col = None
                rev = 0
                for i, (kind, a, b, fl) in enumerate(rels):
                    if key in ("r%d" % i, "c%d" % i, "m%d" % i, "n%d" % i):
                        col = i
                        rev = int(key[0] == "n")
                kindn = {"ONETOMANY": 0, "MANYTOONE": 1, "MANYTOMANY": 2}[dp.direction.name]
                active = (unitofwork._ProcessAll, dp, False, True) in ctx.postsort_actions
                dl.append([j, kindn, _base(classes, mapper_idx[dp.parent.base_mapper]),
                           _base(classes, mapper_idx[dp.mapper.base_mapper]), int(bool(dp.post_update)), int(active), col, rev])
                for jj, o in enumerate(objs):
                    s = inspect(o)
                    if s.mapper._props.get(key) is not prop:
                        continue
                    if s not in ctx.states and o not in session:
                        continue
                    # as per_state_flush_actions reads it: with the processor's delete flag for a state that is
                    # being deleted (a PENDING object marked deleted by a cascade has the member (None, None))
                    isdel_ = s in ctx.states and ctx.states[s][0]
                    sm = s.manager[key].impl.get_all_pending(
                        s, s.dict, dp._passive_delete_flag if isdel_ else attributes.PASSIVE_NO_INITIALIZE)
                    for cs, co in sm:
                        if cs is None:
                            links.append([j, jj, None])
                        elif cs in st_idx:
                            links.append([j, jj, st_idx[cs]])
                        else:
                            snap["unsupported"] = "foreign child"
            try:
                snap["cycles"] = sorted(set(code(r) for r in ctx.cycles))
                snap["items"] = sorted(set(code(r) for r in ret))
                snap["edges"] = sorted(set((code(a), code(b)) for a, b in ctx.dependencies))
            except ValueError as e:
                snap["unsupported"] = str(e)
            snap["sts"] = sts
            snap["deps"] = dl
            snap["links"] = links
            return ret

        ctx._generate_actions = wrapped

    event.listen(sess, "before_flush", before_flush)
    trace = []
    tabcls = {"t%d" % k: k for k in range(len(classes))}

    def on_exec(conn_, cursor, statement, parameters, context, executemany):
        plist = parameters if executemany else [parameters]
        m = re.match(r"INSERT INTO (\w+) \(([^)]*)\) VALUES", statement)
        if m:
            cols = [x.strip() for x in m.group(2).split(",")]
            for p in plist:
                trace.append(("ins", m.group(1), dict(zip(cols, p))))
            return
        m = re.match(r"UPDATE (\w+) SET (.*) WHERE (.*)$", statement, re.S)
        if m:
            sets = [x.split("=")[0].strip() for x in m.group(2).split(",")]
            wh = re.findall(r"(\w+)\.(\w+) = \?", m.group(3))
            for p in plist:
                d = dict(zip(sets, p[: len(sets)]))
                w = dict(zip([x[1] for x in wh], p[len(sets):]))
                trace.append(("upd", m.group(1), d, w))
            return
        m = re.match(r"DELETE FROM (\w+) WHERE (.*)$", statement, re.S)
        if m:
            wh = re.findall(r"(\w+)\.(\w+) = \?", m.group(2))
            for p in plist:
                trace.append(("del", m.group(1), dict(zip([x[1] for x in wh], p))))
            return
        if statement.lstrip().upper().startswith("SELECT"):
            return
        trace.append(("other", statement))

    event.listen(eng, "before_cursor_execute", on_exec)
    err = None
    try:
        scan_moved()
        sess.flush()
    except CircularDependencyError:
        err = "circular"
    except IntegrityError as e:
        err = "integrity: " + str(e.orig)
    except Exception as e:
        err = "error: %s: %s" % (type(e).__name__, str(e)[:200])
    event.remove(eng, "before_cursor_execute", on_exec)
    ref1 = sec1 = None
    if err is None:
        live1, ref1, sec1 = _dbstate(sess.connection(), classes, rels)
    sess.rollback()
    sess.close()
    eng.dispose()

    # ---- abstract the trace to events with statements
    items = []
    seen_ev = {}
    cur = {(r, cc): t for r, cc, t in ref0}
    touched = set()
    unsupported = snap.get("unsupported")
    for t in trace:
        if t[0] == "other":
            unsupported = "statement " + t[1][:60]
            continue
        tb = t[1]
        if tb in tabcls:
            k = tabcls[tb]
            if t[0] == "ins":
                r = t[2]["id"] - 1
                vals = [[int(cn[1:]), v - 1] for cn, v in t[2].items() if cn.startswith("f") and v is not None]
                key = ("save", r)
                if key in seen_ev:
                    seen_ev[key][1][3].extend(vals)
                else:
                    it = [[0, r], [0, r, _base(classes, k), vals]]
                    seen_ev[key] = it
                    items.append(it)
            elif t[0] == "upd":
                r = t[3]["id"] - 1
                sets = [[int(cn[1:]), (v - 1) if v is not None else None] for cn, v in t[2].items() if cn.startswith("f")]
                # an UPDATE that writes the value the column already had before the flush changes nothing
                sets = [x for x in sets if cur.get((r, x[0])) != x[1] or (r, x[0]) in touched]
                for x in sets:
                    touched.add((r, x[0]))
                if not sets:
                    continue
                postc = all(rels[s[0]][3] >> 2 & 1 for s in sets)
                anyp = any(rels[s[0]][3] >> 2 & 1 for s in sets)
                if anyp and not postc:
                    # a regular UPDATE that also carries a post_update column (the process step ran first)
                    postc = False
                key = ("post" if postc else "upd", r)
                if key in seen_ev and seen_ev[key][2] != tb and not (set(x[0] for x in sets) & set(x[0] for x in seen_ev[key][1][2])):
                    # the same object, another table of its joined-inheritance hierarchy: one logical row
                    seen_ev[key][1][2].extend(sets)
                else:
                    it = [[1 if postc else 0, r], [1, r, sets], tb]
                    seen_ev[key] = it
                    items.append(it)
            elif t[0] == "del":
                r = t[2]["id"] - 1
                key = ("del", r)
                if key not in seen_ev:
                    it = [[2, r], [2, r]]
                    seen_ev[key] = it
                    items.append(it)
        else:
            i = int(tb[1:])
            if t[0] == "ins":
                x = [i, t[2]["l"] - 1, t[2]["r"] - 1]
                items.append([[3, x], [3, x]])
            elif t[0] == "del":
                x = [i, t[2]["l"] - 1, t[2]["r"] - 1]
                items.append([[4, x], [4, x]])
            else:
                unsupported = "secondary update"
    items = [it[:2] for it in items]
    for it in items:
        if it[1][0] == 0:
            it[1][3].sort()
        elif it[1][0] == 1:
            it[1][2].sort(key=lambda s: s[0])
    # a cycle that exists only when the references the rows had BEFORE the flush are added
    stale_cycle = False
    try:
        if not rowcycle:
            oid = {j: id(o) for j, o in enumerate(objs)}
            both = {k: set(v) for k, v in tgt.items()}
            for r, cc, t in ref0:
                if not (rels[cc][3] >> 2 & 1):
                    both.setdefault(oid[r], set()).add(oid[t])
            for k_, v_ in memlinks.items():
                both.setdefault(k_, set()).update(v_)
            seen2 = {}

            def dfs2(n):
                seen2[n] = 1
                for m in both.get(n, ()):
                    if seen2.get(m) == 1 or (m not in seen2 and dfs2(m)):
                        return True
                seen2[n] = 2
                return False

            stale_cycle = any(dfs2(n) for n in list(both) if n not in seen2)
    except Exception as e:
        _last["stale_err"] = repr(e)
    if any(r[0] == 0 and (r[3] >> 6 & 1 or r[3] >> 7 & 1) for r in rels) and not c.get("claim"):
        # delete-orphan / delete cascades decide DURING the flush which rows go away; the harness does not
        # predict that, so the "final state is consistent" claim is made only for the scripted scenarios
        consistent = False
    if "taint" in trouble:
        consistent = False
    _last.update(err=err, consistent=consistent, rowcycle=rowcycle, unsupported=unsupported, trace=trace,
                 stale_cycle=stale_cycle, items=items, ref0=ref0, snap=snap, rels=rels, classes=classes,
                 objcls=[cl.index(type(o)) for o in objs], moved="moved" in trouble)
    if "sts" not in snap:
        # nothing to flush: _generate_actions never ran
        return [8]
    nn = [[i, _base(classes, r[1])] for i, r in enumerate(rels) if r[0] == 0 and r[3] >> 3 & 1]
    status = 1 if err == "circular" else 0
    ok = int(err is None)
    return [status, snap["cycles"], snap["items"], [list(e) for e in snap["edges"]], ok,
            snap["deps"], snap["sts"], snap["links"], ref0, ref1, sec0, sec1, nn, items, unsupported]


def model_pair(c, obs):
    if obs[0] in (8, 9):
        # nothing observed: an empty unit of work
        mi = [[], [], [], [], [], [], [], [], [], 0]
        return mi, [0, [], [], []]
    status, cyc, items, edges, ok, deps, sts, links, ref0, ref1, sec0, sec1, nn, tr, unsupported = obs
    fam = c.get("fam")
    if status == 1:
        mi = [deps, sts, links, ref0, [], sec0, [], nn, [], 0]
        return mi, [1, cyc, items, edges]
    if not ok or ref1 is None:
        # the flush failed in an early layer (sort_as_subsets is a generator: a CircularDependencyError of
        # the plan would only have been raised later): the outcome of the sort is not compared
        mi = [deps, sts, links, ref0, [], sec0, [], nn, [], 3]
        return mi, [0, cyc, items, edges]
    mode = 2 if fam in IN_GUARD else 1
    mi = [deps, sts, links, ref0, ref1, sec0, sec1, nn, tr, mode]
    return mi, [0, cyc, items, edges, 1, 1, 0, 0, 1 if mode == 2 else 0]


def oracle(c, obs):
    """C31 itself: if the state the session is about to write satisfies the constraints, the flush does
    not fail (no IntegrityError on SQLite with foreign_keys=ON, no CircularDependencyError without a
    cycle of rows, no other error)"""
    if obs is None or obs[0] in (8, 9) or _last.get("skip"):
        return None
    err = _last.get("err")
    if err is None:
        return None
    if not _last.get("consistent"):
        return None
    if err == "circular":
        if _last.get("rowcycle"):
            return None
        tag = " [stale-link-cycle]" if _last.get("stale_cycle") else ""
        return "CircularDependencyError although the rows to write contain no reference cycle" + tag
    return "flush failed although the final state satisfies every constraint: %s%s" % (err, _classify(err))


def _classify(err):
    """which known defect (if any) explains the failure; computed from the emitted statements"""
    rels, classes = _last["rels"], _last["classes"]
    snap = _last.get("snap") or {}
    if err.startswith("error: KeyError") and any(r[0] == 0 and r[3] & 2 and r[3] >> 2 & 1 for r in rels):
        return " [post-o2m-keyerror]"
    if not err.startswith("integrity: FOREIGN KEY"):
        return ""
    items = _last.get("items") or []
    if not items or items[-1][1][0] != 2:
        return ""
    # the failing statement is the last one; a DELETE of several rows (executemany) appears as a run of
    # delete items any of which may be the failing one
    k = len(items)
    while k > 0 and items[k - 1][1][0] == 2:
        k -= 1
    cur = {(r, cc): tt for r, cc, tt in _last["ref0"]}
    for ev, st in items[:k]:
        if st[0] == 0:
            for cc, tt in st[3]:
                cur[(st[1], cc)] = tt
        elif st[0] == 1:
            for cc, tt in st[2]:
                cur[(st[1], cc)] = tt
        elif st[0] == 2:
            for key in [key for key in cur if key[0] == st[1]]:
                del cur[key]
    role = {x[0]: x[3] for x in snap.get("sts", [])}
    mp = {x[0]: x[1] for x in snap.get("sts", [])}
    tags = set()
    for ev, st in items[k:]:
        t = st[1]
        for (r, cc), tt in list(cur.items()):
            if tt != t or r == t:
                continue
            fl = rels[cc][3]
            if fl >> 5 & 1 and role.get(r) == 2 and _last["objcls"][r] != rels[cc][1]:
                tags.add(" [passive-deletes-subclass]")
            elif fl & 2 and not (fl & 1) and _last.get("moved"):
                tags.add(" [o2m-member-moved-to-deleted-parent]")
            elif fl >> 2 & 1:
                if fl & 2 and role.get(r) == 1:
                    tags.add(" [post-o2m-delete-parent]")
                else:
                    tags.add("")
            elif not (fl & 2) and role.get(r) == 1 and snap.get("cycles") and mp.get(r) != mp.get(t):
                # does the unit of work know the old target (is it in the holder's get_all_pending list)?
                dj = [d[0] for d in snap.get("deps", []) if d[1] == 1 and d[6] == cc]
                known = any(l[0] in dj and l[1] == r and l[2] == t for l in snap.get("links", []))
                tags.add(" [m2o-unset-delete-cycle]" if known else " [m2o-unset-delete-unloaded]")
            else:
                tags.add("")
        for key in [key for key in cur if key[0] == t]:
            del cur[key]
    return tags.pop() if len(tags) == 1 else ""


def match_finding(c, what):
    for tag, fid in (
        ("[stale-link-cycle]", "C31-stale-link-circular"),
        ("[post-o2m-keyerror]", "C31-post-update-o2m-keyerror"),
        ("[post-o2m-delete-parent]", "C31-post-update-o2m-delete-parent"),
        ("[m2o-unset-delete-cycle]", "C31-m2o-unset-delete-across-cycle"),
        ("[m2o-unset-delete-unloaded]", "C31-m2o-unset-delete-unloaded-old-target"),
        ("[passive-deletes-subclass]", "C31-passive-deletes-subclass-members"),
        ("[o2m-member-moved-to-deleted-parent]", "C31-o2m-member-moved-to-deleted-parent"),
    ):
        if what.endswith(tag):
            return fid
    return None


LEVEL_TEXT = (
    "Machine-checked proof (Coq) over the Gallina transcription of _generate_actions (cycle break-up "
    "included) + the regenerated dependency tables + the C19 sort: for ANY object graph whose state after "
    "the flush satisfies the constraints and whose foreign key references are managed by relationships, "
    "every statement order the plan allows (any order inside a layer) is accepted by a reference database "
    "with immediate FK and NOT NULL checks; proved as A (layers respect paths, from C19) + B (every need "
    "that follows from the constraints is covered by a dependency path, in all four per-mapper/per-state "
    "regimes, for one-to-many, many-to-one, many-to-many and post_update) + C (sequences meeting the needs "
    "execute). Two regions where the claim is FALSE are excluded by the guard and refuted by concrete "
    "witnesses that also fail on SQLite (known findings), two more defects are found by the oracle only."
)
LEVEL_NOTE = (
    "partial. Guarded: the theorem assumes (decidable, checked per case) managed, "
    "which excludes the two refuted regions (many-to-one holder updated while its target of another mapper is "
    "deleted and the OLD target was not loaded, so the unit of work does not know it - the loaded case was "
    "repaired by a8ba61d and is inside the theorem now; post_update column whose target row is deleted while "
    "the holder survives). Statement contents are a static function of the before/after database state (validated "
    "against the emitted statements, not derived from sync.py: that is C30). Not covered: primary key "
    "changes (_DetectKeySwitch, listonly states), passive_deletes, delete-orphan presort, the table order "
    "inside one joined-inheritance object (checked by the SQLite oracle only), deferred constraints, "
    "PostgreSQL/MariaDB (the reference database is validated against SQLite only), CircularDependencyError "
    "on acyclic rows (found: stale-link finding). The direct oracle ('consistent state => no failure') makes no claim "
    "for scripts that leave its assumptions: a member of a collection outside the session at an intermediate flush, "
    "collections of objects that are not in the session (expunged, or deleted by an earlier commit with "
    "expire_on_commit=False), a cancelled delete, rows of objects detached by an expunge cascade, a pending object "
    "carrying a foreign key value no relationship accounts for; post_update columns carried early by an INSERT / "
    "regular UPDATE and the pre-delete UPDATE of a deleted row are tolerated in the static content comparison. Trusted: Coq kernel; the transcription (pin + exact "
    "action/dependency-set correspondence); the AST table extractor. No axioms."
)
TECHNIQUE = (
    "Coq proof (graph/path reasoning over the final dependency set, invariant over statement prefixes on a "
    "reference database) on top of the C19 development; T1 table regeneration from the AST with a per-run "
    "equality obligation; exact action/edge-set correspondence + trace acceptance against real Sessions on "
    "SQLite with foreign_keys=ON"
)
