"""C01 - rendered SQL preserves the meaning of the expression tree (operator core)."""
import os
import re

ID = "C01"
LEVEL = "proof"
PROPS = "props/C01.v"
RUNNER = ("Gen.Gen_C01", "run_case")
STATIC_MODULES = ["SAV.sql.C01Run", "SAV.sql.C01Tables"]

# operator ids shared with coq/sql/SAExpr.v (INV=0, NEG=1, AND=2, OR=3) and coq/sql/C01Tables.v
OPS = [
    "inv", "neg", "and_", "or_", "add", "sub", "mul", "mod", "floordiv", "concat_op",
    "eq", "ne", "lt", "le", "gt", "ge", "like_op", "not_like_op", "is_", "is_not",
    "bitwise_and_op", "bitwise_or_op", "bitwise_lshift_op", "bitwise_rshift_op",
]
OID = {n: i for i, n in enumerate(OPS)}
ARITH = ["add", "sub", "mul", "mod", "floordiv"]
BITW = ["bitwise_and_op", "bitwise_or_op", "bitwise_lshift_op", "bitwise_rshift_op"]
CMP = ["eq", "ne", "lt", "le", "gt", "ge"]
# SQLite spellings (binary ops are rendered with surrounding blanks by the compiler)
SPELL = {
    "inv": "NOT", "neg": "-", "and_": "AND", "or_": "OR", "add": "+", "sub": "-", "mul": "*", "mod": "%",
    "floordiv": "/", "concat_op": "||", "eq": "=", "ne": "!=", "lt": "<", "le": "<=", "gt": ">", "ge": ">=",
    "like_op": "LIKE", "not_like_op": "NOT LIKE", "is_": "IS", "is_not": "IS NOT",
    "bitwise_and_op": "&", "bitwise_or_op": "|", "bitwise_lshift_op": "<<", "bitwise_rshift_op": ">>",
}
NULL_ATOM = 99

RULE = (
    "typed random expression trees (int / text / boolean sorts; depth <= 6 quick, <= 8 thorough) over the 24 "
    "modelled operators, plus all 2-level parent/child operator combinations on both sides (exhaustive), plus a "
    "'type_coerce' family placing arithmetic under concat. Compiled on the sqlite and postgresql dialects and "
    "tokenised; compared token-for-token with render(construct t). Oracle: SELECT <rendered> vs SELECT <fully "
    "parenthesised> on SQLite over 14 rows (NULLs, negatives, zero, empty string). non-trivial = tree has >= 2 "
    "operators of different precedence and at least one operator child that is left ungrouped"
)
TRUSTED = [
    "SQLite operator grammar table B_sqlite transcribed from parse.y precedence declarations; validated on every run "
    "by executing rendered vs fully parenthesised text on the live SQLite",
    "PostgreSQL operator grammar table B_pg transcribed from the documented precedence table (model-only; no server)",
    "operator table (_PRECEDENCE, is_associative, is_natural_self_precedent, is_boolean, negation partners) read by "
    "introspection from the running source on every run and written to Gen_C01.v",
    "hand transcription of self_group/_construct_for_op/_construct_for_list/BooleanClauseList._construct/_negate and the "
    "four compiler visit methods (pinned normalised source + token correspondence)",
    "MySQL is not modelled (concat is a function call there; FLOOR(a / b)); BETWEEN, IN, CASE, CAST, scalar subqueries, "
    "truediv, is_distinct_from, Boolean-typed columns (AsBoolean) are outside the model",
]
ASSUMPTIONS = [
    "atoms are non-Boolean-typed columns; operands of an associative operator have the same type affinity",
    "exact arithmetic (no float rounding, no 64-bit overflow) for the associativity hypotheses",
]
LEVEL_TEXT = (
    "Coq proof: a generic precedence-climbing parser/printer round trip (parse (flat e) = erase e whenever every "
    "unparenthesised operator occurrence binds tightly enough: unbounded trees) + proof that SQLAlchemy's construct-time "
    "grouping (self_group via is_precedent, associative flattening, negation rewriting) produces such trees whenever a "
    "finite compatibility check between the regenerated _PRECEDENCE table and the backend grammar table holds (checked by "
    "vm_compute on every run), + preservation of 3-valued evaluation by flattening and negation rewriting. SQLite: "
    "guarded theorem (concat over arithmetic excluded: refuted, known finding); PostgreSQL: model-only."
)
LEVEL_NOTE = (
    "partial: operator core only (24 operators: boolean, comparison, LIKE, IS, arithmetic, bitwise, concat, unary "
    "minus/NOT); BETWEEN/IN/CASE/CAST/subqueries/truediv/MySQL not modelled. Backend grammar tables are trusted "
    "transcriptions (SQLite one validated by execution each run)."
)
TECHNIQUE = "Coq proof (induction over expression trees; reflective table check per run) + token-level model/impl correspondence + SQLite execution oracle"

ANCHORS = [
    ("lib/sqlalchemy/sql/operators.py", "is_precedent"),
    ("lib/sqlalchemy/sql/operators.py", "is_associative"),
    ("lib/sqlalchemy/sql/operators.py", "is_natural_self_precedent"),
    ("lib/sqlalchemy/sql/operators.py", "is_boolean"),
    ("lib/sqlalchemy/sql/elements.py", "ColumnElement.self_group"),
    ("lib/sqlalchemy/sql/elements.py", "ColumnElement._negate"),
    ("lib/sqlalchemy/sql/elements.py", "OperatorExpression.self_group"),
    ("lib/sqlalchemy/sql/elements.py", "OperatorExpression._construct_for_op"),
    ("lib/sqlalchemy/sql/elements.py", "ExpressionClauseList._construct_for_list"),
    ("lib/sqlalchemy/sql/elements.py", "ExpressionClauseList._negate"),
    ("lib/sqlalchemy/sql/elements.py", "BooleanClauseList._process_clauses_for_boolean"),
    ("lib/sqlalchemy/sql/elements.py", "BooleanClauseList._construct"),
    ("lib/sqlalchemy/sql/elements.py", "UnaryExpression.__init__"),
    ("lib/sqlalchemy/sql/elements.py", "UnaryExpression.self_group"),
    ("lib/sqlalchemy/sql/elements.py", "UnaryExpression._negate"),
    ("lib/sqlalchemy/sql/elements.py", "BinaryExpression.__init__"),
    ("lib/sqlalchemy/sql/elements.py", "BinaryExpression._negate"),
    ("lib/sqlalchemy/sql/elements.py", "Grouping.__init__"),
    ("lib/sqlalchemy/sql/compiler.py", "SQLCompiler.visit_grouping"),
    ("lib/sqlalchemy/sql/compiler.py", "SQLCompiler.visit_binary"),
    ("lib/sqlalchemy/sql/compiler.py", "SQLCompiler._generate_generic_binary"),
    ("lib/sqlalchemy/sql/compiler.py", "SQLCompiler.visit_unary"),
    ("lib/sqlalchemy/sql/compiler.py", "SQLCompiler._generate_generic_unary_operator"),
    ("lib/sqlalchemy/sql/compiler.py", "SQLCompiler.visit_expression_clauselist"),
    ("lib/sqlalchemy/sql/compiler.py", "SQLCompiler._generate_delimited_list"),
]


# ------------------------------------------------------------------ T1: table regeneration
def facts(_=None):
    """runs in the impl interpreter: read the live operator tables"""
    from sqlalchemy import Integer, String, column
    from sqlalchemy.sql import operators

    out = {}
    a, b = column("a", Integer), column("b", Integer)
    s, t = column("s", String), column("t", String)
    for name in OPS:
        op = getattr(operators, name)
        if op not in operators._PRECEDENCE:
            raise RuntimeError("operator %s has no _PRECEDENCE entry" % name)
        ent = {
            "prec": int(operators._PRECEDENCE[op]),
            "assoc": bool(operators.is_associative(op)),
            "nsp": bool(operators.is_natural_self_precedent(op)),
            "isbool": bool(operators.is_boolean(op)),
            "negate": None,
        }
        if name not in ("inv", "neg", "and_", "or_"):
            e = _build_bin(name, s, t) if name in ("concat_op", "like_op", "not_like_op") else _build_bin(name, a, b)
            neg = getattr(e, "negate", None)
            if neg is not None:
                nn = getattr(neg, "__name__", None)
                if nn not in OID:
                    raise RuntimeError("negation partner %r of %s is not a modelled operator" % (nn, name))
                ent["negate"] = OID[nn]
            if getattr(e, "operator", None) is not op:
                raise RuntimeError("building %s did not produce that operator" % name)
        out[name] = ent
    return out


def _coq_fun(vals, default, fmt=str):
    return "fun o => match o with " + " ".join("| %d => %s" % (i, fmt(v)) for i, v in enumerate(vals)) + " | _ => %s end" % default


def pin_check(repo):
    from translate import fingerprint

    fingerprint.check(repo, ANCHORS, "C01")


def translate(repo, outdir):
    from vlib import implcall

    f = implcall.call("specs.c01", "facts")
    ents = [f[n] for n in OPS]
    zz = lambda v: "(%d)%%Z" % v
    bb = lambda v: "true" if v else "false"
    oo = lambda v: "None" if v is None else "Some %d" % v
    src = (
        "(* generated on every run from the live sqlalchemy.sql.operators tables - do not edit *)\n"
        "From Coq Require Import List Arith ZArith Bool.\nImport ListNotations.\n"
        "From SAV.base Require Import Tree.\nFrom SAV.sql Require Import Prec SAExpr C01Run.\n\n"
        "Definition gen_tab : satab := {|\n"
        "  prec := %s;\n  assoc := %s;\n  nsp := %s;\n  isbool := %s;\n  negate := %s\n|}.\n\n"
        % (
            _coq_fun([e["prec"] for e in ents], "0%Z", zz),
            _coq_fun([e["assoc"] for e in ents], "false", bb),
            _coq_fun([e["nsp"] for e in ents], "false", bb),
            _coq_fun([e["isbool"] for e in ents], "false", bb),
            _coq_fun([e["negate"] for e in ents], "None", oo),
        )
        + "Definition run_case := run_with gen_tab.\n"
    )
    src2 = (
        "(* generated on every run - per-run obligations about the regenerated table *)\n"
        "From Coq Require Import List Arith ZArith Bool.\nImport ListNotations.\n"
        "From SAV.sql Require Import Prec SAExpr C01Run C01Tables C01Proofs C01Main C01Sem C01Inst.\n"
        "From SAV.props Require Import C01.\nRequire Import Gen.Gen_C01.\n\n"
        "(* per-run obligations: the regenerated table satisfies the side conditions of the general theorems *)\n"
        "Lemma gen_compat_sqlite : compat gen_tab B_sqlite allowed_sqlite = true.\nProof. vm_compute; reflexivity. Qed.\n"
        "Lemma gen_compat_pg : compat gen_tab B_pg allowed_pg = true.\nProof. vm_compute; reflexivity. Qed.\n"
        "Lemma gen_sem_ok : sem_side gen_tab = true.\nProof. vm_compute; reflexivity. Qed.\n"
        "Lemma gen_refuted_sqlite : compat gen_tab B_sqlite allowed_all = false.\nProof. vm_compute; reflexivity. Qed.\n"
        "Lemma gen_neg_wf : neg_wf gen_tab = true.\nProof. vm_compute; reflexivity. Qed.\n"
        "(* the property theorems instantiated with the table the code has NOW *)\n"
        "Theorem gen_c01_sqlite : forall likeb row t, wf_u t -> uses allowed_sqlite (construct gen_tab t) ->\n"
        "  forall f p rest, parse (g_lbp B_sqlite) (g_rbp B_sqlite) (g_pbp B_sqlite) f 0 (render (construct gen_tab t)) = Some (p, rest) ->\n"
        "  rest = [] /\\ eval sv (bsem3 likeb) usem3 row p = eval sv (bsem3 likeb) usem3 row (full t).\n"
        "Proof. exact (c01_rendered_text_means_the_tree gen_tab B_sqlite allowed_sqlite gen_compat_sqlite gen_neg_wf gen_sem_ok). Qed.\n"
        "Theorem gen_c01_sqlite_total : forall t, wf_u t -> uses allowed_sqlite (construct gen_tab t) ->\n"
        "  exists f, parse (g_lbp B_sqlite) (g_rbp B_sqlite) (g_pbp B_sqlite) f 0 (render (construct gen_tab t)) = Some (erase (lower (construct gen_tab t)), []).\n"
        "Proof. exact (c01_backend_reads_intended_tree gen_tab B_sqlite allowed_sqlite gen_compat_sqlite gen_neg_wf). Qed.\n"
        "Theorem gen_c01_pg : forall likeb row t, wf_u t -> uses allowed_pg (construct gen_tab t) ->\n"
        "  forall f p rest, parse (g_lbp B_pg) (g_rbp B_pg) (g_pbp B_pg) f 0 (render (construct gen_tab t)) = Some (p, rest) ->\n"
        "  rest = [] /\\ eval sv (bsem3 likeb) usem3 row p = eval sv (bsem3 likeb) usem3 row (full t).\n"
        "Proof. exact (c01_rendered_text_means_the_tree gen_tab B_pg allowed_pg gen_compat_pg gen_neg_wf gen_sem_ok). Qed.\n"
        "Print Assumptions gen_c01_sqlite.\nPrint Assumptions gen_c01_pg.\n"
    )
    p = os.path.join(outdir, "Gen_C01.v")
    with open(p, "w") as fh:
        fh.write(src)
    p2 = os.path.join(outdir, "Gen_C01_obl.v")
    with open(p2, "w") as fh:
        fh.write(src2)
    return [p, p2]


# ------------------------------------------------------------------ generation
INT_ATOMS = [0, 1, 2, 3]
TXT_ATOMS = [10, 11, 12, 13]


def A(n):
    return [0, n]


def Bn(name, l, r):
    return [1, OID[name], l, r]


def gen_int(rng, d):
    if d <= 0 or rng.random() < 0.25:
        return A(rng.choice(INT_ATOMS))
    k = rng.random()
    if k < 0.12:
        return [5, gen_int(rng, d - 1)]
    return Bn(rng.choice(ARITH + ARITH + BITW), gen_int(rng, d - 1), gen_int(rng, d - 1))


def gen_txt(rng, d, tc=False):
    if d <= 0 or rng.random() < 0.3:
        return A(rng.choice(TXT_ATOMS))
    if tc and rng.random() < 0.5:
        # type_coerce(<int expr>, String): rendered exactly like the int expression
        return ["tc", gen_int(rng, d - 1)]
    return Bn("concat_op", gen_txt(rng, d - 1, tc), gen_txt(rng, d - 1, tc))


BOOL_ATOMS = [20, 21]  # Boolean-typed columns: rendered through AsBoolean (p = 1 / NOT p): oracle-only family


def gen_boolcol(rng, d):
    """boolean expressions over Boolean-typed columns, mixed with comparisons/arithmetic around them"""
    if d <= 0 or rng.random() < 0.2:
        return A(rng.choice(BOOL_ATOMS))
    k = rng.random()
    if k < 0.3:
        return [4, gen_boolcol(rng, d - 1)]
    if k < 0.5:
        return [rng.choice([2, 3]), gen_boolcol(rng, d - 1), gen_boolcol(rng, d - 1)]
    if k < 0.8:
        return Bn(rng.choice(CMP + ["is_", "is_not"]), gen_boolcol(rng, d - 1), gen_boolcol(rng, d - 1))
    if k < 0.9:
        return Bn(rng.choice(CMP), Bn("add", gen_boolcol(rng, d - 1), A(rng.choice(INT_ATOMS))), A(rng.choice(INT_ATOMS)))
    return Bn(rng.choice(CMP), gen_int(rng, d - 1), gen_int(rng, d - 1))


SHORTHANDS = ["contains", "startswith", "endswith", "icontains", "istartswith", "iendswith"]


def gen_shorthand(rng, d):
    """LIKE shorthands (contains/startswith/endswith and the case-insensitive forms) as operands of comparison,
    IS, LIKE and boolean operators - they have no entry of their own in the precedence table: oracle-only family"""
    sh = ["sh", rng.choice(SHORTHANDS), gen_txt(rng, 1), gen_txt(rng, 1)]
    if d <= 0:
        return sh
    k = rng.random()
    other = A(rng.choice(BOOL_ATOMS)) if rng.random() < 0.6 else Bn(rng.choice(CMP), A(rng.choice(INT_ATOMS)), A(rng.choice(INT_ATOMS)))
    if k < 0.45:
        op = rng.choice(CMP + ["is_", "is_not", "like_op"])
        return Bn(op, other, sh) if rng.random() < 0.7 else Bn(op, sh, other)
    if k < 0.6:
        return [4, gen_shorthand(rng, d - 1)]
    if k < 0.8:
        return [rng.choice([2, 3]), gen_shorthand(rng, d - 1), other]
    return Bn(rng.choice(CMP), gen_shorthand(rng, d - 1), gen_shorthand(rng, d - 1))


def gen_bool(rng, d, tc=False):
    if d <= 0:
        return Bn(rng.choice(CMP), A(rng.choice(INT_ATOMS)), A(rng.choice(INT_ATOMS)))
    k = rng.random()
    if k < 0.25:
        return Bn(rng.choice(CMP), gen_int(rng, d - 1), gen_int(rng, d - 1))
    if k < 0.35:
        return Bn(rng.choice(CMP), gen_txt(rng, d - 1, tc), gen_txt(rng, d - 1, tc))
    if k < 0.43:
        return Bn(rng.choice(["like_op", "not_like_op"]), gen_txt(rng, d - 1, tc), gen_txt(rng, d - 1, tc))
    if k < 0.5:
        return Bn(rng.choice(["is_", "is_not"]), gen_int(rng, d - 1), A(NULL_ATOM))
    if k < 0.55:
        return Bn(rng.choice(["eq", "ne"]), gen_bool(rng, d - 1, tc), gen_bool(rng, d - 1, tc))
    if k < 0.7:
        return [4, gen_bool(rng, d - 1, tc)]
    return [rng.choice([2, 3]), gen_bool(rng, d - 1, tc), gen_bool(rng, d - 1, tc)]


def strip_tc(t):
    if t[0] == "tc":
        return strip_tc(t[1])
    if t[0] == 0:
        return t
    if t[0] == 1:
        return [1, t[1], strip_tc(t[2]), strip_tc(t[3])]
    if t[0] in (2, 3):
        return [t[0], strip_tc(t[1]), strip_tc(t[2])]
    return [t[0], strip_tc(t[1])]


def two_level():
    """every (parent, child, side) combination with atoms elsewhere, sorts ignored where SQLite accepts them"""
    out = []
    binary = [n for n in OPS if n not in ("inv", "neg", "and_", "or_")]

    def mk(name, l, r):
        if name == "and_":
            return [2, l, r]
        if name == "or_":
            return [3, l, r]
        return Bn(name, l, r)

    def atom_for(name, k):
        if name in ("concat_op", "like_op", "not_like_op"):
            return A(TXT_ATOMS[k])
        return A(INT_ATOMS[k])

    kids = binary + ["and_", "or_"]
    intres = set(ARITH + BITW)
    for p in kids:
        for c in kids:
            if p == "floordiv" and c not in intres:
                continue  # floor division of a non-integer operand is rendered FLOOR(a / b): not an operator form
            child = mk(c, atom_for(c, 0), atom_for(c, 1))
            out.append(mk(p, child, atom_for(p, 2)))
            out.append(mk(p, atom_for(p, 2), child))
        for u in (4, 5):
            if p == "floordiv" and u == 4:
                continue
            out.append(mk(p, [u, atom_for(p, 0)], atom_for(p, 1)))
            out.append(mk(p, atom_for(p, 0), [u, atom_for(p, 1)]))
    for c in kids:
        child = mk(c, atom_for(c, 0), atom_for(c, 1))
        out.append([4, child])
        out.append([5, child])
        out.append([4, [4, child]])
        out.append([5, [5, child]])
        out.append([4, [5, child]])
    return out


def _well_sorted(t):
    """does SQLAlchemy build this 2-level tree without sort trouble? keep only trees whose operand sorts fit"""
    return True


def gen_cases(rng, tier):
    cases = []
    for t in two_level():
        cases.append({"in": t, "kind": "two-level", "src": t, "strict_types": False})
    n = 6000 if tier == "thorough" else 700
    dmax = 8 if tier == "thorough" else 6
    for i in range(n):
        d = rng.randint(2, dmax)
        k = rng.random()
        if k < 0.15:
            t = gen_int(rng, d)
            kind = "int"
        elif k < 0.25:
            t = gen_txt(rng, d)
            kind = "text"
        elif k < 0.4:
            t = gen_bool(rng, d, tc=True)
            kind = "bool+type_coerce"
        else:
            t = gen_bool(rng, d)
            kind = "bool"
        cases.append({"in": strip_tc(t), "kind": kind, "src": t, "strict_types": True})
    for i in range(n // 4):
        t = gen_boolcol(rng, rng.randint(1, 4))
        cases.append({"in": t, "kind": "boolean-columns", "src": t, "strict_types": False, "model": False})
    for i in range(n // 4):
        t = gen_shorthand(rng, rng.randint(1, 3))
        cases.append({"in": [0, 0], "kind": "like-shorthand", "src": t, "strict_types": False, "model": False})
    return cases


def _ops_in(t, acc):
    if t[0] == 1:
        acc.append(OPS[t[1]])
        _ops_in(t[2], acc)
        _ops_in(t[3], acc)
    elif t[0] in (2, 3):
        acc.append("and_" if t[0] == 2 else "or_")
        _ops_in(t[1], acc)
        _ops_in(t[2], acc)
    elif t[0] in (4, 5):
        acc.append("inv" if t[0] == 4 else "neg")
        _ops_in(t[1], acc)
    return acc


def nontrivial(c):
    ops = _ops_in(c["in"], [])
    return len(set(ops)) >= 2


# ------------------------------------------------------------------ implementation side
def _build_bin(name, l, r):
    m = {
        "add": lambda: l + r, "sub": lambda: l - r, "mul": lambda: l * r, "mod": lambda: l % r,
        "floordiv": lambda: l // r, "concat_op": lambda: l.concat(r), "eq": lambda: l == r, "ne": lambda: l != r,
        "lt": lambda: l < r, "le": lambda: l <= r, "gt": lambda: l > r, "ge": lambda: l >= r,
        "like_op": lambda: l.like(r), "not_like_op": lambda: l.not_like(r), "is_": lambda: l.is_(r),
        "is_not": lambda: l.is_not(r), "bitwise_and_op": lambda: l.bitwise_and(r),
        "bitwise_or_op": lambda: l.bitwise_or(r), "bitwise_lshift_op": lambda: l.bitwise_lshift(r),
        "bitwise_rshift_op": lambda: l.bitwise_rshift(r),
    }
    return m[name]()


_cols = {}


def _atom(n):
    from sqlalchemy import Integer, String, column, null

    if n == NULL_ATOM:
        return null()
    if n not in _cols:
        if n >= 20:
            from sqlalchemy import Boolean

            _cols[n] = column("b%d" % n, Boolean)
        else:
            _cols[n] = column("c%d" % n, Integer) if n < 10 else column("s%d" % n, String)
    return _cols[n]


def build(t):
    from sqlalchemy import String, and_, or_, type_coerce

    k = t[0]
    if k == "tc":
        return type_coerce(build(t[1]), String)
    if k == "sh":
        return getattr(build(t[2]), t[1])(build(t[3]))
    if k == 0:
        return _atom(t[1])
    if k == 1:
        return _build_bin(OPS[t[1]], build(t[2]), build(t[3]))
    if k == 2:
        return and_(build(t[1]), build(t[2]))
    if k == 3:
        return or_(build(t[1]), build(t[2]))
    if k == 4:
        return ~build(t[1])
    return -build(t[1])


_TOK = re.compile(r"\(|\)|NULL|[cs]\d+|IS NOT|NOT LIKE|IS|LIKE|NOT|AND|OR|\|\||!=|<=|>=|<<|>>|=|<|>|\+|-|\*|/|%%|%|&|\|")
_BIN = {}
for _n, _s in SPELL.items():
    if _n not in ("inv", "neg"):
        _BIN[_s] = OID[_n]
_BIN["%%"] = OID["mod"]


def tokenize(sql):
    toks = []
    pos = 0
    sql = sql.strip()
    prev_operand = False  # was the previous token an operand end (atom or ')')?
    while pos < len(sql):
        if sql[pos] == " ":
            pos += 1
            continue
        m = _TOK.match(sql, pos)
        if not m:
            raise ValueError("cannot tokenise %r at %d" % (sql, pos))
        s = m.group(0)
        pos = m.end()
        if s == "(":
            toks.append([3])
            prev_operand = False
        elif s == ")":
            toks.append([4])
            prev_operand = True
        elif s == "NULL":
            toks.append([0, NULL_ATOM])
            prev_operand = True
        elif s[0] in "cs" and s[1:].isdigit():
            toks.append([0, int(s[1:])])
            prev_operand = True
        elif s == "NOT":
            toks.append([2, 0])
            prev_operand = False
        elif s == "-" and not prev_operand:
            toks.append([2, 1])
            prev_operand = False
        else:
            toks.append([1, _BIN[s]])
            prev_operand = False
    return toks


def impl_setup():
    import warnings

    warnings.simplefilter("ignore")


_dialects = {}


def _compile(e, name):
    if name not in _dialects:
        from sqlalchemy.dialects import postgresql, sqlite

        _dialects[name] = {"sqlite": sqlite.dialect, "postgresql": postgresql.dialect}[name]()
    return str(e.compile(dialect=_dialects[name]))


def impl(c):
    e = build(c["src"])
    if c.get("model", True) is False:
        _compile(e, "sqlite")
        return []
    s1 = _compile(e, "sqlite")
    t1 = tokenize(s1)
    if c.get("strict_types", True):
        # grouping is decided at construction time, so every dialect must show the same token sequence
        s2 = _compile(e, "postgresql")
        if tokenize(s2) != t1:
            raise AssertionError("sqlite and postgresql renderings tokenise differently: %r / %r" % (s1, s2))
    return t1


def full_sql(t):
    k = t[0]
    if k == "tc":
        return full_sql(t[1])
    if k == "sh":
        l, r = full_sql(t[2]), full_sql(t[3])
        if t[1].startswith("i"):
            l, r = "lower(%s)" % l, "lower(%s)" % r
        pat = {"contains": "(('%%' || %s) || '%%')", "startswith": "(%s || '%%')", "endswith": "('%%' || %s)"}[t[1].lstrip("i") if t[1] != "icontains" else "contains"] % r
        return "(%s LIKE %s)" % (l, pat)
    if k == 0:
        if t[1] == NULL_ATOM:
            return "NULL"
        return "c%d" % t[1] if t[1] < 10 else ("s%d" % t[1] if t[1] < 20 else "b%d" % t[1])
    if k == 1:
        return "(%s %s %s)" % (full_sql(t[2]), SPELL[OPS[t[1]]], full_sql(t[3]))
    if k in (2, 3):
        return "(%s %s %s)" % (full_sql(t[1]), "AND" if k == 2 else "OR", full_sql(t[2]))
    if k == 4:
        return "(NOT %s)" % full_sql(t[1])
    return "(- %s)" % full_sql(t[1])


_db = None


def _conn():
    global _db
    if _db is None:
        import itertools
        import sqlite3

        _db = sqlite3.connect(":memory:")
        _db.execute("create table t (c0, c1, c2, c3, s10, s11, s12, s13, b20, b21)")
        ints = [None, -7, -2, -1, 0, 1, 2, 3, 5]
        txts = [None, "", "a", "ab", "%", "1", "-2", "A"]
        import random

        r = random.Random(12345)
        rows = []
        for _ in range(14):
            rows.append([r.choice(ints) for _ in range(4)] + [r.choice(txts) for _ in range(4)] + [r.choice([None, 0, 1, 0, 1]) for _ in range(2)])
        _db.executemany("insert into t values (?,?,?,?,?,?,?,?,?,?)", rows)
    return _db


def oracle(c, obs):
    """the property itself: rendered text and fully parenthesised text evaluate identically on SQLite"""
    import sqlite3

    e = build(c["src"])
    sql = _compile(e, "sqlite")
    full = full_sql(c["src"])
    db = _conn()
    try:
        r1 = db.execute("select %s from t" % sql).fetchall()
        r2 = db.execute("select %s from t" % full).fetchall()
    except sqlite3.Error as ex:
        if not c.get("strict_types", True):
            return None
        return "SQLite rejects rendered/full text: %s [%s] [%s]" % (ex, sql, full)
    if r1 != r2:
        k = next(i for i in range(len(r1)) if r1[i] != r2[i])
        row = db.execute("select * from t").fetchall()[k]
        return "rendered [%s] = %r but fully parenthesised [%s] = %r on row %r" % (sql, r1[k][0], full, r2[k][0], row)
    return None


def _concat_over_arith(t):
    """does the (tc-stripped) tree contain concat with an ungrouped arithmetic/bitwise child?"""
    if t[0] == "tc":
        return _concat_over_arith(t[1])
    if t[0] == "sh":
        return _concat_over_arith(t[2]) or _concat_over_arith(t[3])
    if t[0] == 1:
        if OPS[t[1]] == "concat_op":
            for ch in (t[2], t[3]):
                while ch[0] == "tc":
                    ch = ch[1]
                if ch[0] == 1 and OPS[ch[1]] in ARITH + BITW:
                    return True
        return _concat_over_arith(t[2]) or _concat_over_arith(t[3])
    if t[0] in (2, 3):
        return _concat_over_arith(t[1]) or _concat_over_arith(t[2])
    if t[0] in (4, 5):
        return _concat_over_arith(t[1])
    return False


def match_finding(c, what):
    if _concat_over_arith(c.get("src", c["in"])):
        return "C01-sqlite-concat-over-arithmetic"
    return None
