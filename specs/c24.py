"""C24 - pooled connections carry no state from a previous checkout."""
import itertools

ID = "C24"
LEVEL = "proof"
PROPS = "props/C24.v"
RUNNER = ("SAV.engine.ResetSeqRun", "run_case")
STATIC_MODULES = ["SAV.engine.ResetSeqRun"]
RULE = (
    "sequences of users, each checking a connection out of a real Engine (engine.connect(), optionally an option engine "
    "made by Engine.execution_options(isolation_level=...)), performing Connection-level operations (write, commit, "
    "rollback, begin, begin_nested and commit/rollback/close of the savepoint, execution_options calls naming any subset of "
    "isolation_level / logging_token / another option in ONE call or in sequence, failing statement, write violating a "
    "deferred constraint) and ending by close() (also with savepoints open), by dropping the Connection (del + gc), by "
    "invalidate() or by never returning it; per reset_on_return value and pool class.  Backend 0: a fake DBAPI behind the "
    "real DefaultDialect/Engine/Connection/pool whose commit()/rollback() fail on script (all first-user sequences of <= 2 "
    "basic operations x fault scripts, all sequences of <= 2 option calls x option engines, all savepoint sequences of <= 3 "
    "operations, random longer histories); backend 1: real SQLite files with the pysqlite savepoint workaround.  The state "
    "of the DBAPI connection is observed by a pool 'checkout' listener at every checkout (identity, in-transaction flag, "
    "uncommitted writes invisible to a second connection, isolation level, autocommit), plus the result class of every "
    "operation and (fake) the exact DBAPI commit/rollback/set-isolation/savepoint calls.  non-trivial = some user writes, "
    "opens a savepoint or changes a characteristic"
)
TRUSTED = [
    "hand-written Gallina transcription (coq/engine/ResetSeq.v) of Connection.close/commit/rollback/begin/"
    "execution_options, RootTransaction._do_commit/_do_rollback/_close_impl, DefaultDialect._set_connection_characteristics/"
    "_reset_characteristics, _ConnectionFairy._reset, _finalize_fairy and the checkin finaliser loop; pinned to the "
    "normalised source and compared behaviourally on every run",
    "pysqlite legacy transaction control (implicit BEGIN before DML, COMMIT failing on a deferred FK violation keeps the "
    "transaction open) as observed on SQLite 3.40",
]
ASSUMPTIONS = [
    "one thread; two-phase, detach(), reconnect-after-invalidate inside one checkout are out of scope; nested-transaction "
    "operations address the most recently created NestedTransaction object",
    "PostgreSQL / MariaDB isolation levels are represented by the fake DBAPI only",
    "the fake DBAPI's failing commit()/rollback() leave the DBAPI transaction as it was",
]
LEVEL_TEXT = (
    "Coq proofs over a model of one pooled DBAPI connection used by a sequence of users through the engine-level "
    "Connection API, for all histories, fault scripts, reset styles and pool classes: the next checkout is pristine "
    "(unguarded since commit 4102dab), transaction_was_reset=True never reaches _reset over an open DBAPI transaction, "
    "characteristics are always restored and have a pending finaliser while set."
)
LEVEL_NOTE = "Trusted: Coq kernel; the hand transcription (source pin + correspondence on a fake DBAPI and on SQLite). No axioms."
TECHNIQUE = "Coq invariant proof over a sequential user/reset state machine; source pin; model-vs-implementation correspondence on a fake DBAPI and on SQLite"
ANCHORS = [
    ("lib/sqlalchemy/engine/base.py", "Connection.close"),
    ("lib/sqlalchemy/engine/base.py", "Connection.commit"),
    ("lib/sqlalchemy/engine/base.py", "Connection.rollback"),
    ("lib/sqlalchemy/engine/base.py", "Connection.begin"),
    ("lib/sqlalchemy/engine/base.py", "Connection.in_transaction"),
    ("lib/sqlalchemy/engine/base.py", "Connection._autobegin"),
    ("lib/sqlalchemy/engine/base.py", "Connection._begin_impl"),
    ("lib/sqlalchemy/engine/base.py", "Connection._invalid_transaction"),
    ("lib/sqlalchemy/engine/base.py", "Connection._rollback_impl"),
    ("lib/sqlalchemy/engine/base.py", "Connection._commit_impl"),
    ("lib/sqlalchemy/engine/base.py", "Transaction.close"),
    ("lib/sqlalchemy/engine/base.py", "Transaction.commit"),
    ("lib/sqlalchemy/engine/base.py", "Transaction.rollback"),
    ("lib/sqlalchemy/engine/base.py", "RootTransaction.__init__"),
    ("lib/sqlalchemy/engine/base.py", "RootTransaction._deactivate_from_connection"),
    ("lib/sqlalchemy/engine/base.py", "RootTransaction._close_impl"),
    ("lib/sqlalchemy/engine/base.py", "RootTransaction._do_close"),
    ("lib/sqlalchemy/engine/base.py", "RootTransaction._do_rollback"),
    ("lib/sqlalchemy/engine/base.py", "RootTransaction._do_commit"),
    ("lib/sqlalchemy/engine/base.py", "Connection.begin_nested"),
    ("lib/sqlalchemy/engine/base.py", "Connection.execution_options"),
    ("lib/sqlalchemy/engine/base.py", "Connection._savepoint_impl"),
    ("lib/sqlalchemy/engine/base.py", "Connection._rollback_to_savepoint_impl"),
    ("lib/sqlalchemy/engine/base.py", "Connection._release_savepoint_impl"),
    ("lib/sqlalchemy/engine/base.py", "NestedTransaction.__init__"),
    ("lib/sqlalchemy/engine/base.py", "NestedTransaction._deactivate_from_connection"),
    ("lib/sqlalchemy/engine/base.py", "NestedTransaction._cancel"),
    ("lib/sqlalchemy/engine/base.py", "NestedTransaction._close_impl"),
    ("lib/sqlalchemy/engine/base.py", "NestedTransaction._do_close"),
    ("lib/sqlalchemy/engine/base.py", "NestedTransaction._do_rollback"),
    ("lib/sqlalchemy/engine/base.py", "NestedTransaction._do_commit"),
    ("lib/sqlalchemy/engine/default.py", "DefaultDialect.set_engine_execution_options"),
    ("lib/sqlalchemy/engine/default.py", "DefaultDialect.set_connection_execution_options"),
    ("lib/sqlalchemy/engine/default.py", "DefaultDialect._set_connection_characteristics"),
    ("lib/sqlalchemy/engine/default.py", "DefaultDialect._reset_characteristics"),
    ("lib/sqlalchemy/engine/default.py", "DefaultDialect.reset_isolation_level"),
    ("lib/sqlalchemy/engine/default.py", "DefaultDialect.do_rollback"),
    ("lib/sqlalchemy/engine/default.py", "DefaultDialect.do_commit"),
    ("lib/sqlalchemy/engine/characteristics.py", "IsolationLevelCharacteristic"),
    ("lib/sqlalchemy/engine/characteristics.py", "LoggingTokenCharacteristic"),
    ("lib/sqlalchemy/pool/base.py", "_ConnectionFairy._reset"),
    ("lib/sqlalchemy/pool/base.py", "_ConnectionFairy._close_special"),
    ("lib/sqlalchemy/pool/base.py", "_ConnectionFairy.close"),
    ("lib/sqlalchemy/pool/base.py", "_ConnectionFairy._checkin"),
    ("lib/sqlalchemy/pool/base.py", "_finalize_fairy"),
    ("lib/sqlalchemy/pool/base.py", "_ConnectionRecord.checkin"),
    ("lib/sqlalchemy/pool/base.py", "_ConnectionRecord.checkout"),
    ("lib/sqlalchemy/pool/impl.py", "NullPool._do_return_conn"),
]

O_WRITE, O_COMMIT, O_ROLLBACK, O_ISO, O_AUTOC, O_FAILSTMT, O_BEGIN, O_FKWRITE, O_CLOSE, O_DROP, O_INVALIDATE = range(11)
O_OPTS = 11  # [11, level (0 none / 1 non-default / 2 AUTOCOMMIT), logging_token?, another (non-characteristic) option?]
O_NBEGIN, O_NCOMMIT, O_NROLLBACK, O_NCLOSE = 12, 13, 14, 15  # begin_nested(); commit/rollback/close of the last NestedTransaction
OPTS_FAKE = [[11, l, t, o] for l in (0, 1, 2) for t in (0, 1) for o in (0, 1) if l or t or o]
OPTS_SQLITE = [[11, l, t, o] for l in (0, 1) for t in (0, 1) for o in (0, 1) if l or t or o]
NESTED = [O_NBEGIN, O_NCOMMIT, O_NROLLBACK, O_NCLOSE]
FAKE_OPS = [O_WRITE, O_COMMIT, O_ROLLBACK, O_ISO, O_AUTOC, O_FAILSTMT, O_BEGIN, O_CLOSE, O_DROP, O_INVALIDATE] + NESTED + [[11, 1, 1, 0], [11, 0, 1, 0], [11, 2, 1, 1]]
SQLITE_OPS = [O_WRITE, O_COMMIT, O_ROLLBACK, O_ISO, O_FAILSTMT, O_BEGIN, O_FKWRITE, O_CLOSE, O_DROP, O_INVALIDATE] + NESTED + [[11, 1, 1, 0], [11, 0, 1, 0]]


def translate(repo, outdir):
    from translate import fingerprint

    fingerprint.check(repo, ANCHORS, "C24")
    return []


# the former refutation witnesses (fixed by 4102dab) and the examples of coq/props/C24.v
WITNESSES = [
    [[0, 0, 0, 0], [[O_WRITE, O_COMMIT, O_CLOSE]], [1]],
    [[1, 0, 0, 0], [[O_FKWRITE, O_COMMIT, O_CLOSE]], []],
    [[0, 0, 0, 0], [[O_ISO, O_WRITE, O_CLOSE, O_DROP], [O_AUTOC, O_WRITE, O_BEGIN, O_DROP], [O_WRITE, O_ROLLBACK, O_WRITE]], [1]],
    [[0, 0, 0, 2], [[[11, 0, 1, 0], O_WRITE, O_NBEGIN, O_WRITE, O_CLOSE], [[11, 1, 1, 1], [11, 0, 1, 0]]], []],
    [[1, 0, 0, 1], [[O_WRITE, O_NBEGIN, O_FKWRITE, O_NROLLBACK, O_NBEGIN, O_WRITE, O_CLOSE]], []],
]


def _rand_user(rng, ops, n):
    return [rng.choice(ops) for _ in range(n)]


def gen_cases(rng, tier):
    thorough = tier == "thorough"
    cases = []
    # (a) fake DBAPI: every first-user sequence of <= 2 (thorough: 3) operations x fault scripts x reset style
    maxlen = 3 if thorough else 2
    scripts = [[], [1], [0, 1], [1, 1], [0, 0, 1]] if thorough else [[], [1], [0, 1]]
    base = [O_WRITE, O_COMMIT, O_ROLLBACK, O_ISO, O_AUTOC, O_FAILSTMT, O_BEGIN, O_CLOSE, O_DROP, O_INVALIDATE]
    for n in range(maxlen + 1):
        for ops in itertools.product(base, repeat=n):
            for fl in scripts:
                for reset in (0, 1, 2):
                    if not thorough and n == 2 and rng.random() < 0.4:
                        continue
                    kind = rng.choice([0, 0, 1, 2, 3])
                    second = rng.choice([[], [O_WRITE, O_CLOSE], [O_ISO], [O_COMMIT, O_DROP]])
                    cases.append({"in": [[0, reset, kind, 0], [list(ops), second], fl], "kind": "fake-exhaustive"})
    # (a2) characteristics: every sequence of <= 2 option calls (isolation level / logging token / another option
    #      in ONE call or in sequence), with and without an option engine, ended in every way
    for ei in (0, 1, 2):
        for n in (1, 2):
            for calls in itertools.product(OPTS_FAKE, repeat=n):
                if not thorough and rng.random() < 0.55:
                    continue
                pre = rng.choice([[], [], [O_WRITE], [O_WRITE, O_COMMIT], [O_BEGIN, O_ROLLBACK]])
                end = rng.choice([[O_CLOSE], [O_DROP], [], [O_WRITE, O_CLOSE], [O_WRITE]])
                reset = rng.choice([0, 0, 1, 2])
                cases.append({"in": [[0, reset, rng.choice([0, 0, 2, 3]), ei], [pre + [list(x) for x in calls] + end, rng.choice([[], [O_WRITE]])], []], "kind": "fake-options"})
    # (a3) savepoints: short sequences over write / begin_nested / nested commit-rollback-close / commit / rollback,
    #      ended by close(), by dropping the connection or by never returning it
    sp_ops = [O_WRITE, O_NBEGIN, O_NCOMMIT, O_NROLLBACK, O_NCLOSE, O_COMMIT, O_ROLLBACK]
    for n in range(1, 6 if thorough else 5):
        for ops in itertools.product(sp_ops, repeat=n):
            if n >= 4 and rng.random() > (0.3 if thorough else 0.12):
                continue
            if O_NBEGIN not in ops:
                continue
            end = rng.choice([[O_CLOSE], [O_CLOSE], [O_DROP], []])
            fl = rng.choice([[], [], [1], [0, 1]])
            cases.append({"in": [[0, rng.choice([0, 0, 1, 2]), rng.choice([0, 0, 2]), 0], [list(ops) + end, [O_WRITE]], fl], "kind": "fake-savepoints"})
    # (b) fake DBAPI: random longer histories
    for _ in range(8000 if thorough else 350):
        users = [_rand_user(rng, FAKE_OPS + [O_WRITE, O_COMMIT, O_CLOSE, O_NBEGIN], rng.randint(0, 7)) for _ in range(rng.randint(1, 4))]
        faults = [rng.choice([0, 0, 0, 1]) for _ in range(rng.randint(0, 8))]
        cases.append({"in": [[0, rng.choice([0, 0, 1, 2]), rng.choice([0, 0, 1, 2, 3]), rng.choice([0, 0, 1, 2])], users, faults], "kind": "fake-random"})
    # (c) SQLite
    for _ in range(3000 if thorough else 220):
        users = [_rand_user(rng, SQLITE_OPS + [O_WRITE, O_COMMIT, O_CLOSE, O_FKWRITE, O_NBEGIN], rng.randint(0, 6)) for _ in range(rng.randint(1, 3))]
        cases.append({"in": [[1, rng.choice([0, 0, 1, 2]), rng.choice([0, 0, 1, 2, 3]), rng.choice([0, 0, 0, 1])], users, []], "kind": "sqlite-random"})
    for w in WITNESSES:
        cases.append({"in": w, "kind": "refutation-witness"})
    return cases


def nontrivial(c):
    cfg, users, faults = c["in"]
    return cfg[3] != 0 or any(isinstance(o, list) or o in (O_WRITE, O_FKWRITE, O_ISO, O_AUTOC, O_NBEGIN) for u in users for o in u)


# ---------------------------------------------------------------------------------------------------
_cache = {}


def _setup():
    if _cache:
        return _cache
    import logging
    import tempfile
    import warnings

    from sqlalchemy.engine.default import DefaultDialect

    warnings.simplefilter("ignore")
    logging.disable(logging.CRITICAL)

    class FakeError(Exception):
        pass

    class Dialect(DefaultDialect):
        default_isolation_level = "READ COMMITTED"
        supports_statement_cache = True

        def get_isolation_level_values(self, dbapi_conn):
            return ["READ COMMITTED", "SERIALIZABLE", "AUTOCOMMIT"]

        def set_isolation_level(self, dbapi_conn, level):
            dbapi_conn._set_iso(level)

        def get_isolation_level(self, dbapi_conn):
            return dbapi_conn._get_iso()

        def is_disconnect(self, e, connection, cursor):
            return False

    import atexit
    import shutil

    tmp = tempfile.mkdtemp(prefix="verif_c24_")
    atexit.register(shutil.rmtree, tmp, True)
    _cache.update(FakeError=FakeError, Dialect=Dialect, tmp=tmp, n=[0])
    return _cache


def _pool_kwargs(kind):
    from sqlalchemy import pool as sapool

    if kind == 0:
        return dict(poolclass=sapool.QueuePool, pool_size=1, max_overflow=0)
    return dict(poolclass={1: sapool.NullPool, 2: sapool.StaticPool, 3: sapool.SingletonThreadPool}[kind])


def _drive(eng, pool, engine_iso, users, observe, log, writes):
    """runs the users against the engine; the state of the DBAPI connection is observed by a pool 'checkout'
    listener, i.e. as the pool hands it out, before the engine applies any option"""
    import gc

    from sqlalchemy import event, exc

    seen = []

    def on_checkout(dbapi_con, rec, fairy):
        seen.append(observe(dbapi_con))

    event.listen(pool, "checkout", on_checkout)
    if engine_iso:
        eng = eng.execution_options(isolation_level=writes[3] if engine_iso == 1 else "AUTOCOMMIT")
    out = []
    for ops in users + [[]]:
        del seen[:]
        del log[:]
        conn = eng.connect()
        rec = [seen[0]]
        codes = []
        nested = []
        for op in ops:
            code = 0
            try:
                if isinstance(op, list):
                    kw = {}
                    if op[1]:
                        kw["isolation_level"] = writes[3] if op[1] == 1 else "AUTOCOMMIT"
                    if op[2]:
                        kw["logging_token"] = "tok"
                    if op[3]:
                        kw["stream_results"] = False
                    conn.execution_options(**kw)
                elif op == O_WRITE:
                    conn.exec_driver_sql(writes[0])
                elif op == O_FKWRITE:
                    conn.exec_driver_sql(writes[1])
                elif op == O_FAILSTMT:
                    conn.exec_driver_sql(writes[2])
                elif op == O_COMMIT:
                    conn.commit()
                elif op == O_ROLLBACK:
                    conn.rollback()
                elif op == O_ISO:
                    conn.execution_options(isolation_level=writes[3])
                elif op == O_AUTOC:
                    conn.execution_options(isolation_level="AUTOCOMMIT")
                elif op == O_BEGIN:
                    conn.begin()
                elif op == O_NBEGIN:
                    nested.append(conn.begin_nested())
                elif op in (O_NCOMMIT, O_NROLLBACK, O_NCLOSE):
                    if not nested:
                        code = 9
                    elif op == O_NCOMMIT:
                        nested[-1].commit()
                    elif op == O_NROLLBACK:
                        nested[-1].rollback()
                    else:
                        nested[-1].close()
                elif op == O_CLOSE:
                    conn.close()
                elif op == O_DROP:
                    del nested[:]
                    conn = None
                    gc.collect(0)
                elif op == O_INVALIDATE:
                    conn.invalidate()
                    conn.close()
                else:
                    raise ValueError("unknown operation")
            except exc.DBAPIError:
                code = 1
            except exc.InvalidRequestError:
                code = 2
            codes.append(code)
            if conn is None or conn.closed:
                break
        del nested[:]
        conn = None
        gc.collect(0)
        rec.append(codes)
        rec.append(list(log))
        out.append(rec)
    return out


def _impl_fake(cfg, users, faults):
    import gc
    import sys
    import types

    from sqlalchemy import pool as sapool
    from sqlalchemy.engine import Engine
    from sqlalchemy.engine.url import make_url

    env = _setup()
    FakeError = env["FakeError"]
    backend, reset, kind, engine_iso = cfg
    st = {"faults": list(faults)}
    log = []

    def fault():
        return st["faults"].pop(0) if st["faults"] else 0

    class Cur:
        description = None
        rowcount = -1
        lastrowid = None
        arraysize = 1

        def __init__(self, conn):
            self.conn = conn

        def execute(self, stmt, params=None):
            c = self.conn
            if stmt == "fail":
                raise FakeError("statement failed")
            if stmt == "write":
                if not c.autoc:
                    c.in_txn = True
                    c.dirty = True
            elif stmt.startswith("SAVEPOINT "):
                log.append(4)
                c.sp.append((stmt[10:], c.dirty))
            elif stmt.startswith("ROLLBACK TO SAVEPOINT "):
                log.append(5)
                k = [n for n, _ in c.sp].index(stmt[22:])
                c.dirty = c.sp[k][1]
                del c.sp[k + 1 :]
            elif stmt.startswith("RELEASE SAVEPOINT "):
                log.append(6)
                k = [n for n, _ in c.sp].index(stmt[18:])
                del c.sp[k:]
            else:
                raise AssertionError("unexpected statement %r" % stmt)

        def close(self):
            pass

        def fetchall(self):
            return []

    class Conn:
        n = 0

        def __init__(self):
            self.in_txn = self.dirty = self.autoc = self.closed = False
            self.iso = 0
            self.sp = []
            self.cid = Conn.n
            Conn.n += 1

        def cursor(self):
            return Cur(self)

        def commit(self):
            log.append(1)
            if fault() == 1:
                raise FakeError("commit failed")
            self.in_txn = self.dirty = False
            del self.sp[:]

        def rollback(self):
            log.append(2)
            if fault() == 1:
                raise FakeError("rollback failed")
            self.in_txn = self.dirty = False
            del self.sp[:]

        def close(self):
            self.closed = True

        def _set_iso(self, level):
            log.append(3)
            if level == "AUTOCOMMIT":
                self.autoc = True
            else:
                self.autoc = False
                self.iso = {"READ COMMITTED": 0, "SERIALIZABLE": 1}[level]

        def _get_iso(self):
            return "AUTOCOMMIT" if self.autoc else ["READ COMMITTED", "SERIALIZABLE"][self.iso]

    dialect = env["Dialect"](dbapi=types.SimpleNamespace(Error=FakeError, paramstyle="qmark"))
    kw = dict(reset_on_return={0: "rollback", 1: "commit", 2: None}[reset], dialect=dialect)
    if kind == 0:
        p = sapool.QueuePool(Conn, pool_size=1, max_overflow=0, **kw)
    else:
        p = {1: sapool.NullPool, 2: sapool.StaticPool, 3: sapool.SingletonThreadPool}[kind](Conn, **kw)
    eng = Engine(p, dialect, make_url("fake://"))

    def observe(d):
        return [d.cid, int(d.in_txn), int(d.dirty), d.iso, int(d.autoc)]

    old_hook = sys.unraisablehook
    sys.unraisablehook = lambda u: None
    try:
        return _drive(eng, p, engine_iso, users, observe, log, ["write", "write", "fail", "SERIALIZABLE"])
    finally:
        sys.unraisablehook = old_hook
        eng = None
        gc.collect(0)


def _impl_sqlite(cfg, users):
    import gc
    import os
    import sqlite3
    import sys

    from sqlalchemy import create_engine, event

    env = _setup()
    backend, reset, kind, engine_iso = cfg
    env["n"][0] += 1
    path = os.path.join(env["tmp"], "c%d_%d.db" % (os.getpid(), env["n"][0]))
    raw0 = sqlite3.connect(path)
    raw0.executescript(
        "create table t(x integer); create table p(id integer primary key); "
        "create table c(id integer primary key, pid integer references p(id) deferrable initially deferred);"
    )
    raw0.close()
    eng = create_engine(
        "sqlite:///" + path, pool_reset_on_return={0: "rollback", 1: "commit", 2: None}[reset], **_pool_kwargs(kind)
    )

    # the documented pysqlite workaround for SAVEPOINT: no implicit BEGIN by the driver, BEGIN emitted by SQLAlchemy
    @event.listens_for(eng, "connect")
    def _on_connect(dbapi_con, rec):
        dbapi_con.isolation_level = None
        dbapi_con.execute("PRAGMA foreign_keys=ON")

    @event.listens_for(eng, "begin")
    def _on_begin(conn):
        if not conn.connection.dbapi_connection.in_transaction:
            conn.exec_driver_sql("BEGIN")

    seen = []  # keeps the raw connections alive so that identities are not reused

    def count(c):
        return c.execute("select (select count(*) from t) + (select count(*) from c)").fetchone()[0]

    def observe(raw):
        if not any(r is raw for r in seen):
            seen.append(raw)
        cid = [i for i, r in enumerate(seen) if r is raw][0]
        other = sqlite3.connect(path)
        try:
            dirty = int(count(raw) != count(other))
        finally:
            other.close()
        iso = raw.execute("PRAGMA read_uncommitted").fetchone()[0]
        return [cid, int(raw.in_transaction), dirty, iso, 0]

    old_hook = sys.unraisablehook
    sys.unraisablehook = lambda u: None
    try:
        return _drive(
            eng,
            eng.pool,
            engine_iso,
            users,
            observe,
            [],
            ["insert into t values (1)", "insert into c values (NULL, 99)", "insert into nosuchtable values (1)", "READ UNCOMMITTED"],
        )
    finally:
        sys.unraisablehook = old_hook
        eng.dispose()
        eng = None
        del seen[:]
        gc.collect(0)
        try:
            os.remove(path)
        except OSError:
            pass


def impl(c):
    cfg, users, faults = c["in"]
    if cfg[0] == 0:
        return _impl_fake(cfg, users, faults)
    return _impl_sqlite(cfg, users)


# ---------------------------------------------------------------------------------------------------
def oracle(c, obs):
    """the property itself: with reset_on_return enabled, every checkout after the first user's finds the
    connection without open transaction, without uncommitted writes, with default isolation / autocommit"""
    cfg, users, faults = c["in"]
    backend, reset, kind, engine_iso = cfg
    if reset == 2:
        return None
    for k in range(1, len(obs)):
        cid, in_txn, dirty, iso, autoc = obs[k][0]
        if in_txn or dirty or iso or autoc:
            prev_ops, prev_codes = (users + [[]])[k - 1], obs[k - 1][1]
            tag = ""
            failed = False  # a commit failed and no rollback() followed before the close()
            for o, code in zip(prev_ops, prev_codes):
                if o == O_COMMIT and code == 1:
                    failed = True
                elif o == O_ROLLBACK and code == 0:
                    failed = False
                elif o == O_CLOSE and code == 0 and failed:
                    tag = " [failed-commit-then-close]"
            what = []
            if in_txn:
                what.append("an open transaction")
            if dirty:
                what.append("uncommitted writes")
            if iso or autoc:
                what.append("a non-default isolation level / autocommit")
            return "checkout %d (DBAPI connection %d) has %s left by the previous user%s" % (k, cid, " and ".join(what), tag)
    return None


def match_finding(c, what):
    cfg, users, faults = c["in"]
    if cfg[1] == 0 and "[failed-commit-then-close]" in what and "non-default" not in what:
        return "C24-failed-commit-then-close-skips-rollback"
    return None
