"""C16 - schema_translate_map renders the mapped schemas regardless of cache state.

Model: coq/sql/SchemaTr.v (symbol_getter tokens, the regex replace as a scanner, the compiled cache whose
key holds only bool(map), DDL compiled per execution, the pre-executed SQL default compiled with the current map).
A statement is modelled as the list of pieces of its SQL text: literal text and schema-prefix places.  The
literal pieces of every generated statement are MEASURED on the implementation (the same statement built
on sentinel schemas, executed, cursor SQL split at the sentinels), so the model is compared on exactly the
text the compiler emits; IdentifierPreparer.quote (property C06) enters as a measured table.
"""
import ast
import json
import os

ID = "C16"
LEVEL = "proof"
PROPS = "props/C16.v"
RUNNER = ("SAV.sql.SchemaTrRun", "run_case")
STATIC_MODULES = ["SAV.sql.SchemaTrRun"]
RULE = (
    "one SQLite engine (StaticPool, schemas main/s1/s2/s3/\"order\" ATTACHed in memory, tables t,u in each, "
    "compiled cache cleared at the start of a case and shared inside it). A case = 1-2 statements "
    "(select / join / insert / insert-from-select / update with scalar subquery / delete / insertmanyvalues "
    "RETURNING / CREATE TABLE / DROP TABLE / CREATE INDEX / insert with a pre-executed scalar-select default) "
    "over table slots (Table or table() clause; schema None, per_user, other, s1, rarely _none, a bracket "
    "name, quoted_name with quote flag) + a history of 2-7 operations: execute statement k with a map "
    "(None key, identity, missing keys, chains a->b b->c, None / '' targets, reserved-word target; passed per "
    "execute, per statement or per engine) or evict statements from the cache. Exhaustive part: every ordered "
    "pair (and triple in thorough) of 9 maps x select on a None / per_user table, with and without eviction; "
    "map histories: all sequences of 2-3 maps where each map is the previously used dict OBJECT copied and "
    "edited or edited in place (so keys SQLAlchemy wrote into it travel along), None key changed / removed. "
    "Observed per operation: the SQL text seen by before_cursor_execute, error class, which schemas were "
    "read/written (row values name their schema; table contents + sqlite_master diffed). Oracle: the same "
    "statement rebuilt on Table objects carrying the translated schemas, executed without map: SQL text, rows "
    "and effects must be equal. non-trivial = some operation has a non-empty map translating a schema the "
    "statement uses"
)
TRUSTED = [
    "hand-written Gallina transcription of _with_schema_translate.symbol_getter, _render_schema_translates "
    "(the regex as a scanner: leftmost, greedy [^\\]]+, no rescan), format_table's prefix, _compile_w_cache's "
    "key, _execute_ddl, _init_ddl, _execute_scalar, _exec_default_clause_element; pinned to the normalised "
    "source, the token format / regex / '_none' constants re-extracted with ast on every run, and compared "
    "behaviourally on every run",
    "the literal SQL text around schema prefixes and IdentifierPreparer.quote are measured on the implementation "
    "per case (they are universally quantified in the theorems)",
    "Python's re.sub semantics for the pattern (validated by the correspondence, including texts that contain "
    "token look-alikes)",
]
ASSUMPTIONS = [
    "map values are plain strings / None (a quoted_name value is passed through quote() identically on both sides)",
    "label styles that embed the schema name in column labels (LABEL_STYLE_TABLENAME_PLUS_COL) are not generated: "
    "the label is derived from the untranslated name by design",
    "SQLite omits foreign keys to other schemas at compile time depending on the untranslated names; DDL with "
    "foreign keys is not generated",
    "Sequence objects follow the same symbol_getter path (format_sequence) but SQLite has no sequences: model only",
]
ANCHORS = [
    ("lib/sqlalchemy/sql/compiler.py", "IdentifierPreparer._with_schema_translate"),
    ("lib/sqlalchemy/sql/compiler.py", "IdentifierPreparer._render_schema_translates"),
    ("lib/sqlalchemy/sql/compiler.py", "IdentifierPreparer.format_table"),
    ("lib/sqlalchemy/sql/compiler.py", "IdentifierPreparer.quote_schema"),
    ("lib/sqlalchemy/sql/compiler.py", "Compiled.__init__"),
    ("lib/sqlalchemy/sql/elements.py", "ClauseElement._compile_w_cache"),
    ("lib/sqlalchemy/engine/base.py", "Connection._execute_ddl"),
    ("lib/sqlalchemy/engine/default.py", "DefaultExecutionContext._init_ddl"),
    ("lib/sqlalchemy/engine/default.py", "DefaultExecutionContext._execute_scalar"),
    ("lib/sqlalchemy/engine/default.py", "DefaultExecutionContext._exec_default_clause_element"),
]

REAL = ["main", "s1", "s2", "s3", "order"]
SENT = ["zqa0x", "zqa1x"]
DFLT = "main"


def S(s):
    return [ord(c) for c in s]


def H(s):
    """the hash SchemaTrRun.hash_str computes"""
    h = 7
    for ch in s:
        h = (h * 1000003 + ord(ch) + 1) % 2305843009213693951
    return h


def unS(t):
    return "".join(chr(c) for c in t)


# ---------------------------------------------------------------------------------------------
# T1: the constants the model hard-wires, re-extracted from the current source
class C16TranslateError(Exception):
    pass


def _consts(repo):
    path = os.path.join(repo, "lib/sqlalchemy/sql/compiler.py")
    with open(path) as f:
        tree = ast.parse(f.read())
    cls = next(n for n in ast.walk(tree) if isinstance(n, ast.ClassDef) and n.name == "IdentifierPreparer")
    fns = {n.name: n for n in cls.body if isinstance(n, ast.FunctionDef)}
    w, r = fns.get("_with_schema_translate"), fns.get("_render_schema_translates")
    if w is None or r is None:
        raise C16TranslateError("schema translate functions not found")
    strs_w = [n.value for n in ast.walk(w) if isinstance(n, ast.Constant) and isinstance(n.value, str)]
    fmt = [s for s in strs_w if "SCHEMA" in s]
    none_w = [s for s in strs_w if s == "_none"]
    subs = [
        n for n in ast.walk(r)
        if isinstance(n, ast.Call) and isinstance(n.func, ast.Attribute) and n.func.attr == "sub"
        and isinstance(n.func.value, ast.Name) and n.func.value.id == "re"
    ]
    if len(fmt) != 1 or len(none_w) != 1 or len(subs) != 1:
        raise C16TranslateError("unexpected shape: fmt=%r none=%r re.sub calls=%d" % (fmt, none_w, len(subs)))
    call = subs[0]
    if len(call.args) != 3 or call.keywords or not isinstance(call.args[0], ast.Constant):
        raise C16TranslateError("re.sub call is not re.sub(<const>, replace, statement)")
    if not (isinstance(call.args[1], ast.Name) and call.args[1].id == "replace"
            and isinstance(call.args[2], ast.Name) and call.args[2].id == "statement"):
        raise C16TranslateError("re.sub arguments changed")
    strs_r = [n.value for n in ast.walk(r) if isinstance(n, ast.Constant) and isinstance(n.value, str)]
    none_r = sorted(set(s for s in strs_r if s == "_none"))
    if none_r != ["_none"]:
        raise C16TranslateError("'_none' constant not found in _render_schema_translates")
    return fmt[0], call.args[0].value, "_none"


def translate(repo, outdir):
    from translate import fingerprint

    fingerprint.check(repo, ANCHORS, "C16")
    fmt, regex, none = _consts(repo)

    def zl(s):
        return "[" + "; ".join(str(ord(c)) for c in s) + "]%Z"

    out = os.path.join(outdir, "C16_gen.v")
    with open(out, "w") as f:
        f.write(
            "(* generated by specs/c16.py from the current sql/compiler.py *)\n"
            "From Coq Require Import List ZArith.\nImport ListNotations.\n"
            "From SAV.sql Require Import SchemaTr.\n"
            "Definition gen_token_format : list Z := %s.\n"
            "Definition gen_regex : list Z := %s.\n"
            "Definition gen_none : list Z := %s.\n"
            "(* \"__[SCHEMA_%%s]\" *)\n"
            "Lemma gen_token_format_ok : gen_token_format = tok_prefix ++ [37; 115]%%Z ++ [c_rb].\n"
            "Proof. reflexivity. Qed.\n"
            "(* the scanner transcribes exactly this pattern:  ( tok_prefix with [ escaped ( [^\\]]+ ) \\] ) *)\n"
            "Lemma gen_regex_ok : gen_regex =\n"
            "  [40; 95; 95; 92]%%Z ++ skipn 2 tok_prefix ++ [40; 91; 94; 92; 93; 93; 43; 41; 92; 93; 41]%%Z.\n"
            "Proof. reflexivity. Qed.\n"
            "Lemma gen_none_ok : gen_none = none_name.\nProof. reflexivity. Qed.\n" % (zl(fmt), zl(regex), zl(none))
        )
    return [out]


# ---------------------------------------------------------------------------------------------
# case generation.  desc = [0, stmts, ops]
#   stmt = [kind, slotA, slotB]; slot = [light, nameopt, force]  (nameopt [] | [codes], force 0|1|2)
#   op   = [0, sid, map, route(, how)] | [2, [sids]];  how 0 fresh dict, 1 copy of the previously used dict
#          object then edited to `map`, 2 the previously used object edited in place;  map = [[keyopt, valopt], ...]; route 0 per-execute option,
#          1 statement option, 2 engine option, 3 no option at all (map must be [])
K_SEL, K_JOIN, K_INS, K_INSSEL, K_UPD, K_DEL, K_IMV, K_CREATE, K_DROP, K_INDEX, K_DEFAULT, K_MARKER = range(12)
DDL_KINDS = (K_CREATE, K_DROP, K_INDEX)
TWO_SLOT = (K_JOIN, K_INSSEL, K_UPD, K_DEFAULT, K_IMV)


def O(x):
    return [] if x is None else [S(x)]


def unO(t):
    return None if not t else unS(t[0])


def mk_map(d):
    return [[O(k), O(v)] for k, v in d.items()]


def slot(name, light=0, force=0):
    return [light, O(name), force]


BASE_MAPS = [
    {},
    {"per_user": "s1"},
    {"per_user": "s2", "other": "s3"},
    {None: "s2"},
    {None: "s3", "per_user": "s1", "other": "s2"},
    {"per_user": "per_user"},
    {"nomatch": "s1"},
    {"per_user": "other", "other": "s1"},
    {None: "s1", "per_user": "order"},
]


def _rand_map(rng, special):
    r = rng.random()
    if r < 0.12:
        return {}
    keys = [None, "per_user", "other", "s1", "nomatch"]
    tgts = ["s1", "s2", "s3", "main", "order", "per_user", "other", "s1", "s2"]
    if special.get("none_tgt"):
        tgts += [None, None, ""]
    if special.get("none_name"):
        keys += ["_none", "_none"]
    d = {}
    for k in rng.sample(keys, rng.randint(1, 3)):
        d[k] = rng.choice(tgts)
    return d


def _rand_slot(rng, special, allow_light=True):
    names = [None, None, "per_user", "per_user", "other", "s1"]
    if special.get("none_name"):
        names += ["_none", "_none"]
    if special.get("bracket"):
        names += ["a[b", "x]"]
    n = rng.choice(names)
    light = 1 if allow_light and rng.random() < 0.12 else 0
    force = 0
    if special.get("force") and n is not None and rng.random() < 0.6:
        force = rng.choice([1, 2])
    return slot(n, light, force)


def gen_cases(rng, tier):
    cases = []
    # ---- exhaustive: histories of maps over one select ----
    depth = 3 if tier == "thorough" else 2
    import itertools

    for a in (None, "per_user"):
        st = [[K_SEL, slot(a), slot(None)]]
        for seq in itertools.product(range(len(BASE_MAPS)), repeat=depth):
            ops = [[0, 0, mk_map(BASE_MAPS[i]), 0 if BASE_MAPS[i] else 3] for i in seq]
            cases.append({"in": [0, st, ops], "kind": "pairs"})
            if depth == 2 and (a is None or tier == "thorough"):
                ops2 = [ops[0], [2, [0]], ops[1]]
                cases.append({"in": [0, st, ops2], "kind": "pairs-evict"})
    # ---- map histories: every map is built from the dict object used before (copy + edit / in-place edit) ----
    pool = [{None: "s1"}, {None: "s2", "per_user": "s3"}, {"per_user": "s1"}]
    if tier == "thorough":
        pool.append({None: "s3"})
    for a, kind in ((None, K_SEL), (None, K_INS), ("per_user", K_JOIN)):
        st = [[kind, slot(a), slot(None)]]
        for n in (2, 3):
            if n == 3 and kind != K_SEL and tier != "thorough":
                continue
            for seq in itertools.product(range(len(pool)), repeat=n):
                for hows in itertools.product((1, 2), repeat=n - 1):
                    if n == 3 and hows == (2, 1) and tier != "thorough":
                        continue
                    ops = [[0, 0, mk_map(pool[seq[0]]), 0, 0]]
                    for i, h in zip(seq[1:], hows):
                        ops.append([0, 0, mk_map(pool[i]), 2 if h == 2 and len(ops) % 2 else 0, h])
                    cases.append({"in": [0, st, ops], "kind": "map-history"})
    # ---- a caller's key "_none" beside a None key must not matter for schema-less tables ----
    for kind, a, b in ((K_SEL, None, None), (K_JOIN, None, "per_user"), (K_INS, None, None), (K_CREATE, None, None)):
        st = [[kind, slot(a), slot(b)]]
        m1 = {None: "s1", "_none": "s2", "per_user": "s3"}
        m2 = {"_none": "s3", None: "s2"}
        cases.append({"in": [0, st, [[0, 0, mk_map(m1), 0], [0, 0, mk_map(m2), 1], [0, 0, mk_map(m1), 2, 1]]],
                      "kind": "none-key-beside-alias"})
    # ---- every kind x a few fixed maps, None-flip histories ----
    for kind in range(K_MARKER + 1):
        for a, b in ((None, "other"), ("per_user", None), ("per_user", "other"))[: 3 if tier == "thorough" else 2]:
            st = [[kind, slot(a), slot(b)]]
            for m1, m2 in (({None: "s1", "per_user": "s2", "other": "s3"}, {"per_user": "s3"}),
                           ({"per_user": "s1", "other": "s2"}, {None: "s2", "other": "s1"}),
                           ({"other": "per_user", "per_user": "s3"}, {}),
                           ({"per_user": "", "other": None, None: "s2"}, {None: None, "per_user": "order"})):
                ops = [[0, 0, mk_map(m1), 0], [0, 0, mk_map(m2), 0 if m2 else 3], [0, 0, mk_map(m1), 1]]
                cases.append({"in": [0, st, ops], "kind": "kinds"})
    # ---- random ----
    nrand = 2500 if tier == "thorough" else 200
    for _ in range(nrand):
        special = {}
        r = rng.random()
        if r < 0.08:
            special["none_tgt"] = True
        elif r < 0.14:
            special["none_name"] = True
        elif r < 0.19:
            special["bracket"] = True
        elif r < 0.25:
            special["force"] = True
        nst = rng.choice([1, 1, 2])
        stmts = []
        for _k in range(nst):
            kind = rng.choice([K_SEL, K_SEL, K_JOIN, K_JOIN, K_INS, K_INSSEL, K_UPD, K_DEL, K_IMV, K_CREATE, K_DROP,
                               K_INDEX, K_DEFAULT])
            if rng.random() < 0.03:
                kind = K_MARKER
            light_ok = kind in (K_SEL, K_JOIN, K_INS, K_INSSEL, K_UPD, K_DEL)
            stmts.append([kind, _rand_slot(rng, special, light_ok), _rand_slot(rng, special, light_ok)])
        ops = []
        pool = [_rand_map(rng, special) for _ in range(rng.randint(1, 3))]
        for _k in range(rng.randint(2, 7)):
            if rng.random() < 0.1:
                ops.append([2, sorted(rng.sample(range(nst), rng.randint(1, nst)))])
                continue
            m = rng.choice(pool) if rng.random() < 0.7 else _rand_map(rng, special)
            route = rng.choice([0, 0, 1, 2]) if m else rng.choice([0, 3])
            op = [0, rng.randrange(nst), mk_map(m), route]
            if m and rng.random() < 0.3:
                op.append(rng.choice([1, 2]))
            ops.append(op)
        cases.append({"in": [0, stmts, ops], "kind": "random" + ("-" + "+".join(sorted(special)) if special else "")})
    return cases


def _desc(c):
    t = c["in"]
    return t[1] if t[0] == 1 else t


def nontrivial(c):
    d = _desc(c)
    stmts, ops = d[1], d[2]
    for o in ops:
        if o[0] != 0 or not o[2]:
            continue
        st = stmts[o[1]]
        used = [unO(st[1][1])] + ([unO(st[2][1])] if st[0] in TWO_SLOT else [])
        keys = [unO(k) for k, _ in o[2]]
        if any(u in keys for u in used):
            return True
    return False


# ---------------------------------------------------------------------------------------------
# implementation side
_ENV = {}
_LAST = {}


def _env():
    if _ENV:
        return _ENV
    import sqlalchemy as sa
    from sqlalchemy import event
    from sqlalchemy.pool import StaticPool

    log = []
    e = sa.create_engine("sqlite://", connect_args={"autocommit": False}, poolclass=StaticPool)

    @event.listens_for(e, "connect")
    def _att(dbapi, rec):
        for n in REAL[1:] + SENT:
            dbapi.execute("attach database ':memory:' as \"%s\"" % n)

    event.listen(e, "before_cursor_execute", lambda conn, cur, st, pa, ctx, em: log.append(st))
    with e.connect() as c:
        for s in REAL + SENT:
            for t in ("t", "u"):
                c.exec_driver_sql('create table "%s".%s (id integer primary key, v varchar)' % (s, t))
                c.exec_driver_sql('insert into "%s".%s values (1, \'%s\')' % (s, t, s))
        c.commit()
        raw = c.connection.dbapi_connection
    _ENV.update(engine=e, log=log, raw=raw, sa=sa, skel={}, base=None)
    _ENV["base"] = _snapshot()
    return _ENV


def _snapshot():
    cur = _ENV["raw"].cursor()
    out = {}
    for s in REAL:
        m = cur.execute('select type, name, tbl_name from "%s".sqlite_master order by name' % s).fetchall()
        ent = [tuple(r) for r in m]
        for r in m:
            if r[0] == "table":
                ent.append((r[1], tuple(cur.execute('select * from "%s"."%s" order by 1' % (s, r[1])).fetchall())))
        out[s] = ent
    return out


def _mk_schema(name, force):
    from sqlalchemy.sql import quoted_name

    if name is None or force == 0:
        return name
    return quoted_name(name, quote=(force == 1))


def _mk_table(tname, name, light=0, force=0, default=None):
    sa = _ENV["sa"]
    sch = _mk_schema(name, force)
    if light:
        return sa.table(tname, sa.column("id", sa.Integer), sa.column("v", sa.String), schema=sch)
    if default is not None:
        return sa.Table(tname, sa.MetaData(), sa.Column("id", sa.Integer, primary_key=True, default=default),
                        sa.Column("v", sa.String), schema=sch, implicit_returning=False)
    return sa.Table(tname, sa.MetaData(), sa.Column("id", sa.Integer, primary_key=True),
                    sa.Column("v", sa.String), schema=sch)


def _build(kind, sa_, sb_):
    """sa_/sb_ = (name, light, force).  Returns (statement, params)."""
    sa = _ENV["sa"]
    from sqlalchemy.schema import CreateIndex, CreateTable, DropTable

    if kind == K_DEFAULT:
        b = _mk_table("u", *sb_)
        dflt = sa.select(sa.func.coalesce(sa.func.max(b.c.id), 0) + 10).scalar_subquery()
        a = _mk_table("t", sa_[0], 0, sa_[2], default=dflt)
        return sa.insert(a).values(v="x"), None
    a = _mk_table("t", *sa_)
    b = _mk_table("u", *sb_)
    if kind == K_SEL:
        return sa.select(a.c.v).where(a.c.id == 1), None
    if kind == K_JOIN:
        return sa.select(a.c.v, b.c.v).select_from(a.join(b, a.c.id == b.c.id)), None
    if kind == K_INS:
        return sa.insert(a).values(id=77, v="x"), None
    if kind == K_INSSEL:
        return sa.insert(a).from_select(["id", "v"], sa.select(b.c.id + 50, b.c.v)), None
    if kind == K_UPD:
        sub = sa.select(b.c.v).where(b.c.id == 1).scalar_subquery()
        return sa.update(a).values(v=sub + "!").where(a.c.id == 1), None
    if kind == K_DEL:
        return sa.delete(a).where(a.c.id == 1), None
    if kind == K_IMV:
        # the VALUES expression itself holds a schema placeholder (rendered per batch)
        sub = sa.select(b.c.v).where(b.c.id == 1).scalar_subquery()
        return sa.insert(a).values(v=sub).returning(a.c.id, a.c.v), [{"id": 90}, {"id": 91}]
    if kind == K_CREATE:
        w = sa.Table("w", sa.MetaData(), sa.Column("id", sa.Integer, primary_key=True), sa.Column("v", sa.String),
                     schema=a.schema)
        return CreateTable(w), None
    if kind == K_DROP:
        return DropTable(a), None
    if kind == K_INDEX:
        return CreateIndex(sa.Index("ix_v", a.c.v)), None
    if kind == K_MARKER:
        return sa.select(sa.literal_column("'__[SCHEMA_per_user]'").label("m"), a.c.v).where(a.c.id == 1), None
    raise ValueError(kind)


def _run(stmt, params, m, route):
    """execute once on a fresh logical connection, roll back.  Returns a dict."""
    from sqlalchemy import exc

    env = _ENV
    log = env["log"]
    eng = env["engine"]
    if route == 2 and m is not None:
        eng = eng.execution_options(schema_translate_map=m)
    kw = {}
    if route == 0 and m is not None:
        kw["execution_options"] = {"schema_translate_map": m}
    if route == 1 and m is not None:
        stmt = stmt.execution_options(schema_translate_map=m)
    del log[:]
    res = {}
    with eng.connect() as c:
        try:
            r = c.execute(stmt, params, **kw) if params else c.execute(stmt, **kw)
            res["rows"] = [tuple(x) for x in r.all()] if r.returns_rows else None
            after = _snapshot()
            base = env["base"]
            res["diff"] = {s: after[s] for s in REAL if after[s] != base[s]}
            res["code"] = 0
        except exc.OperationalError as ex:
            res["code"] = 4
            res["msg"] = str(ex.orig)
        except (exc.StatementError, exc.InvalidRequestError, exc.CompileError) as ex:
            # errors raised while the execution context is built arrive wrapped in StatementError
            inner = ex.orig if isinstance(ex, exc.StatementError) and ex.orig is not None else ex
            msg = str(inner)
            res["msg"] = msg
            if isinstance(inner, exc.InvalidRequestError):
                res["code"] = 1 if "previously did not have" in msg else 2 if "previously had" in msg else 7
            elif isinstance(inner, exc.CompileError):
                res["code"] = 3 if "Square bracket" in msg else 6 if "no default schema" in msg else 8
            else:
                res["code"] = 8
        except Exception as ex:  # anything else is an unexpected failure of the execution
            res["code"] = 8
            res["msg"] = "%s: %s" % (type(ex).__name__, ex)
        finally:
            c.rollback()
    res["sql"] = list(log)
    return res


def _touched(res, skipcols=0):
    names = set()
    for s, ent in res["diff"].items():
        names.add(s)
        for e in ent:
            if len(e) == 2:
                for row in e[1]:
                    names.update(str(x).rstrip("!") for x in row if isinstance(x, str))
    for row in res["rows"] or []:
        names.update(str(x).rstrip("!") for x in row[skipcols:] if isinstance(x, str))
    return [1 if s in names else 0 for s in REAL]


def _skeleton(kind, la, lb):
    """the pieces of the SQL text of a statement of this kind (and Table / table() mix; the operand order of
    a comparison depends on it): [[0, text] | [1, slot index]] per cursor SQL"""
    env = _ENV
    key = (kind, la, lb)
    if key in env["skel"]:
        return env["skel"][key]
    import re

    stmt, params = _build(kind, (SENT[0], la, 0), (SENT[1], lb, 0))
    res = _run(stmt, params, None, 3)
    if res["code"] != 0:
        raise RuntimeError("sentinel statement failed: %r" % (res,))
    out = []
    for sql in res["sql"]:
        items = []
        pos = 0
        for mt in re.finditer(r"zqa([01])x\.", sql):
            items.append([0, sql[pos:mt.start()]])
            items.append([1, int(mt.group(1))])
            pos = mt.end()
        items.append([0, sql[pos:]])
        if "zqa" in "".join(i[1] for i in items if i[0] == 0):
            raise RuntimeError("sentinel left in skeleton text: %r" % sql)
        out.append(items)
    env["skel"][key] = out
    return out


def _translate_slot(sl, m, none_as):
    """the slot of the directly translated construct.  none_as: what a falsy target becomes"""
    light, name, force = sl[0], unO(sl[1]), sl[2]
    if light or not m or name not in m:
        return (name, light, force)
    tgt = m[name]
    if not tgt:
        tgt = none_as
    return (tgt, light, 0)


def _same(a, b):
    if a["code"] != b["code"]:
        return False
    if a["code"] == 0:
        return a["sql"] == b["sql"] and a["rows"] == b["rows"] and a["diff"] == b["diff"]
    if a["code"] == 4:
        return a["sql"] == b["sql"]
    return True


def impl(c):
    env = _env()
    sa = env["sa"]
    d = _desc(c)
    stmts_d, ops_d = d[1], d[2]
    eng = env["engine"]
    eng.clear_compiled_cache()
    prep = eng.dialect.identifier_preparer
    built = []
    for kind, sl_a, sl_b in stmts_d:
        st, params = _build(kind, (unO(sl_a[1]), sl_a[0], sl_a[2]), (unO(sl_b[1]), sl_b[0], sl_b[2]))
        built.append((st, params))
    skels = [_skeleton(st[0], st[1][0], st[2][0]) for st in stmts_d]

    # quote table
    qn = {(0, DFLT)}
    for kind, sl_a, sl_b in stmts_d:
        for sl in (sl_a, sl_b):
            if sl[1]:
                qn.add((sl[2], unS(sl[1][0])))
                qn.add((0, unS(sl[1][0])))
    for o in ops_d:
        if o[0] == 0:
            for k, v in o[2]:
                if v and v[0]:
                    qn.add((0, unS(v[0])))
    qtab = []
    for f, n in sorted(qn):
        if n == "":
            continue
        qtab.append([f, S(n), S(prep.quote(_mk_schema(n, f)))])

    outs = []
    viols = []
    snaps = []  # per operation: the content of the dict object handed to SQLAlchemy, before the execution
    prev_obj, prev_user = None, None
    gov = {}  # oracle's own bookkeeping: statement -> None-key presence of the governing compilation
    for o in ops_d:
        if o[0] == 2:
            snaps.append([])
            cache = eng._compiled_cache
            for sid in o[1]:
                gov.pop(sid, None)
                st = built[sid][0]
                if stmts_d[sid][0] in DDL_KINDS:
                    continue
                ck = st._generate_cache_key()
                for key in list(cache):
                    if key[1] == ck.key:
                        del cache[key]
            outs.append([9])
            continue
        sid, mp, route = o[1], o[2], o[3]
        how = o[4] if len(o) > 4 else 0
        kind, sl_a, sl_b = stmts_d[sid]
        # m = the map the caller means; obj = the dict object the caller hands over: a fresh dict (how 0),
        # or the previously used object copied (1) / edited in place (2) so that its own keys become m.
        # Keys SQLAlchemy itself wrote into the previous object ("_none") travel along, as they would
        m = None if route == 3 else {unO(k): unO(v) for k, v in mp}
        obj = None
        if m is not None:
            if how == 0 or prev_obj is None:
                obj = dict(m)
            else:
                obj = dict(prev_obj) if how == 1 else prev_obj
                for k in list(prev_user):
                    if k not in m:
                        obj.pop(k, None)
                obj.update(m)
            prev_obj, prev_user = obj, dict(m)
        snaps.append(mk_map(obj) if obj else [])
        leaked = obj is not None and "_none" in obj and "_none" not in m
        st, params = built[sid]
        res = _run(st, params, obj, route)
        code = res["code"]
        if kind == K_DEFAULT and res["sql"]:
            # the default's SELECT reaches the cursor before the INSERT is rendered
            outs.append([5, H(res["sql"][0])])
        elif code == 0:
            if len(res["sql"]) != 1:
                raise RuntimeError("expected one cursor execution, got %r" % (res["sql"],))
            outs.append([0, H(res["sql"][0]), _touched(res, 1 if kind == K_MARKER else 0)])
        elif code == 4:
            outs.append([4, H(res["sql"][-1])])
        else:
            outs.append([code])

        # ---- the property, directly ----
        slots = [sl_a] + ([sl_b] if kind in TWO_SLOT else [])
        # (the pre-executed default's table passes through the placeholder path too, since fix d3878ef)
        mapped = [sl for sl in slots if not sl[0]]
        has_map = bool(m)
        brack = any(sl[1] and any(ch in unS(sl[1][0]) for ch in "[]") for sl in mapped)
        none_now = has_map and None in m
        ddl = kind in DDL_KINDS
        flag = none_now if (ddl or sid not in gov) else gov[sid]
        if has_map and not brack and not ddl and sid not in gov:
            gov[sid] = none_now
        v = None
        # the known "_none" deviation: a translated schema or a caller's key is literally "_none".  (Since fix
        # a436594 SQLAlchemy no longer writes an alias "_none" into the caller's dict; should a reused dict carry
        # one again - `leaked` - any resulting misbehaviour is an unlisted violation)
        # (a key "_none" next to a None key, with no table in a schema called "_none", is harmless: the None entry
        # wins - c16_stale_alias_ignored - so it is NOT part of the known deviation)
        none_name = (any(sl[1] and unS(sl[1][0]) == "_none" for sl in mapped)
                     or (has_map and "_none" in m and None not in m))
        if code == 3:
            if not (has_map and brack):
                v = "CompileError (bracket) without a bracket name in a translated schema"
        elif has_map and brack:
            v = "bracket name in a translated schema was not rejected"
        elif code == 1:
            if not (none_now and not flag):
                v = "'None now present' error although the governing compilation had the None key"
        elif code == 2:
            if not (flag and not none_now and any(not sl[1] for sl in mapped)):
                v = "'None no longer present' error without a None-key flip on a schema-less table"
        elif code in (6, 7, 8):
            v = "unexpected error: %s" % res.get("msg", "")[:200]
        else:
            def direct(none_as, drop_force=False):
                tr = [_translate_slot(sl, m, none_as) for sl in (sl_a, sl_b)]
                if drop_force:
                    tr = [(n, l, 0 if not l else f) for (n, l, f) in tr]
                dst, dparams = _build(kind, tr[0], tr[1])
                return _run(dst, dparams, None, 3)

            want = direct(None)
            if not _same(res, want):
                what = "SQL %r rows %r effects %r; the construct with translated schemas gives SQL %r rows %r effects %r" % (
                    res["sql"], res.get("rows"), sorted(res.get("diff", {})), want["sql"], want.get("rows"),
                    sorted(want.get("diff", {})))
                falsy_used = has_map and any((not sl[0]) and unO(sl[1]) in m and not m[unO(sl[1])] for sl in slots)
                forced_unmapped = has_map and any(sl[2] and unO(sl[1]) not in m for sl in mapped)
                if none_name:
                    v = "none-name: " + what
                elif kind == K_MARKER and has_map:
                    v = "marker-text: " + what
                elif falsy_used and _same(res, direct(DFLT)):
                    v = "none-target: " + what
                elif forced_unmapped and _same(res, direct(None, drop_force=True)):
                    v = "quote-flag: " + what
                else:
                    v = what
        if v and none_name and _tag(v) is None and code in (1, 2):
            v = "none-name: " + v
        if v:
            viols.append("op %d: %s" % (len(outs) - 1, v))
    sk_tree = [[[[0, S(i[1])] if i[0] == 0 else [1, i[1]] for i in sql] for sql in sk] for sk in skels]
    _LAST["key"] = json.dumps(d)
    _LAST["viols"] = viols
    return [sk_tree, qtab, outs, snaps]


def oracle(c, obs):
    if _LAST.get("key") != json.dumps(_desc(c)):
        return None
    # a known deviation must not hide an unlisted one in the same case
    vs = _LAST["viols"]
    unl = [v for v in vs if _tag(v) is None]
    return (unl or vs or [None])[0]


_TAGS = {
    "none-target: ": "C16-none-target-names-default-schema",
    "none-name: ": "C16-schema-named-_none-collides",
    "marker-text: ": "C16-token-lookalike-in-text-rewritten",
    "quote-flag: ": "C16-quote-flag-of-unmapped-schema-lost",
}


def _tag(what):
    body = what.split(": ", 1)[1] if what.startswith("op ") else what
    for t, fid in _TAGS.items():
        if body.startswith(t):
            return fid
    return None


def match_finding(c, what):
    return _tag(what)


def model_pair(c, obs):
    sk_tree, qtab, outs, snaps = obs
    d = _desc(c)
    stmts_d, ops_d = d[1], d[2]
    mstmts = []
    first = []  # model index of the (main) statement of each described statement
    for (kind, sl_a, sl_b), sk in zip(stmts_d, sk_tree):
        sls = [sl_a, sl_b]
        conv = []
        for sql in sk:
            items = []
            for it in sql:
                if it[0] == 0:
                    items.append([0, it[1]])
                else:
                    sl = sls[it[1]]
                    # a Table built for the pre-executed default / CREATE TABLE is never a table() clause
                    items.append([1, 0 if sl[0] else 1, sl[1], sl[2]])
            conv.append(items)
        if kind == K_DEFAULT:
            # cursor order: the default's SELECT, then the INSERT
            first.append((len(mstmts) + 1, len(mstmts)))
            mstmts += [conv[0], conv[1]]
        else:
            first.append((len(mstmts), None))
            mstmts.append(conv[0])
    mops = []
    for o, mp in zip(ops_d, snaps):
        if o[0] == 2:
            mops.append([2, [first[s][0] for s in o[1]]])
            continue
        sid = o[1]
        kind = stmts_d[sid][0]
        if kind in DDL_KINDS:
            mops.append([1, first[sid][0], mp])
        elif kind == K_DEFAULT:
            mops.append([3, first[sid][0], first[sid][1], mp])
        else:
            mops.append([0, first[sid][0], mp])
    mi = [1, d, S(DFLT), qtab, [S(s) for s in REAL], mstmts, mops]
    return mi, outs


LEVEL_TEXT = (
    "Machine-checked proof (Coq) over the Gallina transcription of the schema-translate machinery: for all "
    "statements (as sequences of literal text and schema-prefix places), all maps, all quote functions and default "
    "schema names, rendering the symbolic compilation equals compiling the construct with the translated schemas "
    "(c16_translate_eq_direct_guarded), for a compilation made under any None-key state exactly the documented "
    "errors otherwise (c16_render_any_compilation_guarded), and for ANY history of executions / DDL / evictions "
    "over one cache every execution yields what the governing (first since eviction) compilation prescribes "
    "(c16_cache_history_transparent_guarded, by an invariant over unbounded histories); bracket names are rejected "
    "iff present. Five regions where the code deviates are delimited by boolean guards and each has a _refuted "
    "witness reproduced on the implementation on every run."
)
LEVEL_NOTE = (
    "Trusted: Coq kernel; the transcription (source pin + constants re-extracted per run + behavioural "
    "correspondence on SQL text, error class and touched schemas); the measured literal text and quote table per "
    "case; re.sub semantics. No axioms (Print Assumptions: closed under the global context)."
)
TECHNIQUE = (
    "Coq proof: scanner lemmas (token matched where it starts, nothing matched in marker-free text, border analysis "
    "of the token prefix), induction over statement pieces, cache invariant over histories; source pin + ast "
    "extraction of the token/regex constants; model/impl correspondence on generated histories through one engine; "
    "direct oracle against the rebuilt translated construct"
)
