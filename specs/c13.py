"""C13 - column defaults and onupdate fire exactly when the value is omitted.

Model: coq/sql/Defaults.v.  A case = a table (integer primary key + columns each carrying one default kind,
used as `default`/`server_default` for INSERT cases and as `onupdate`/`server_onupdate` for UPDATE cases),
optional base rows, and a list of parameter dictionaries (Core) or attribute dictionaries (ORM).
Observed: all rows of the table in rowid order and the number of calls of every default callable; or the
"A value is required for bind parameter" error.  Oracle-only: returned_defaults(_rows),
inserted_primary_key(_rows), ORM attribute state after flush.
"""
import itertools

ID = "C13"
LEVEL = "proof"
PROPS = "props/C13.v"
RUNNER = ("SAV.sql.DefaultsRun", "run_case")
STATIC_MODULES = ["SAV.sql.DefaultsRun"]
RULE = (
    "SQLite, fresh table per case. Exhaustive: 2 columns x all 36 pairs of default kinds (none, scalar, callable, "
    "context callable, SQL expression, server side) x all 9 supplied/omitted/None patterns x {Core INSERT, ORM "
    "INSERT, Core UPDATE(onupdate), ORM UPDATE (quick tier: every other combination for the two UPDATE forms)}; exhaustive 2-row executemany over 1 column x 6 kinds x all 9 "
    "pattern pairs (heterogeneous ones included) for Core INSERT and UPDATE; random: 3 columns, 2-4 parameter sets, "
    "homogeneous (70%) or heterogeneous key sets, explicit or autoincrement primary key, with/without "
    "return_defaults(); insert().values([rows]) with 3 rows x all 27 present/None/omitted patterns per default kind "
    "and random 2-4 rows x 3 columns; Update.ordered_values() over all pairs of onupdate kinds x 4 orders and random "
    "3-column single/executemany; INSERT with implicit_returning=False and a pre-executed SQL primary-key default "
    "evaluating to 0, 5, -3, NULL (and '', False, '0' oracle-only); ORM bulk UPDATE by primary key (session.execute(update(Entity), mappings) / "
    "bulk_update_mappings) with explicit None / omitted / value per column; ORM flushes of 1-4 objects with mixed key sets. non-trivial = some column with a default "
    "is omitted by some row and some column is supplied by some row"
)
TRUSTED = [
    "hand-written Gallina transcription of crud._scan_cols / _append_param_* (bind / prefetch / inline / absent "
    "decided by the first parameter set's keys), SQLCompiler.construct_params' required-value check, "
    "DefaultExecutionContext._process_execute_defaults, persistence._collect_insert_commands / "
    "_collect_update_commands and the consecutive grouping of _emit_*_statements; pinned to the normalised source "
    "and compared behaviourally on every run",
    "reference database semantics (absent column = server default or NULL on INSERT, old value on UPDATE, NULL "
    "integer primary key = max+1), validated against SQLite on every run",
]
ASSUMPTIONS = [
    "default callables are deterministic functions of (call index, current parameters); no two columns share a callable",
    "primary key defaults other than autoincrement, Sequence defaults, insert().values() mixed with executemany "
    "parameters, insert-from-select defaults and multi-table UPDATE are not covered",
    "ORM: `del obj.attr` on a loaded attribute counts as supplying None; an attribute assigned its current value counts as not supplied (no net change), attributes are plain "
    "integers (no SQL expressions as attribute values, no evaluates_none types, no version counters)",
]
ANCHORS = [
    ("lib/sqlalchemy/sql/crud.py", "_scan_cols"),
    ("lib/sqlalchemy/sql/crud.py", "_append_param_parameter"),
    ("lib/sqlalchemy/sql/crud.py", "_append_param_insert_hasdefault"),
    ("lib/sqlalchemy/sql/crud.py", "_append_param_update"),
    ("lib/sqlalchemy/sql/crud.py", "_extend_values_for_multiparams"),
    ("lib/sqlalchemy/sql/crud.py", "_process_multiparam_default_bind"),
    ("lib/sqlalchemy/sql/crud.py", "_append_param_insert_pk_no_returning"),
    ("lib/sqlalchemy/engine/default.py", "DefaultExecutionContext._process_execute_defaults"),
    ("lib/sqlalchemy/engine/default.py", "DefaultExecutionContext.get_insert_default"),
    ("lib/sqlalchemy/engine/default.py", "DefaultExecutionContext.get_update_default"),
    ("lib/sqlalchemy/engine/default.py", "DefaultExecutionContext._exec_default"),
    ("lib/sqlalchemy/orm/persistence.py", "_collect_insert_commands"),
    ("lib/sqlalchemy/orm/persistence.py", "_collect_update_commands"),
    ("lib/sqlalchemy/orm/mapper.py", "Mapper._insert_cols_as_none"),
]

NONE, SCALAR, CALLABLE, CTX, SQL, SERVER = range(6)
OP_CINS, OP_CUPD, OP_OINS, OP_OUPD, OP_MVAL, OP_ORD, OP_PKPRE, OP_PKFALSY, OP_OBULK = 0, 1, 2, 3, 4, 5, 6, 7, 8


def translate(repo, outdir):
    from translate import fingerprint

    fingerprint.check(repo, ANCHORS, "C13")
    return []


# ---------------------------------------------------------------------------------------------
# a case: [op, cols, base, psets, flags]; col = [key, dkind]; dkind = [0] | [1, v] | [2, f] | [3, f] | [4, e] | [5, e]
# pset = [[key, value-or-[]], ...]   (key 0 = primary key);  flags = [return_defaults]
def dk(kind, key):
    if kind == NONE:
        return [0]
    if kind == SCALAR:
        return [1, 100 + key]
    return [kind, key]


def V(v):
    return [] if v is None else v


def mk_cols(kinds):
    return [[0, [0]]] + [[i + 1, dk(k, i + 1)] for i, k in enumerate(kinds)]


PATTERNS = ["omit", "value", "none"]


def _pset(pk, pats, base=7):
    p = [] if pk is None else [[0, pk]]
    for i, pat in enumerate(pats):
        if pat == "value":
            p.append([i + 1, base + i])
        elif pat == "none":
            p.append([i + 1, []])
    return p


def _base_rows(n, ncols):
    return [[[0, r + 1]] + [[i + 1, 10 * (r + 1) + i] for i in range(ncols)] for r in range(n)]


def _has_set(cols, pats):
    return any(p != "omit" or cols[i + 1][1][0] in (SCALAR, CALLABLE, CTX, SQL) for i, p in enumerate(pats))


def gen_cases(rng, tier):
    cases = []
    kinds = [NONE, SCALAR, CALLABLE, CTX, SQL, SERVER]
    # ---- exhaustive single-row, 2 columns ----
    for k1, k2 in itertools.product(kinds, repeat=2):
        cols = mk_cols([k1, k2])
        for pats in itertools.product(PATTERNS, repeat=2):
            cases.append({"in": [OP_CINS, cols, [], [_pset(5, pats)], [0]], "kind": "ins1"})
            if tier == "thorough" or (k1 + k2 + PATTERNS.index(pats[1])) % 2 == 0:
                cases.append({"in": [OP_OINS, cols, [], [_pset(5, pats)], [0]], "kind": "orm-ins1"})
            base = _base_rows(1, 2)
            if tier != "thorough" and (k1 * 6 + k2 + PATTERNS.index(pats[0])) % 2:
                continue  # quick tier: every other (kinds, pattern) combination for UPDATE
            if _has_set(cols, pats):  # an UPDATE without any SET column is not valid SQL
                cases.append({"in": [OP_CUPD, cols, base, [_pset(1, pats)], [0]], "kind": "upd1"})
            cases.append({"in": [OP_OUPD, cols, base, [_pset(1, pats)], [0]], "kind": "orm-upd1"})
    # ---- exhaustive 2-row executemany, 1 column + a supplied filler column ----
    for k1 in kinds:
        cols = mk_cols([k1, NONE])
        for pa, pb in itertools.product(PATTERNS, repeat=2):
            ps = [_pset(5, [pa, "value"]), _pset(6, [pb, "value"], base=17)]
            cases.append({"in": [OP_CINS, cols, [], ps, [0]], "kind": "ins2"})
            cases.append({"in": [OP_CINS, cols, [], ps, [1]], "kind": "ins2-rd"})
            cases.append({"in": [OP_OINS, cols, [], ps, [0]], "kind": "orm-ins2"})
            base = _base_rows(2, 2)
            ups = [_pset(1, [pa, "value"]), _pset(2, [pb, "value"], base=17)]
            cases.append({"in": [OP_CUPD, cols, base, ups, [0]], "kind": "upd2"})
            cases.append({"in": [OP_OUPD, cols, base, ups, [0]], "kind": "orm-upd2"})
    # ---- ORM UPDATE where None is realised as `del obj.attr` ----
    for k1, k2 in itertools.product(kinds, repeat=2):
        if tier != "thorough" and (k1 + k2) % 2:
            continue
        for pats in (("none", "omit"), ("none", "value"), ("none", "none")):
            cases.append({"in": [OP_OUPD, mk_cols([k1, k2]), _base_rows(1, 2), [_pset(1, pats)], [1]], "kind": "orm-upd-del"})
    # ---- ORM bulk UPDATE by primary key: mappings with explicit None / omitted / value per column ----
    for k1, k2 in itertools.product(kinds, repeat=2):
        if tier != "thorough" and (k1 + k2) % 2 == 0:
            continue
        cols = mk_cols([k1, k2])
        for pa, pb in (("none", "omit"), ("none", "value"), ("value", "none"), ("omit", "none")):
            ps = [_pset(1, [pa, pb]), _pset(2, [pb, pa], base=17)]
            cases.append({"in": [OP_OBULK, cols, _base_rows(2, 2), ps, [(k1 + len(pa)) % 2]], "kind": "orm-bulk-upd"})
    for _ in range(300 if tier == "thorough" else 50):
        ks = [rng.choice(kinds) for _ in range(3)]
        n = rng.randint(1, 4)
        ps = [_pset(r + 1, [rng.choice(PATTERNS) for _ in range(3)], base=30 + 10 * r) for r in range(n)]
        cases.append({"in": [OP_OBULK, mk_cols(ks), _base_rows(n, 3), ps, [rng.randint(0, 1)]], "kind": "orm-bulk-upd-random"})
    # ---- insert(t).values([row, row, ...]): per row and column present / None / omitted ----
    mkinds = [NONE, SCALAR, CALLABLE, SQL, SERVER]
    for k1 in mkinds:
        cols = mk_cols([k1, NONE])
        for pats in itertools.product(PATTERNS, repeat=3):
            rows = [_pset(5 + r, [pats[r], "value"], base=7 + 10 * r) for r in range(3)]
            cases.append({"in": [OP_MVAL, cols, [], rows, [0]], "kind": "multivalues3"})
    # row 0 empty, no Python / SQL default anywhere: the statement degenerates to INSERT ... DEFAULT VALUES
    cases.append({"in": [OP_MVAL, mk_cols([NONE, SERVER]), [], [[], [[1, 41]], [[1, 3], [2, 4]]], [0]],
                  "kind": "multivalues-empty-first"})
    cases.append({"in": [OP_MVAL, mk_cols([NONE, SCALAR]), [], [[], [[1, 41]], [[1, 3], [2, 4]]], [0]],
                  "kind": "multivalues-empty-first"})
    for _ in range(600 if tier == "thorough" else 90):
        ks = [rng.choice(mkinds) for _ in range(3)]
        cols = mk_cols(ks)
        n = rng.randint(2, 4)
        auto = rng.random() < 0.25
        rows = [_pset(None if auto else 20 + r, [rng.choice(PATTERNS) for _ in range(3)], base=30 + 10 * r)
                for r in range(n)]
        cases.append({"in": [OP_MVAL, cols, _base_rows(rng.choice([0, 2]), 3), rows, [0]], "kind": "multivalues-random"})
    # ---- Update.ordered_values(): onupdate of the columns outside the list ----
    for k1, k2 in itertools.product(kinds, repeat=2):
        cols = mk_cols([k1, k2])
        for order in ([1], [2], [2, 1], [1, 2]):
            if tier != "thorough" and (k1 + k2 + len(order) + order[0]) % 2:
                continue
            pats = ["value" if (i + 1) in order else "omit" for i in range(2)]
            if (k1 * 7 + k2) % 3 == 0:
                pats = ["none" if p == "value" else p for p in pats]
            cases.append({"in": [OP_ORD, cols, _base_rows(1, 2), [_pset(1, pats)], order], "kind": "ordered1"})
    for _ in range(400 if tier == "thorough" else 60):
        ks = [rng.choice(kinds) for _ in range(3)]
        cols = mk_cols(ks)
        order = rng.sample([1, 2, 3], rng.randint(1, 3))
        n = rng.randint(1, 3)
        psets = []
        for r in range(n):
            pats = [rng.choice(["value", "none"]) if (i + 1) in order else "omit" for i in range(3)]
            psets.append(_pset(r + 1, pats, base=30 + 10 * r))
        cases.append({"in": [OP_ORD, cols, _base_rows(n, 3), psets, order], "kind": "ordered-random"})
    # ---- pre-executed SQL-expression primary key default (implicit_returning=False), falsy values ----
    for fetched in (0, 5, -3, []):
        for k1 in kinds:
            for pat in PATTERNS:
                if tier != "thorough" and fetched in (5, -3) and pat == "none":
                    continue
                cases.append({"in": [OP_PKPRE, mk_cols([k1]), _base_rows(2 if fetched == [] else 0, 1),
                                     [_pset(None, [pat])], [fetched]], "kind": "pk-preexec"})
    for variant in range(4):
        for pat in ("omit", "value"):
            cases.append({"in": [OP_PKFALSY, mk_cols([SCALAR]), [], [_pset(None, [pat])], [variant]],
                          "kind": "pk-falsy", "model": False})
    # ---- random ----
    nrand = 3000 if tier == "thorough" else 200
    for _ in range(nrand):
        nc = 3
        ks = [rng.choice(kinds) for _ in range(nc)]
        cols = mk_cols(ks)
        op = rng.choice([OP_CINS, OP_CINS, OP_CUPD, OP_OINS, OP_OUPD])
        n = rng.randint(1, 4)
        homog = rng.random() < 0.7
        first = [rng.choice(PATTERNS) for _ in range(nc)]
        psets = []
        auto_pk = op in (OP_CINS, OP_OINS) and rng.random() < 0.3
        nbase = n if op in (OP_CUPD, OP_OUPD) else rng.choice([0, 0, 2])
        base = _base_rows(nbase, nc)
        for r in range(n):
            pats = list(first)
            if not homog:
                pats = [rng.choice(PATTERNS) for _ in range(nc)]
            else:
                pats = [p if p == "omit" else rng.choice(["value", "none"]) for p in first]
            if op in (OP_CUPD, OP_OUPD):
                pk = r + 1
            else:
                pk = None if auto_pk else 20 + r
            if op == OP_CUPD and r == 0 and not _has_set(cols, pats):
                pats[0] = "value"
            psets.append(_pset(pk, pats, base=30 + 10 * r))
        flags = [1 if op == OP_CINS and rng.random() < 0.4 else 0]
        cases.append({"in": [op, cols, base, psets, flags], "kind": "random-" + ("homog" if homog else "heterog")})
    return cases


def nontrivial(c):
    op, cols, base, psets, flags = c["in"]
    om = sup = False
    for p in psets:
        keys = {k for k, _ in p}
        for k, d in cols[1:]:
            if k in keys:
                sup = True
            elif d[0] != 0:
                om = True
    return om and sup


# ---------------------------------------------------------------------------------------------
_ENV = {}
_LAST = {}


def _env():
    if not _ENV:
        import sqlalchemy as sa

        _ENV["sa"] = sa
        _ENV["engine"] = sa.create_engine("sqlite://", connect_args={"autocommit": False})
    return _ENV


def cval(f, n):
    return 1000 * (f + 1) + n


def ctxval(f, params, n):
    s = 0
    for k, v in params.items():
        if v is None:
            continue
        if k in ("id", "bid", "t_id"):
            kk = 0
        elif k.startswith("c") and k[1:].isdigit():
            kk = int(k[1:])
        elif k.startswith("v_c") and k[3:].isdigit():
            kk = int(k[3:])
        else:
            continue
        s += (kk + 1) * v
    return 50000 * (f + 1) + n + s


def _build_table(cols, update, pk=None):
    sa = _ENV["sa"]
    counts = {}
    tkw = {}
    if pk is None:
        columns = [sa.Column("id", sa.Integer, primary_key=True)]
    else:
        # a primary key whose SQL-expression default has to be pre-executed (no RETURNING)
        ptype, sqltext = pk
        columns = [sa.Column("id", ptype, primary_key=True, default=sa.text(sqltext))]
        tkw["implicit_returning"] = False

    def mk_callable(f):
        def fn():
            n = counts.get(f, 0)
            counts[f] = n + 1
            return cval(f, n)

        return fn

    def mk_ctx(f):
        def fn(context):
            n = counts.get(f, 0)
            counts[f] = n + 1
            return ctxval(f, context.get_current_parameters(), n)

        return fn

    for key, d in cols[1:]:
        kw = {}
        kind = d[0]
        arg = None
        if kind == SCALAR:
            arg = d[1]
        elif kind == CALLABLE:
            arg = mk_callable(d[1])
        elif kind == CTX:
            arg = mk_ctx(d[1])
        elif kind == SQL:
            arg = sa.text("%d" % (3000 + d[1]))
        if kind == SERVER:
            if update:
                kw["server_onupdate"] = sa.FetchedValue()
            else:
                kw["server_default"] = sa.text("%d" % (4000 + d[1]))
        elif arg is not None:
            kw["onupdate" if update else "default"] = arg
        columns.append(sa.Column("c%d" % key, sa.Integer, **kw))
    t = sa.Table("t", sa.MetaData(), *columns, **tkw)
    return t, counts


def _pd(p, update_core=False):
    d = {}
    for k, v in p:
        name = ("bid" if update_core else "id") if k == 0 else "c%d" % k
        d[name] = None if v == [] else v
    return d


def impl(c):
    env = _env()
    sa = env["sa"]
    from sqlalchemy import exc
    from sqlalchemy.orm import Session, registry

    op, cols, base, psets, flags = c["in"]
    update = op in (OP_CUPD, OP_OUPD, OP_ORD, OP_OBULK)
    pk = None
    if op == OP_PKPRE:
        pk = (sa.Integer, "NULL" if flags[0] == [] else "%d" % flags[0])
    elif op == OP_PKFALSY:
        pk = [(sa.String(10), "''"), (sa.Boolean, "0"), (sa.Integer, "0"), (sa.String(10), "'0'")][flags[0]]
    t, counts = _build_table(cols, update, pk)
    names = ["id"] + ["c%d" % k for k, _ in cols[1:]]
    info = {"rd": None, "ipk": None, "orm_state": None}
    obs = None
    with env["engine"].connect() as conn:
        conn.exec_driver_sql("drop table if exists t")
        t.create(conn)
        for row in base:
            conn.exec_driver_sql(
                "insert into t (%s) values (%s)" % (", ".join(names), ", ".join("?" for _ in names)),
                tuple(None if v == [] else v for _, v in row),
            )
        try:
            if op == OP_CINS:
                stmt = t.insert()
                if flags[0]:
                    stmt = stmt.return_defaults()
                params = [_pd(p) for p in psets]
                r = conn.execute(stmt, params if len(params) > 1 else params[0])
                if len(params) == 1:
                    info["ipk"] = [list(r.inserted_primary_key)]
                    if flags[0] and r.returned_defaults is not None:
                        info["rd"] = [dict(r.returned_defaults._mapping)]
                elif flags[0]:
                    info["ipk"] = [list(x) for x in r.inserted_primary_key_rows]
                    info["rd"] = [dict(x._mapping) for x in r.returned_defaults_rows or []]
            elif op == OP_MVAL:
                r = conn.execute(t.insert().values([_pd(p) for p in psets]))
            elif op in (OP_PKPRE, OP_PKFALSY):
                r = conn.execute(t.insert(), _pd(psets[0]))
                info["ipk"] = [list(r.inserted_primary_key)]
            elif op == OP_ORD:
                order = flags
                stmt = t.update().where(t.c.id == sa.bindparam("bid")).ordered_values(
                    *[(t.c["c%d" % k], sa.bindparam("v_c%d" % k)) for k in order])
                params = []
                for p in psets:
                    params.append({("bid" if k == 0 else "v_c%d" % k): (None if v == [] else v) for k, v in p})
                conn.execute(stmt, params if len(params) > 1 else params[0])
            elif op == OP_CUPD:
                stmt = t.update().where(t.c.id == sa.bindparam("bid"))
                params = [_pd(p, True) for p in psets]
                conn.execute(stmt, params if len(params) > 1 else params[0])
            else:
                reg = registry()

                class Obj:
                    pass

                reg.map_imperatively(Obj, t)
                with Session(conn) as s:
                    objs = []
                    if op == OP_OBULK:
                        # ORM bulk UPDATE by primary key: every key of a mapping is a value to write
                        maps = [_pd(p) for p in psets]
                        if flags[0] == 1:
                            s.bulk_update_mappings(Obj, maps)
                        else:
                            s.execute(sa.update(Obj), maps)
                    elif op == OP_OINS:
                        for p in psets:
                            objs.append(Obj(**_pd(p)))
                        s.add_all(objs)
                    else:
                        for p in psets:
                            d = _pd(p)
                            o = s.get(Obj, d.pop("id"))
                            for k, v in d.items():
                                if v is None and flags[0] == 1:
                                    delattr(o, k)  # `del obj.attr` persists NULL like an assigned None (f879cdb)
                                else:
                                    setattr(o, k, v)
                            objs.append(o)
                    s.flush()
                    if objs:
                        info["orm_state"] = [[getattr(o, n) for n in names] for o in objs]
                reg.dispose()
            rows = [list(x) for x in conn.exec_driver_sql("select %s from t order by rowid" % ", ".join(names))]
            if op == OP_PKFALSY:
                info["raw_rows"] = rows
                rows = [[0] + r[1:] for r in rows]
            fns = [d[1] for _, d in cols if d[0] in (CALLABLE, CTX)]
            obs = [0, [[V(v) for v in row] for row in rows], [counts.get(f, 0) for f in fns]]
        except exc.CompileError as ex:
            import re

            m = re.search(r"INSERT value for column t\.(\w+) is explicitly rendered as a bound", str(ex))
            if not m:
                raise
            name = m.group(1)
            obs = [2, 0 if name == "id" else int(name[1:])]
        except exc.StatementError as ex:
            msg = str(ex.orig) if ex.orig is not None else str(ex)
            import re

            m = re.search(r"A value is required for bind parameter '(\w+)'(?:, in parameter group (\d+))?", msg)
            if not m:
                raise
            name = m.group(1)
            key = 0 if name in ("id", "bid", "t_id") else int(name[3:] if name.startswith("v_c") else name[1:])
            obs = [1, int(m.group(2) or 0), key]
            rows = None
        except Exception as ex:  # any other failure of the statement / flush is an observation, not a crash
            obs = [3]
            info["error"] = "%s: %s" % (type(ex).__name__, str(ex)[:200])
        finally:
            conn.rollback()
    _LAST["case"] = c["in"]
    _LAST["viol"] = _check(c["in"], obs, info)
    return obs


# ---------------------------------------------------------------------------------------------
# the property, checked directly
def _check(inp, obs, info):
    op, cols, base, psets, flags = inp
    update = op in (OP_CUPD, OP_OUPD, OP_ORD, OP_OBULK)
    orm = op in (OP_OINS, OP_OUPD, OP_OBULK)
    many = op in (OP_CINS, OP_CUPD)  # executemany forms whose column keys come from the first set
    keysets = [frozenset(k for k, _ in p) for p in psets]
    kinds = {k: d[0] for k, d in cols}
    if obs[0] == 3:
        return "unexpected error: %s" % info.get("error")
    if op in (OP_PKPRE, OP_PKFALSY):
        return _check_pk(inp, obs, info)
    if obs[0] == 2:
        # insert().values([...]): a row after the first lacks a column of the VALUES list that has no Python /
        # SQL default (documented CompileError)
        key = obs[1]
        if op == OP_MVAL and key in keysets[0] and kinds.get(key) in (NONE, SERVER) and any(key not in ks for ks in keysets[1:]):
            return None
        return "CompileError for column %d without a row lacking it" % key
    if op == OP_MVAL and any(k in keysets[0] and kinds.get(k) in (NONE, SERVER) and any(k not in ks for ks in keysets[1:])
                             for k in kinds):
        return "a multi-values row lacks a column without default but no CompileError was raised"
    if obs[0] == 1:
        # documented: every parameter set must have (at least) the keys of the first
        if orm:
            return "ORM flush raised a required-bind error"
        g, key = obs[1], obs[2]
        if g < len(psets) and key in keysets[0] and key not in keysets[g]:
            return None
        return "required-bind error for a key the parameter set has (group %d key %d)" % (g, key)
    if not orm and op != OP_MVAL and any(not (keysets[0] <= ks) for ks in keysets):
        return "a parameter set lacks a key of the first one but no error was raised"
    rows, counts = obs[1], obs[2]
    nbase = len(base)
    fns = [d[1] for _, d in cols if d[0] in (CALLABLE, CTX)]
    cnt = dict(zip(fns, counts))
    problems = []
    tagged = []
    # rows touched, in order
    if update:
        byid = {r[0]: r for r in rows}
        old = {r[0][1]: [V2(v) for _, v in r] for r in base}
        targets = []
        for p in psets:
            pid = dict((k, v) for k, v in p)[0]
            targets.append((p, byid.get(pid), old.get(pid)))
        if len(rows) != nbase:
            problems.append("row count changed by UPDATE")
    else:
        if len(rows) != nbase + len(psets):
            msg = "expected %d rows, found %d" % (nbase + len(psets), len(rows))
            if (op == OP_MVAL and not keysets[0] and len(rows) == nbase + 1
                    and all(d[0] in (NONE, SERVER) for _, d in cols)):
                # row 0 is empty and no column has a Python / SQL default: INSERT ... DEFAULT VALUES, one row
                return "multivalues-first-row: " + msg
            return msg
        targets = [(p, rows[nbase + i], None) for i, p in enumerate(psets)]
    omitted_rows = {}
    fired = {}  # per column: how often its default has fired so far (known deviations included)
    for ri, (p, row, oldrow) in enumerate(targets):
        if row is None:
            problems.append("row for parameter set %d not found" % ri)
            continue
        pd = dict((k, v) for k, v in p)
        # an ORM attribute equal to the loaded value is "no net change"
        if op == OP_OUPD:
            pd = {k: v for k, v in pd.items() if k == 0 or V2(v) != oldrow[k]}
            if set(pd) == {0}:
                # nothing changed: no UPDATE is emitted, the row must be untouched
                if [V2(x) for x in row] != oldrow:
                    problems.append("row %d changed although no attribute changed" % ri)
                continue
        if op == OP_OBULK and set(pd) == {0}:
            # a mapping with only the primary key names nothing to update: no UPDATE, the row stays
            if [V2(x) for x in row] != oldrow:
                problems.append("row %d changed although the mapping names no column" % ri)
            continue
        for ci, (key, d) in enumerate(cols):
            if key == 0:
                if 0 in pd and pd[0] != [] and V2(row[0]) != pd[0]:
                    problems.append("primary key %r stored as %r" % (pd[0], row[0]))
                continue
            got = V2(row[ci])
            if key in pd:
                want = V2(pd[key])
                if got != want:
                    msg = "row %d column c%d: supplied %r but stored %r" % (ri, key, want, got)
                    if orm and op == OP_OINS and want is None and d[0] != NONE:
                        tagged.append("orm-none-omitted: " + msg)
                        fired[key] = fired.get(key, 0) + 1
                    elif many and len(psets) > 1 and key not in keysets[0]:
                        tagged.append("heterogeneous-executemany: " + msg)
                        fired[key] = fired.get(key, 0) + 1
                    elif op == OP_MVAL and key not in keysets[0] and d[0] in (NONE, SERVER):
                        # the column is not in the VALUES list row 0 decided
                        tagged.append("multivalues-first-row: " + msg)
                    else:
                        problems.append(msg)
                continue
            omitted_rows.setdefault(key, []).append(ri)
            nth = fired.get(key, 0)
            fired[key] = nth + 1
            kind = d[0]
            if kind == NONE or (kind == SERVER and update):
                want = oldrow[ci] if update else None
                ok = got == want
            elif kind == SCALAR:
                ok = got == d[1]
            elif kind == CALLABLE:
                ok = got == cval(d[1], nth)
            elif kind == CTX:
                # the context shows at least the row's own supplied parameters: check the residue
                # get_current_parameters() shows the row's own parameters: the supplied ones and the
                # Python-side defaults that fired before this column (table order)
                ok = got is not None
                # (a Core executemany row with keys the first set lacks has those keys ignored - the known
                # deviation - so the context legitimately lacks them: exact check only for conforming rows)
                extra_keys = many and len(psets) > 1 and not (set(pd) <= keysets[0])
                if ok and not tagged and not extra_keys:
                    s_ = 0
                    for cj, (k2, d2) in enumerate(cols):
                        if k2 in pd:
                            if pd[k2] != []:
                                s_ += (k2 + 1) * pd[k2]
                        elif cj < ci and d2[0] in (SCALAR, CALLABLE, CTX) and V2(row[cj]) is not None:
                            s_ += (k2 + 1) * row[cj]
                    ok = got == 50000 * (d[1] + 1) + nth + s_
            elif kind == SQL:
                ok = got == 3000 + d[1]
            else:
                ok = got == 4000 + d[1]
            if not ok:
                problems.append("row %d column c%d omitted (kind %d) but stored %r" % (ri, key, kind, got))
    for key, d in cols:
        if d[0] in (CALLABLE, CTX):
            want = len(omitted_rows.get(key, []))
            if cnt.get(d[1], 0) != want:
                msg = "callable of c%d called %d times, %d rows omit the column" % (key, cnt.get(d[1], 0), want)
                if many and len(psets) > 1 and any(ks != keysets[0] for ks in keysets):
                    tagged.append("heterogeneous-executemany: " + msg)
                elif orm and op == OP_OINS and any(dict((k, v) for k, v in p).get(key, 0) == [] for p in psets):
                    tagged.append("orm-none-omitted: " + msg)
                else:
                    problems.append(msg)
    # returned defaults / inserted primary keys equal what was stored
    if not update and info.get("ipk") is not None:
        for i, ipk in enumerate(info["ipk"]):
            if i < len(targets) and targets[i][1] is not None and ipk != [targets[i][1][0]]:
                problems.append("inserted_primary_key %r but stored id %r" % (ipk, targets[i][1][0]))
    if not update and info.get("rd") is not None:
        names = ["id"] + ["c%d" % k for k, _ in cols[1:]]
        for i, rd in enumerate(info["rd"]):
            if i >= len(targets) or targets[i][1] is None:
                continue
            for n, v in rd.items():
                if n in names and V2(targets[i][1][names.index(n)]) != v:
                    problems.append("returned_defaults %s=%r but stored %r" % (n, v, targets[i][1][names.index(n)]))
    if orm and info.get("orm_state") is not None:
        for (p, row, _), st in zip(targets, info["orm_state"]):
            if row is not None and [V2(x) for x in row] != st:
                problems.append("object state %r after flush but stored row %r" % (st, row))
    if problems:
        return problems[0]
    if tagged:
        return tagged[0]
    return None


def _check_pk(inp, obs, info):
    """a pre-executed primary key default: the fetched value - 0, '', False included - is the key"""
    op, cols, base, psets, flags = inp
    if obs[0] != 0:
        return "unexpected error"
    if op == OP_PKPRE:
        want = None if flags[0] == [] else flags[0]
        stored = obs[1][len(base)][0] if len(obs[1]) > len(base) else None
    else:
        want = ["", False, 0, "0"][flags[0]]
        rr = info.get("raw_rows") or []
        stored = rr[len(base)][0] if len(rr) > len(base) else None
        if flags[0] == 1 and stored is not None:
            stored = bool(stored)
    ipk = (info.get("ipk") or [[None]])[0][0]
    if want is None:
        # a primary key default that evaluates to NULL is a misconfiguration: the database assigns the key and
        # inserted_primary_key stays (None,); only the stored row is compared with the model
        return None
    if stored != want or type(stored) is not type(want):
        return "primary key default evaluates to %r but the stored key is %r" % (want, stored)
    if ipk != want or type(ipk) is not type(want):
        return "primary key default evaluates to %r (stored %r) but inserted_primary_key is %r" % (want, stored, ipk)
    return None


def V2(v):
    return None if v == [] else v


def oracle(c, obs):
    if _LAST.get("case") != c["in"]:
        return None
    return _LAST["viol"]


def match_finding(c, what):
    if what.startswith("heterogeneous-executemany: "):
        return "C13-executemany-first-dict-decides-keys"
    if what.startswith("orm-none-omitted: "):
        return "C13-orm-insert-none-fires-default"
    if what.startswith("multivalues-first-row: "):
        return "C13-multivalues-first-row-decides-columns"
    return None


LEVEL_TEXT = (
    "Machine-checked proof (Coq) over the Gallina transcription of the INSERT/UPDATE default machinery: for every "
    "table, every parameter set and every callable behaviour, a stored column equals the supplied value (None "
    "included) when its key is supplied and the default of its kind when omitted, for single executions and, by "
    "induction over the parameter sets, for executemany of any length whose sets have the key set of the first; "
    "callables are called exactly once per omitting row; a set lacking a key of the first raises before any "
    "default fires. The two known deviations (extra keys of later sets ignored; ORM INSERT drops None) have "
    "_refuted witnesses and _guarded complements."
)
LEVEL_NOTE = (
    "Trusted: Coq kernel; the transcription (source pin + behavioural correspondence incl. every pair of default "
    "kinds x supplied/omitted/None); the reference database semantics validated on SQLite. No axioms."
)
TECHNIQUE = (
    "Coq proof by induction over columns and parameter sets with a call-counter state; source pin; small-scope "
    "exhaustive + random model/impl correspondence; direct oracle on stored rows, call counts, returned defaults"
)
