"""C48 - pending changes survive the application dropping its references.

Case format (tree):  [rows, nslots, ops]
  rows    initial committed rows of t(id, val, w): [[id, val, w], ...]
  nslots  number of application variables (slots); every reference the harness holds lives in a slot
  ops     [0,i,k] slot i = session.get(T, k)        [1,i] slot i = T(id=fresh, val=fresh); session.add
          [2,i]   slot i .val = fresh value          [3,i] slot i = None
          [4]     gc.collect()                       [5] session.flush()        [6] session.commit()
          [7,i]   session.expire(slot i)  (only if persistent)                  [8] session.expire_all()
          [9,i]   session.delete(slot i)  (only if persistent)
          [10,i,j] slot i .buddy = slot j   (an unmapped attribute: a plain reference between objects)
          [11,i]  slot i .w = fresh value   (second column)
          [12,i]  in-place change of val, registered the way sqlalchemy.ext.mutable does it:
                  inspect(slot i).dict['val'] = fresh; attributes.flag_modified(slot i, 'val')   (only if val is loaded)
          [13,i,w] session.expire(slot i, ['w' if w else 'val'])  (only if persistent): partial expire
Observation per operation (coq/orm/WeakRefRun.v):
  [rc, bit mask of the live objects in creation order (harness-held weakrefs), slot contents (object
   index or -1), sorted primary keys of session.identity_map, len(session.new), len(session.dirty),
   len(session.deleted), rows of t seen through the session's connection if they changed (else 0), 0]
Fresh primary keys / values come from counters (max initial id + 1.., 100..) that the oracle replays.
The automatic collector is disabled during a case: objects die by reference counting or at [4].
"""
import itertools

ID = "C48"
LEVEL = "proof"
PROPS = "props/C48.v"
RUNNER = ("SAV.orm.WeakRefRun", "run_case")
STATIC_MODULES = ["SAV.orm.WeakRefRun"]
RULE = (
    "every history of length <= 3 (thorough: <= 4) over the 11 one-slot operations {get(1), new, set, drop, "
    "gc.collect, flush, commit, expire, expire_all, delete, self-link} on a table with one row; the "
    "modify / drop-references / collect / flush family (load-or-new x set x every arrangement of drop, "
    "gc.collect, link-cycle, second reference x flush|commit|get-autoflush, then re-get); two objects modified "
    "together with set/drop/gc.collect in every order; in-place changes (flag_modified, as sqlalchemy.ext.mutable does) "
    "as the only pending change and changes to two attributes of which one is expired again (partial expire), then "
    "drop / gc.collect / flush (350 sampled); (quick: seeded samples of 220 + 200 of the first two families) "
    "plus random histories of "
    "<= 14 operations over <= 3 slots and <= 4 rows. non-trivial = an object is modified (set/new) and a "
    "slot is dropped afterwards before a flush/commit/get"
)
TRUSTED = [
    "hand-written Gallina transcription (coq/orm/WeakRef.v) of InstanceState._modified_event/_commit_all_states/"
    "_expire/_cleanup, the identity map's _dict/_modified bookkeeping and Session._new/_deleted/_flush/"
    "_register_persistent/_remove_newly_deleted/commit/expire/get; pinned to the normalised source, the "
    "boolean conditions of _modified_event and _after_attach re-translated on every run, compared behaviourally",
    "CPython's memory management: an object is freed only when unreachable through strong references "
    "(the theorems hold for every collector with that property); the harness disables the automatic "
    "collector so that reference counting and gc.collect() are the only collection points",
    "the unit of work's SQL is summarised as one INSERT/UPDATE/DELETE per state (values: C36/C30)",
]
ASSUMPTIONS = [
    "one mapped class without relationships; references between objects are plain (unmapped) attributes",
    "one Session (autoflush and expire_on_commit at their defaults), no rollback / expunge / merge / close, "
    "no external writer, primary keys of new objects are fresh; in-place changes are made the way ext.mutable "
    "registers them (value replaced in state.dict + attributes.flag_modified); partial refresh (refresh(obj, [attr])) "
    "is not in the alphabet (partial expire is)",
]
ANCHORS = [
    ("lib/sqlalchemy/orm/state.py", "InstanceState.__init__"),
    ("lib/sqlalchemy/orm/state.py", "InstanceState._cleanup"),
    ("lib/sqlalchemy/orm/state.py", "InstanceState._modified_event"),
    ("lib/sqlalchemy/orm/state.py", "InstanceState._commit_all_states"),
    ("lib/sqlalchemy/orm/state.py", "InstanceState._expire"),
    ("lib/sqlalchemy/orm/state.py", "InstanceState._expire_attributes"),
    ("lib/sqlalchemy/orm/attributes.py", "flag_modified"),
    ("lib/sqlalchemy/orm/session.py", "Session._expire_state"),
    ("lib/sqlalchemy/orm/state.py", "InstanceState._detach_states"),
    ("lib/sqlalchemy/orm/identity.py", "IdentityMap._manage_incoming_state"),
    ("lib/sqlalchemy/orm/identity.py", "IdentityMap._manage_removed_state"),
    ("lib/sqlalchemy/orm/identity.py", "IdentityMap.check_modified"),
    ("lib/sqlalchemy/orm/identity.py", "_WeakInstanceDict.replace"),
    ("lib/sqlalchemy/orm/identity.py", "_WeakInstanceDict.add"),
    ("lib/sqlalchemy/orm/identity.py", "_WeakInstanceDict._add_unpresent"),
    ("lib/sqlalchemy/orm/identity.py", "_WeakInstanceDict.get"),
    ("lib/sqlalchemy/orm/identity.py", "_WeakInstanceDict._fast_discard"),
    ("lib/sqlalchemy/orm/identity.py", "_WeakInstanceDict.safe_discard"),
    ("lib/sqlalchemy/orm/session.py", "Session._save_impl"),
    ("lib/sqlalchemy/orm/session.py", "Session._after_attach"),
    ("lib/sqlalchemy/orm/session.py", "Session._delete_impl"),
    ("lib/sqlalchemy/orm/session.py", "Session._conditional_expire"),
    ("lib/sqlalchemy/orm/session.py", "Session.expire_all"),
    ("lib/sqlalchemy/orm/session.py", "Session._register_persistent"),
    ("lib/sqlalchemy/orm/session.py", "Session._remove_newly_deleted"),
    ("lib/sqlalchemy/orm/session.py", "Session._is_clean"),
    ("lib/sqlalchemy/orm/session.py", "Session._flush"),
    ("lib/sqlalchemy/orm/session.py", "Session._dirty_states"),
    ("lib/sqlalchemy/orm/session.py", "SessionTransaction._remove_snapshot"),
    ("lib/sqlalchemy/orm/loading.py", "get_from_identity"),
]

LOAD, NEW, SET, DROP, GC, FLUSH, COMMIT, EXPIRE, EXPALL, DELETE, LINK, SETW, MUT, EXPATTR = range(14)


# ------------------------------------------------------------------------------ translate (pin + T2)
def _bool_expr(node, names):
    """Python boolean expression over `<obj>.<attr>` -> Gallina bool term; fails closed"""
    import ast

    if isinstance(node, ast.BoolOp):
        opn = "&&" if isinstance(node.op, ast.And) else "||"
        return "(" + (" %s " % opn).join(_bool_expr(v, names) for v in node.values) + ")"
    if isinstance(node, ast.UnaryOp) and isinstance(node.op, ast.Not):
        return "(negb %s)" % _bool_expr(node.operand, names)
    if isinstance(node, ast.Compare) and len(node.ops) == 1 and isinstance(node.comparators[0], ast.Constant) \
            and node.comparators[0].value is None and isinstance(node.ops[0], (ast.Is, ast.IsNot)):
        inner = _bool_expr(node.left, names)
        return "(negb %s)" % inner if isinstance(node.ops[0], ast.Is) else inner
    if isinstance(node, ast.Attribute) and isinstance(node.value, ast.Name) and node.attr in names:
        return names[node.attr]
    raise ValueError("untranslatable condition: %s" % ast.dump(node)[:200])


def _find_if(fn, pred):
    import ast

    for n in ast.walk(fn):
        if isinstance(n, ast.If) and pred(n):
            return n
    raise ValueError("statement skeleton not found in %s" % fn.name)


def pin_check(repo):
    from translate import fingerprint

    fingerprint.check(repo, ANCHORS, "C48")


def translate(repo, outdir):
    import ast
    import os
    from translate import fingerprint

    names = {"session_id": "a_sess", "_strong_obj": "a_strong", "modified": "a_modified"}

    def assigns(n, attr):
        return any(
            isinstance(x, ast.Assign) and any(isinstance(t, ast.Attribute) and t.attr == attr for t in x.targets)
            for b in n.body for x in ast.walk(b)
        )

    with open(os.path.join(repo, "lib/sqlalchemy/orm/state.py")) as f:
        me = fingerprint.find_node(ast.parse(f.read()), "InstanceState._modified_event")
    outer = _find_if(me, lambda n: assigns(n, "modified") and assigns(n, "_strong_obj"))
    inner = _find_if(outer, lambda n: n is not outer and assigns(n, "_strong_obj"))
    with open(os.path.join(repo, "lib/sqlalchemy/orm/session.py")) as f:
        aa = fingerprint.find_node(ast.parse(f.read()), "Session._after_attach")
    att = _find_if(aa, lambda n: assigns(n, "_strong_obj"))
    src = (
        "(* generated on every run from orm/state.py and orm/session.py - do not edit *)\n"
        "From Coq Require Import Bool.\nFrom SAV.orm Require Import WeakRef.\n"
        "Definition gen_modev_cond (a_sess a_strong a_modified : bool) : bool := %s.\n"
        "Definition gen_modev_strong (a_sess a_strong a_modified : bool) : bool := %s.\n"
        "Definition gen_attach_cond (a_sess a_strong a_modified : bool) : bool := %s.\n"
        "Lemma gen_modev_cond_ok : forall ob, gen_modev_cond (sess ob) (strong ob) (modified ob) = modev_cond ob.\n"
        "Proof. intros [? ? ? [] ? ? ? ? [] [] ? ? ? ? ? ?]; reflexivity. Qed.\n"
        "Lemma gen_modev_strong_ok : forall ob, gen_modev_strong (sess ob) (strong ob) (modified ob) = sess ob.\n"
        "Proof. intros [? ? ? [] ? ? ? ? [] [] ? ? ? ? ? ?]; reflexivity. Qed.\n"
        "Lemma gen_attach_cond_ok : forall ob, gen_attach_cond (sess ob) (strong ob) (modified ob) = attach_cond ob.\n"
        "Proof. intros [? ? ? [] ? ? ? ? [] [] ? ? ? ? ? ?]; reflexivity. Qed.\n"
        % (_bool_expr(outer.test, names), _bool_expr(inner.test, names), _bool_expr(att.test, names))
    )
    p = os.path.join(outdir, "Gen_C48.v")
    with open(p, "w") as fh:
        fh.write(src)
    return [p]


# ------------------------------------------------------------------------------ generation
ONE = [[LOAD, 0, 1], [NEW, 0], [SET, 0], [DROP, 0], [GC], [FLUSH], [COMMIT], [EXPIRE, 0], [EXPALL], [DELETE, 0], [LINK, 0, 0]]
ROWS1 = [[1, 10, 5]]
ROWS2 = [[1, 10, 5], [2, 20, 6]]


def _family():
    """modify, then lose every application reference in all arrangements, then flush"""
    for start in ([[LOAD, 0, 1]], [[NEW, 0]], [[LOAD, 0, 1], [COMMIT]], [[NEW, 0], [FLUSH]], [[LOAD, 0, 1], [DELETE, 0]]):
        for mod in ([[SET, 0]], [[SET, 0], [SET, 0]], [[LOAD, 1, 1], [SET, 1]]):
            for lose in (
                [[DROP, 0], [DROP, 1]], [[DROP, 0], [DROP, 1], [GC]], [[LINK, 0, 0], [DROP, 0], [DROP, 1], [GC]],
                [[NEW, 1], [LINK, 0, 1], [LINK, 1, 0], [DROP, 0], [DROP, 1], [GC]], [[GC], [DROP, 1], [DROP, 0]],
                [[LOAD, 1, 2], [LINK, 1, 0], [DROP, 0], [GC], [DROP, 1], [GC]], [[DROP, 1], [LOAD, 0, 2], [GC]],
            ):
                for fl in ([[FLUSH]], [[COMMIT]], [[LOAD, 1, 3]], [[GC], [FLUSH], [GC]], [[EXPALL], [FLUSH]], []):
                    ops = start + mod + lose + fl + [[LOAD, 0, 1], [LOAD, 1, 4], [COMMIT], [GC]]
                    yield {"in": [ROWS2, 2, [list(o) for o in ops]], "kind": "modify-drop-flush"}


def _family2():
    """two objects of the session modified at the same time; references dropped in every order"""
    for start in ([[LOAD, 0, 1], [LOAD, 1, 2]], [[NEW, 0], [LOAD, 1, 2]], [[LOAD, 0, 1], [NEW, 1]], [[NEW, 0], [NEW, 1]]):
        for body in itertools.permutations([[SET, 0], [SET, 1], [DROP, 0], [DROP, 1], [GC]]):
            for fin in ([FLUSH], [COMMIT]):
                ops = start + [list(o) for o in body] + [fin, [LOAD, 0, 1], [LOAD, 1, 2], [LOAD, 0, 3]]
                yield {"in": [ROWS2, 2, [list(o) for o in ops]], "kind": "two-objects"}


def _family3():
    """the ONLY pending changes are in-place ones (flag_modified) and / or changes to two attributes of which one is
    expired again (partial expire); then every reference is dropped, collection, flush"""
    mods = ([[MUT, 0]], [[MUT, 0], [MUT, 0]], [[SETW, 0], [MUT, 0]], [[SET, 0], [SETW, 0], [EXPATTR, 0, 1]],
            [[SET, 0], [SETW, 0], [EXPATTR, 0, 0]], [[SETW, 0], [EXPATTR, 0, 1]], [[MUT, 0], [SETW, 0], [EXPATTR, 0, 1]],
            [[SETW, 0], [EXPATTR, 0, 0]], [[SET, 0], [EXPATTR, 0, 0], [MUT, 0]], [[SET, 0], [SETW, 0], [EXPATTR, 0, 1], [EXPATTR, 0, 0]],
            [[EXPATTR, 0, 0], [SETW, 0]], [[LOAD, 1, 1], [MUT, 1], [SETW, 0], [EXPATTR, 1, 1]])
    for start in ([[LOAD, 0, 1]], [[NEW, 0]], [[LOAD, 0, 1], [COMMIT]], [[NEW, 0], [FLUSH]], [[LOAD, 0, 1], [COMMIT], [LOAD, 0, 1]],
                  [[LOAD, 0, 1], [LOAD, 1, 2], [SET, 1]]):
        for mod in mods:
            for lose in ([[DROP, 0], [DROP, 1]], [[DROP, 0], [DROP, 1], [GC]], [[LINK, 0, 0], [DROP, 0], [DROP, 1], [GC]], [[GC]]):
                for fl in ([[FLUSH]], [[COMMIT]], [[LOAD, 1, 3]]):
                    ops = start + mod + lose + fl + [[LOAD, 0, 1], [MUT, 0], [DROP, 0], [COMMIT]]
                    yield {"in": [ROWS2, 2, [list(o) for o in ops]], "kind": "inplace-partial-expire"}


def _rand(rng, n_ops):
    nrows = rng.randint(0, 4)
    rows = [[i + 1, 10 * (i + 1), i + 5] for i in range(nrows)]
    ns = rng.randint(1, 3)
    ops = []
    for _ in range(rng.randint(2, n_ops)):
        k = rng.choice([LOAD, LOAD, LOAD, NEW, SET, SET, SETW, SETW, MUT, MUT, EXPATTR, EXPATTR, DROP, DROP, DROP, GC, FLUSH, COMMIT,
                        EXPIRE, EXPALL, DELETE, LINK, LINK])
        if k == LOAD:
            ops.append([k, rng.randrange(ns), rng.randint(1, nrows + 2)])
        elif k == EXPATTR:
            ops.append([k, rng.randrange(ns), rng.randint(0, 1)])
        elif k in (NEW, SET, DROP, EXPIRE, DELETE, SETW, MUT):
            ops.append([k, rng.randrange(ns)])
        elif k == LINK:
            ops.append([k, rng.randrange(ns), rng.randrange(ns)])
        else:
            ops.append([k])
    return {"in": [rows, ns, ops], "kind": "random"}


def gen_cases(rng, tier):
    cases = []
    maxlen = 4 if tier == "thorough" else 3
    for n in range(1, maxlen + 1):
        for seq in itertools.product(ONE, repeat=n):
            cases.append({"in": [ROWS1, 1, [list(o) for o in seq]], "kind": "exhaustive-%d" % n})
    fam = list(_family())
    cases += fam if tier == "thorough" else rng.sample(fam, 220)
    fam2 = list(_family2())
    cases += fam2 if tier == "thorough" else rng.sample(fam2, 200)
    fam3 = list(_family3())
    cases += fam3 if tier == "thorough" else rng.sample(fam3, 350)
    for _ in range(12000 if tier == "thorough" else 700):
        cases.append(_rand(rng, 14))
    return cases


def nontrivial(c):
    ops = c["in"][2]
    st = 0
    for o in ops:
        if st == 0 and o[0] in (SET, NEW, SETW, MUT):
            st = 1
        elif st == 1 and o[0] == DROP:
            st = 2
        elif st == 2 and o[0] in (FLUSH, COMMIT, LOAD):
            return True
    return False


# ------------------------------------------------------------------------------ implementation side
_ENV = {}


def _env():
    if _ENV:
        return _ENV
    from sqlalchemy import Column, Integer, create_engine, inspect
    from sqlalchemy.orm import Session, declarative_base
    from sqlalchemy.orm.attributes import flag_modified
    from sqlalchemy.pool import StaticPool

    Base = declarative_base()

    class T(Base):
        __tablename__ = "t"
        id = Column(Integer, primary_key=True, autoincrement=False)
        val = Column(Integer)
        w = Column(Integer)

    e = create_engine("sqlite://", connect_args={"autocommit": False}, poolclass=StaticPool)
    Base.metadata.create_all(e)
    _ENV.update(T=T, e=e, Session=Session, inspect=inspect, flag_modified=flag_modified)
    with Session(e) as s0:  # warm every cache before the heap is frozen
        s0.add(T(id=1, val=1))
        s0.flush()
        o0 = s0.get(T, 1)
        o0.val = 2
        o0.w = 2
        s0.expire(o0, ["w"])
        flag_modified(o0, "val")
        s0.commit()
        del o0
        s0.delete(s0.get(T, 1))
        s0.commit()
    import gc

    gc.collect()
    gc.freeze()  # gc.collect() inside a case only has to look at the objects of that case
    return _ENV


def impl(case):
    """No reference to a mapped object is kept outside `slots` between two operations (weakrefs only)."""
    import gc
    import warnings
    import weakref

    E = _env()
    T, e, inspect = E["T"], E["e"], E["inspect"]
    rows0, nslots, ops = case["in"]
    with e.begin() as c:
        c.exec_driver_sql("delete from t")
        for pk, v, w in rows0:
            c.exec_driver_sql("insert into t values (?,?,?)", (pk, v, w))
    out = []
    refs = []  # weak references, creation order

    def oid_of(o):
        for i, w in enumerate(refs):
            if w() is o:
                return i
        refs.append(weakref.ref(o))
        return len(refs) - 1

    # everything that exists now (the driver's accumulated results included) is frozen, so that every gc.collect()
    # of this case only looks at the objects of this case (otherwise the run is quadratic in the number of cases)
    gc.freeze()
    gc.disable()
    try:
        with warnings.catch_warnings():
            warnings.simplefilter("ignore")
            s = E["Session"](e)
            slots = [None] * nslots
            next_pk = max([r[0] for r in rows0] + [0]) + 1
            next_val = 100
            prev_db = sorted([r[0], r[1], r[2]] for r in rows0)
            for op in ops:
                rc = 0
                k = op[0]
                try:
                    if k == LOAD:
                        slots[op[1]] = s.get(T, op[2])
                        if slots[op[1]] is None:
                            rc = 1
                        else:
                            oid_of(slots[op[1]])
                    elif k == NEW:
                        slots[op[1]] = T(id=next_pk, val=next_val)
                        next_pk += 1
                        next_val += 1
                        oid_of(slots[op[1]])
                        s.add(slots[op[1]])
                    elif k == SET:
                        if slots[op[1]] is None:
                            rc = 1
                        else:
                            slots[op[1]].val = next_val
                            next_val += 1
                    elif k == DROP:
                        slots[op[1]] = None
                    elif k == GC:
                        gc.collect()
                    elif k == FLUSH:
                        s.flush()
                    elif k == COMMIT:
                        s.commit()
                    elif k == EXPIRE:
                        if slots[op[1]] is None:
                            rc = 1
                        elif not inspect(slots[op[1]]).persistent:
                            rc = 2
                        else:
                            s.expire(slots[op[1]])
                    elif k == EXPALL:
                        s.expire_all()
                    elif k == DELETE:
                        if slots[op[1]] is None:
                            rc = 1
                        elif not inspect(slots[op[1]]).persistent:
                            rc = 2
                        else:
                            s.delete(slots[op[1]])
                    elif k == LINK:
                        if slots[op[1]] is None:
                            rc = 1
                        else:
                            slots[op[1]].buddy = slots[op[2]]
                    elif k == SETW:
                        if slots[op[1]] is None:
                            rc = 1
                        else:
                            slots[op[1]].w = next_val
                            next_val += 1
                    elif k == MUT:
                        if slots[op[1]] is None:
                            rc = 1
                        elif "val" not in inspect(slots[op[1]]).dict:
                            rc = 2
                        else:
                            inspect(slots[op[1]]).dict["val"] = next_val
                            E["flag_modified"](slots[op[1]], "val")
                            next_val += 1
                    elif k == EXPATTR:
                        if slots[op[1]] is None:
                            rc = 1
                        elif not inspect(slots[op[1]]).persistent:
                            rc = 2
                        else:
                            s.expire(slots[op[1]], ["w" if op[2] else "val"])
                    else:
                        raise ValueError("bad op %r" % (op,))
                except Exception as exc:  # no operation of the alphabet may raise: report and stop
                    out.append([-1, [ord(ch) for ch in type(exc).__name__]])
                    break
                alive = [1 if w() is not None else 0 for w in refs]
                sl = [-1 if slots[i] is None else oid_of(slots[i]) for i in range(nslots)]
                mp = sorted(key[1][0] for key in s.identity_map.keys())
                db = [
                    [r[0], -1 if r[1] is None else r[1], -1 if r[2] is None else r[2]]
                    for r in s.connection().exec_driver_sql("select id, val, w from t order by id").fetchall()
                ]
                out.append([rc, sum(b << i for i, b in enumerate(alive)), sl, mp, len(s.new), len(s.dirty), len(s.deleted), 0 if db == prev_db else db, 0])
                prev_db = db
            del slots
            s.close()
    finally:
        gc.enable()
        gc.collect()  # the garbage of this case goes before the next case freezes the heap
    return out


# ------------------------------------------------------------------------------ oracle
def oracle(case, obs):
    """Every modification made to an object of the session - and not discarded by expire / delete - is in the
    database after the next flush, whatever happened to the application's references in between; the identity
    map only lists objects that are alive.  Replays the harness counters; independent of the model."""
    rows0, ns, ops = case["in"]
    next_pk = max([r[0] for r in rows0] + [0]) + 1
    next_val = 100
    pk_of = {}
    expect = {}  # (primary key, column 0 = val / 1 = w) -> value the row must show after a flush
    gone = set()  # primary keys marked for deletion: later changes to them need not be written
    prev_sl = [-1] * ns
    prev_db = dict((r[0], r[1:3]) for r in rows0)
    for n, (op, o) in enumerate(zip(ops, obs)):
        if o[0] == -1:
            return "operation %d %s raised %s: the pending changes were not flushed" % (n, op, "".join(map(chr, o[1])))
        rc, amask, sl, mp, nnew, ndirty, ndel, db, failed = o
        alive = [amask >> i & 1 for i in range(amask.bit_length())]
        dbd = prev_db if db == 0 else dict((r[0], r[1:3]) for r in db)
        k = op[0]
        if k == NEW:
            pk_of[sl[op[1]]] = next_pk
            expect[(next_pk, 0)] = next_val
            next_pk += 1
            next_val += 1
        elif k == LOAD and rc == 0:
            pk_of.setdefault(sl[op[1]], op[2])
        elif k in (SET, SETW, MUT) and rc == 0:
            p = pk_of[prev_sl[op[1]]]
            if p not in gone:
                expect[(p, 1 if k == SETW else 0)] = next_val
            next_val += 1
        elif k == EXPIRE and rc == 0:
            expect.pop((pk_of[prev_sl[op[1]]], 0), None)
            expect.pop((pk_of[prev_sl[op[1]]], 1), None)
        elif k == EXPATTR and rc == 0:
            expect.pop((pk_of[prev_sl[op[1]]], op[2]), None)  # only the named attribute's change is discarded
        elif k == EXPALL:
            for p in list(expect):
                if p[0] in prev_db:  # persistent: expire_all discards its pending changes
                    del expect[p]
        elif k == DELETE and rc == 0:
            gone.add(pk_of[prev_sl[op[1]]])
            expect.pop((pk_of[prev_sl[op[1]]], 0), None)
            expect.pop((pk_of[prev_sl[op[1]]], 1), None)
        if k in (FLUSH, COMMIT):
            for (p, col), v in sorted(expect.items()):
                if (dbd.get(p) or [None, None])[col] != v:
                    held = any(x >= 0 and pk_of.get(x) == p for x in prev_sl)
                    return (
                        "operation %d (%s): the change %s=%s made to the object with id=%s (%s) "
                        "is not in the database after the flush: row is %s"
                        % (n, "flush" if k == FLUSH else "commit", "w" if col else "val", v, p,
                           "still referenced" if held else "no application reference left", dbd.get(p))
                    )
        if k == COMMIT:
            # commit expires everything: what was flushed stays, nothing is pending any more
            expect.clear()
        live_pks = [pk_of.get(i) for i, a in enumerate(alive) if a]
        for p in mp:
            if p not in live_pks:
                return "operation %d: identity map lists id=%s but no live object has that identity" % (n, p)
        if len(set(mp)) != len(mp):
            return "operation %d: identity map lists an identity twice: %s" % (n, mp)
        for x in sl:
            if x >= 0 and not amask >> x & 1:
                return "operation %d: a referenced object is reported dead" % n
        prev_sl, prev_db = sl, dbd
    return None


LEVEL_TEXT = (
    "Machine-checked proof (Coq) over a Gallina heap model of the Session's object-lifetime bookkeeping "
    "(weak InstanceState.obj, _strong_obj, identity_map._dict/_modified, Session._new/_deleted): an invariant "
    "over ALL histories of get/new/set/drop/link/expire/expire_all/delete/flush/commit interleaved with "
    "arbitrary runs of ANY collector that frees only unreachable objects.  Consequences: an object with an "
    "unflushed change is never freed and flush writes the change whatever happened to the application's "
    "references; flush never fails; the identity map stays consistent; an unmodified persistent object "
    "without references can be freed and leaves the map.  Tie: source pin of 27 functions, per-run "
    "re-translation of the _modified_event/_after_attach conditions, behavioural correspondence that "
    "observes the liveness of every object through weak references."
)
LEVEL_NOTE = (
    "partial: one mapped class without relationships/cascades (object-to-object references are unmapped "
    "attributes), no rollback, expunge, merge, close, pickling, no second session or external writer; the "
    "statement 'the database is the same as without any collection' is proved for the pending changes "
    "(never lost) but not as a full bisimulation.  Trusted: Coq kernel; the hand transcription (pinned + "
    "compared on every run); CPython frees only unreachable objects."
)
TECHNIQUE = (
    "Coq invariant proof over operation histories with an adversarial collector; source pin + T2 condition "
    "translation; small-scope exhaustive and random model/implementation correspondence with weakref liveness"
)
