"""C21 - generated and truncated names are bounded, deterministic and unique."""
import ast
import copy
import difflib
import hashlib
import json
import os

ID = "C21"
LEVEL = "proof"
PROPS = "props/C21.v"
RUNNER = ("SAV.sql.TruncRun", "run_case")
STATIC_MODULES = ["SAV.sql.TruncRun"]
RULE = (
    "op0 (DDL): 10 dialect configurations (default/sqlite/postgresql/mysql/oracle/mssql as translated + "
    "max_identifier_length overrides 8/12/30 and 5) x 5 constraint kinds x 6 ways a name arises (convention, "
    "convention with %(constraint_name)s, conv(), plain, _NONE_NAME, none) x final lengths on both "
    "sides of every limit and random ones in 0..300 (thorough: every length 0..300); the real CREATE "
    "TABLE / CREATE INDEX text is parsed. op1: sequences of SQLCompiler._truncated_identifier calls "
    "(literal/anonymous/composite names over a 2-letter alphabet, 3 classes, label_length -2..30/None, "
    "preset counters up to 16^5). op2: SELECTs with up to 300 (thorough 600) long labels and binds "
    "compiled on 5 dialects with label_length 6/10/30/None and small values. op3: the same conv() names "
    "rendered 2-5 times as index / constraint names on ONE dialect object whose three limits are changed "
    "between the renderings (each rendering also compared with a fresh dialect). op4: create_engine on a "
    "sqlite dialect subclass that detects its identifier limit on first connect x label_length on both "
    "sides of the class default and of the detected limit x user max_identifier_length, then a SELECT with "
    "long labels compiled through the engine. non-trivial = the name "
    "reaches the limit (op0), or some name is truncated / anonymous (op1, op2)"
)
TRUSTED = [
    "hand-written Gallina transcription (coq/sql/Trunc.v) of the anchored functions, pinned to the "
    "normalised source and compared behaviourally; literals and comparison operators of the two "
    "truncation functions, validate_identifier and prefix_anon_map are re-extracted from the AST on "
    "every run and must be convertible with the model's constants (T2)",
    "the per-dialect max_identifier_length / max_index_name_length / max_constraint_name_length are "
    "re-extracted from the dialect class bodies on every run (T1) and compared with the runtime values",
    "a statement is abstracted to its sequence of name requests (TruncRun.stmt_reqs); quoting of the "
    "rendered identifier is not part of the model (C06)",
]
ASSUMPTIONS = [
    "md5 is an arbitrary function str -> str (the implementation's digest is passed in with each case)",
    "format strings of _truncated_label names are canonical segment lists: literal text contains no '%', "
    "anonymous bodies are sanitised by _anonymous_label.safe_construct, so str equality = structural equality",
    "distinct bind parameter objects are not clones of each other; INSERT/UPDATE (_is_crud) bind handling, "
    "select-level label de-duplication and CTE/VALUES names are outside the model",
    "naming-convention templates consist of the modelled tokens, contain a non-empty literal and do not "
    "spell 'constraint_name' in literal text",
]
ANCHORS = [
    ("lib/sqlalchemy/sql/compiler.py", "IdentifierPreparer.truncate_and_render_index_name"),
    ("lib/sqlalchemy/sql/compiler.py", "IdentifierPreparer.truncate_and_render_constraint_name"),
    ("lib/sqlalchemy/sql/compiler.py", "IdentifierPreparer.format_constraint"),
    ("lib/sqlalchemy/sql/compiler.py", "IdentifierPreparer.format_index"),
    ("lib/sqlalchemy/sql/compiler.py", "SQLCompiler._truncate_bindparam"),
    ("lib/sqlalchemy/sql/compiler.py", "SQLCompiler.visit_bindparam"),
    ("lib/sqlalchemy/sql/compiler.py", "SQLCompiler.visit_label"),
    ("lib/sqlalchemy/sql/compiler.py", "DDLCompiler._prepared_index_name"),
    ("lib/sqlalchemy/engine/default.py", "DefaultDialect.initialize"),
    ("lib/sqlalchemy/engine/default.py", "DefaultDialect._check_max_identifier_length"),
    ("lib/sqlalchemy/sql/naming.py", "ConventionDict"),
    ("lib/sqlalchemy/sql/naming.py", "_get_convention"),
    ("lib/sqlalchemy/sql/naming.py", "_constraint_name_for_table"),
    ("lib/sqlalchemy/sql/naming.py", "_constraint_name"),
    ("lib/sqlalchemy/sql/elements.py", "_truncated_label"),
    ("lib/sqlalchemy/sql/elements.py", "_anonymous_label"),
    ("lib/sqlalchemy/sql/elements.py", "_anonymous_label_escape"),
    ("lib/sqlalchemy/util/langhelpers.py", "md5_hex"),
]

# (the four functions of T2_FUNCS below are tied by skeleton + expression translation instead of the pin)
VERIF = os.path.dirname(os.path.dirname(os.path.abspath(__file__)))

# ------------------------------------------------------------------------------------------------
# T1: dialect table from the class bodies
# ------------------------------------------------------------------------------------------------
DIALECTS = [  # id, name, file, class
    (0, "default", "lib/sqlalchemy/engine/default.py", "DefaultDialect"),
    (1, "sqlite", "lib/sqlalchemy/dialects/sqlite/base.py", "SQLiteDialect"),
    (2, "postgresql", "lib/sqlalchemy/dialects/postgresql/base.py", "PGDialect"),
    (3, "mysql", "lib/sqlalchemy/dialects/mysql/base.py", "MySQLDialect"),
    (4, "oracle", "lib/sqlalchemy/dialects/oracle/base.py", "OracleDialect"),
    (5, "mssql", "lib/sqlalchemy/dialects/mssql/base.py", "MSDialect"),
]
ATTRS = ("max_identifier_length", "max_index_name_length", "max_constraint_name_length")
FALLBACK_TABLE = {0: (9999, None, None), 1: (9999, None, None), 2: (63, None, None),
                  3: (255, 64, 64), 4: (128, None, None), 5: (128, None, None)}


class T(Exception):
    pass


_AST = {}


def _parse(path):
    if path not in _AST:
        with open(path) as f:
            _AST[path] = ast.parse(f.read())
    return _AST[path]


def _class_attrs(path, cls):
    tree = _parse(path)
    node = next((n for n in tree.body if isinstance(n, ast.ClassDef) and n.name == cls), None)
    if node is None:
        raise T("class %s not found in %s" % (cls, path))
    found = {}
    for st in node.body:
        tgt = val = None
        if isinstance(st, ast.Assign) and len(st.targets) == 1 and isinstance(st.targets[0], ast.Name):
            tgt, val = st.targets[0].id, st.value
        elif isinstance(st, ast.AnnAssign) and isinstance(st.target, ast.Name):
            tgt, val = st.target.id, st.value
        if tgt in ATTRS:
            if tgt in found:
                raise T("%s assigned twice in %s" % (tgt, cls))
            if not (isinstance(val, ast.Constant) and (val.value is None or type(val.value) is int)):
                raise T("%s.%s is not an int/None literal" % (cls, tgt))
            found[tgt] = val.value
    # any other place that sets one of the attributes inside the class (methods) is not understood,
    # except the documented user override in DefaultDialect.__init__
    for sub in ast.walk(node):
        if isinstance(sub, (ast.Assign, ast.AugAssign)):
            tgts = sub.targets if isinstance(sub, ast.Assign) else [sub.target]
            for tg in tgts:
                if isinstance(tg, ast.Attribute) and tg.attr in ATTRS:
                    if not (cls == "DefaultDialect" and tg.attr == "max_identifier_length"):
                        raise T("%s sets %s dynamically" % (cls, tg.attr))
    bases = [ast.unparse(b) for b in node.bases]
    return found, bases


def dialect_table(repo):
    base, _ = _class_attrs(os.path.join(repo, DIALECTS[0][2]), DIALECTS[0][3])
    for a in ATTRS:
        if a not in base:
            raise T("DefaultDialect does not define %s" % a)
    if base["max_identifier_length"] is None:
        raise T("DefaultDialect.max_identifier_length is None")
    out = {}
    for did, name, rel, cls in DIALECTS:
        found, bases = _class_attrs(os.path.join(repo, rel), cls)
        if did != 0 and not any(b.endswith("DefaultDialect") for b in bases):
            raise T("%s does not derive from DefaultDialect directly: %s" % (cls, bases))
        vals = tuple(found.get(a, base[a]) for a in ATTRS)
        if vals[0] is None:
            raise T("%s.max_identifier_length is None" % cls)
        out[did] = vals
    return out


# ------------------------------------------------------------------------------------------------
# T2: literals / operators of the truncation functions as Gallina terms
# ------------------------------------------------------------------------------------------------
def _find(repo, rel, qual):
    from translate import fingerprint

    return copy.deepcopy(fingerprint.find_node(_parse(os.path.join(repo, rel)), qual))


class _Holes(ast.NodeTransformer):
    def __init__(self, nodes):
        self.ids = {id(n): k for k, n in enumerate(nodes)}

    def visit(self, node):
        if id(node) in self.ids:
            k = self.ids[id(node)]
            if isinstance(node, ast.Constant) and isinstance(node.value, str):
                return ast.copy_location(ast.Constant(value="HOLE%d" % k), node)
            return ast.copy_location(ast.Name(id="HOLE%d" % k, ctx=ast.Load()), node)
        return super().visit(node)


def _skeleton(fn, holes):
    """normalised source of the function with the translated expressions replaced by HOLEk"""
    from translate import fingerprint

    t = _Holes(holes).visit(fn)
    t = fingerprint._Strip().visit(t)
    ast.fix_missing_locations(t)
    return ast.unparse(t)


CMP = {ast.Gt: ">?", ast.GtE: ">=?", ast.Lt: "<?", ast.LtE: "<=?", ast.Eq: "=?"}


def _gal(node, env):
    """tiny Python-expression -> Gallina (Z) translation; env maps ast.unparse(text) -> variable"""
    key = ast.unparse(node)
    if key in env:
        return env[key]
    if isinstance(node, ast.Constant) and type(node.value) is int:
        return "%d" % node.value if node.value >= 0 else "(%d)" % node.value
    if isinstance(node, ast.UnaryOp) and isinstance(node.op, ast.USub):
        return "(- %s)" % _gal(node.operand, env)
    if isinstance(node, ast.BinOp) and isinstance(node.op, (ast.Add, ast.Sub)):
        return "(%s %s %s)" % (_gal(node.left, env), "+" if isinstance(node.op, ast.Add) else "-", _gal(node.right, env))
    if isinstance(node, ast.Call) and isinstance(node.func, ast.Name) and node.func.id == "max" and len(node.args) == 2:
        return "(Z.max %s %s)" % (_gal(node.args[0], env), _gal(node.args[1], env))
    if isinstance(node, ast.Compare) and len(node.ops) == 1 and type(node.ops[0]) in CMP:
        return "(%s %s %s)" % (_gal(node.left, env), CMP[type(node.ops[0])], _gal(node.comparators[0], env))
    raise T("expression not understood: %s" % key)


def _only(it, what):
    l = list(it)
    if len(l) != 1:
        raise T("expected exactly one %s, found %d" % (what, len(l)))
    return l[0]


def _slice_of(node, what):
    if not (isinstance(node, ast.Subscript) and isinstance(node.slice, ast.Slice) and node.slice.step is None):
        raise T("%s is not a slice" % what)
    return node.value, node.slice.lower, node.slice.upper


def _concat3(node, what):
    if not (isinstance(node, ast.BinOp) and isinstance(node.op, ast.Add) and isinstance(node.left, ast.BinOp)
            and isinstance(node.left.op, ast.Add)):
        raise T("%s is not a + b + c" % what)
    return node.left.left, node.left.right, node.right


def _sep(node):
    if not (isinstance(node, ast.Constant) and isinstance(node.value, str) and len(node.value) == 1):
        raise T("separator is not a one-character literal")
    return ord(node.value)


T2_FUNCS = [
    ("lib/sqlalchemy/sql/compiler.py", "IdentifierPreparer._truncate_and_render_maxlen_name"),
    ("lib/sqlalchemy/engine/default.py", "DefaultDialect.validate_identifier"),
    ("lib/sqlalchemy/sql/compiler.py", "SQLCompiler._truncated_identifier"),
    ("lib/sqlalchemy/sql/_util_cy.py", "prefix_anon_map.__missing__"),
]


def t2_terms(repo):
    """Translates the arithmetic / comparison / literal sub-expressions of the four small functions into
    Gallina.  Returns ({generated definition: (term, model constant)}, {function: skeleton text}) where the
    skeleton is the normalised source with exactly those sub-expressions replaced by HOLEk; the skeleton is
    pinned, the holes flow into Coq."""
    out, skel = {}, {}
    comp = "lib/sqlalchemy/sql/compiler.py"
    # --- _truncate_and_render_maxlen_name
    fn = _find(repo, *T2_FUNCS[0])
    holes = []

    def H(n):
        holes.append(n)
        return n

    outer = _only([n for n in fn.body if isinstance(n, ast.If)][:1], "outer if")
    inner = _only([n for n in outer.body if isinstance(n, ast.If)], "inner if")
    env = {"len(name)": "len_", "max_": "max_"}
    out["gen_maxlen_too_long"] = ("(fun len_ max_ : Z => %s)" % _gal(H(inner.test), env), "maxlen_too_long")
    asg = _only(inner.body, "assignment")
    if not isinstance(asg, ast.Assign):
        raise T("maxlen: unexpected truncation statement")
    a, b, c = _concat3(asg.value, "maxlen truncation")
    v, lo, up = _slice_of(a, "name[0:max_-8]")
    if not (isinstance(lo, ast.Constant) and lo.value == 0) or up is None:
        raise T("maxlen: unexpected prefix slice")
    out["gen_maxlen_cut"] = ("(fun max_ : Z => %s)" % _gal(H(up), env), "maxlen_cut")
    out["gen_maxlen_sep"] = ("%d%%N" % _sep(H(b)), "underscore")
    v, lo, up = _slice_of(c, "md5_hex(name)[-4:]")
    if up is not None or lo is None:
        raise T("maxlen: unexpected digest slice")
    out["gen_md5_tail"] = ("(%s)%%Z" % _gal(H(lo), {}), "md5_tail")
    skel[T2_FUNCS[0][1]] = _skeleton(fn, holes)
    # --- index / constraint maxima (pinned as a whole; checked here for the shape  a or b)
    for meth, attr in (("truncate_and_render_index_name", "max_index_name_length"),
                       ("truncate_and_render_constraint_name", "max_constraint_name_length")):
        f2 = _find(repo, comp, "IdentifierPreparer." + meth)
        asg = _only([n for n in f2.body if isinstance(n, ast.Assign)], "assignment in " + meth)
        if ast.unparse(asg.value) != "self.dialect.%s or self.dialect.max_identifier_length" % attr:
            raise T("%s: unexpected max_ expression" % meth)
    # --- validate_identifier
    fn = _find(repo, *T2_FUNCS[1])
    holes = []
    iff = _only([n for n in fn.body if isinstance(n, ast.If)], "if in validate_identifier")
    out["gen_ident_too_long"] = (
        "(fun len_ maxid : Z => %s)" % _gal(H(iff.test), {"len(ident)": "len_", "self.max_identifier_length": "maxid"}),
        "ident_too_long")
    skel[T2_FUNCS[1][1]] = _skeleton(fn, holes)
    # --- _truncated_identifier
    fn = _find(repo, *T2_FUNCS[2])
    holes = []
    iff = _only([n for n in fn.body if isinstance(n, ast.If) and "anonname" in ast.unparse(n.test)], "length test")
    env = {"len(anonname)": "len_", "self.label_length": "ll"}
    out["gen_label_too_long"] = ("(fun len_ ll : Z => %s)" % _gal(H(iff.test), env), "label_too_long")
    asgs = {ast.unparse(n.targets[0]): n.value for n in iff.body if isinstance(n, ast.Assign)}
    if set(asgs) != {"counter", "truncname", "self._truncated_counters[ident_class]"}:
        raise T("_truncated_identifier: unexpected statements %s" % sorted(asgs))
    g = asgs["counter"]
    if not (isinstance(g, ast.Call) and len(g.args) == 2):
        raise T("_truncated_identifier: unexpected counter lookup")
    out["gen_counter_start"] = ("%s%%N" % _gal(H(g.args[1]), {}), "counter_start")
    out["gen_counter_next"] = (
        "(fun counter : N => %s%%N)" % _gal(H(asgs["self._truncated_counters[ident_class]"]), {"counter": "counter"}),
        "counter_next")
    a, b, c = _concat3(asgs["truncname"], "truncname")
    v, lo, up = _slice_of(a, "anonname[0:...]")
    if not (isinstance(lo, ast.Constant) and lo.value == 0) or up is None:
        raise T("_truncated_identifier: unexpected prefix slice")
    out["gen_label_cut"] = ("(fun ll : Z => %s)" % _gal(H(up), env), "label_cut")
    out["gen_label_sep"] = ("%d%%N" % _sep(H(b)), "underscore")
    v, lo, up = _slice_of(c, "hex(counter)[2:]")
    if up is not None or lo is None:
        raise T("_truncated_identifier: unexpected hex slice")
    out["gen_hex_skip"] = ("(%s)%%Z" % _gal(H(lo), {}), "hex_skip")
    skel[T2_FUNCS[2][1]] = _skeleton(fn, holes)
    # --- prefix_anon_map.__missing__
    fn = _find(repo, *T2_FUNCS[3])
    holes = []
    stm = {}
    for n in fn.body:
        if isinstance(n, ast.Assign):
            stm[ast.unparse(n.targets[0])] = n.value
        elif isinstance(n, ast.AnnAssign) and n.value is not None:
            stm[ast.unparse(n.target)] = n.value
    for k in ("anonymous_counter", "self_dict[derived]", "value"):
        if k not in stm:
            raise T("prefix_anon_map.__missing__: no assignment to %s" % k)
    g = stm["anonymous_counter"]
    if not (isinstance(g, ast.Call) and len(g.args) == 2):
        raise T("prefix_anon_map: unexpected counter lookup")
    out["gen_anon_counter_start"] = ("%s%%N" % _gal(H(g.args[1]), {}), "anon_counter_start")
    out["gen_anon_counter_next"] = (
        "(fun c : N => %s%%N)" % _gal(H(stm["self_dict[derived]"]), {"anonymous_counter": "c"}), "anon_counter_next")
    v = stm["value"]
    if not (isinstance(v, ast.JoinedStr) and len(v.values) == 3):
        raise T("prefix_anon_map: unexpected value expression")
    out["gen_anon_sep"] = ("%d%%N" % _sep(H(v.values[1])), "underscore")
    skel[T2_FUNCS[3][1]] = _skeleton(fn, holes)
    return out, skel


def check_skeletons(skel):
    from translate import fingerprint

    cur = "\n".join("### %s\n%s\n" % (k, skel[k]) for _, k in T2_FUNCS)
    pfile = os.path.join(VERIF, "translate", "pinned", "C21_skeleton.txt")
    if os.environ.get("VERIF_PIN") == "1":
        with open(pfile, "w") as f:
            f.write(cur)
        return
    with open(pfile) as f:
        old = f.read()
    if old != cur:
        d = "\n".join(difflib.unified_diff(old.split("\n"), cur.split("\n"), "modelled", "current", lineterm="", n=2))
        raise fingerprint.TranslateError("statement skeleton of a translated function changed:\n" + d[:2500])


def _optz(v):
    return "None" if v is None else "(Some %d)" % v


def translate(repo, outdir):
    from translate import fingerprint

    fingerprint.check(repo, ANCHORS, "C21")
    try:
        tbl = dialect_table(repo)
        terms, skel = t2_terms(repo)
    except T as e:
        raise fingerprint.TranslateError("C21 translator: %s" % e)
    check_skeletons(skel)
    rows = "; ".join(
        "(%d%%N, {| d_maxid := %d; d_idx := %s; d_con := %s |})" % (d, tbl[d][0], _optz(tbl[d][1]), _optz(tbl[d][2]))
        for d in sorted(tbl))
    head = [
        "(* generated by specs/c21.py from %s - do not edit *)" % repo,
        "From Coq Require Import List NArith ZArith Bool.",
        "Import ListNotations.",
        "From SAV.sql Require Import Trunc TruncMaxlen.",
        "Local Open Scope Z_scope.",
    ]
    v1 = head + [
        "(* T1: max_identifier_length / max_index_name_length / max_constraint_name_length per dialect *)",
        "Definition gen_dialects : list (N * dialect) := [%s]." % rows,
        "Lemma gen_dialects_ok : table_ok gen_dialects = true.",
        "Proof. vm_compute; reflexivity. Qed.",
        "Theorem gen_dialects_within_max_identifier_length : forall md5_hex id d, In (id, d) gen_dialects ->",
        "  forall is_index convention given env s,",
        "  ddl_name md5_hex d is_index convention given env = Ok (Some s) -> slen s <= d_maxid d.",
        "Proof. intros md5_hex. exact (table_within_maxid md5_hex gen_dialects gen_dialects_ok). Qed.",
        "Theorem gen_dialects_within_specific_limit : forall md5_hex id d, In (id, d) gen_dialects ->",
        "  forall is_index convention given env s, specific_guard d is_index convention given = true ->",
        "  ddl_name md5_hex d is_index convention given env = Ok (Some s) -> slen s <= max_for d is_index.",
        "Proof. intros md5_hex. exact (table_within_specific md5_hex gen_dialects gen_dialects_ok). Qed.",
    ]
    v2 = head + ["(* T2: literals and operators of the source, convertible with the model's *)"]
    for name in sorted(terms):
        term, model = terms[name]
        v2.append("Definition %s := %s." % (name, term))
        v2.append("Lemma %s_ok : %s = %s. Proof. reflexivity. Qed." % (name, name, model))
    paths = []
    for fname, lines in (("C21_gen_dialects.v", v1), ("C21_gen_consts.v", v2)):
        path = os.path.join(outdir, fname)
        with open(path, "w") as f:
            f.write("\n".join(lines) + "\n")
        paths.append(path)
    return paths


# ------------------------------------------------------------------------------------------------
# case generation
# ------------------------------------------------------------------------------------------------
def rle(s):
    out = []
    for ch in s:
        if out and out[-1][0] == ord(ch):
            out[-1][1] += 1
        else:
            out.append([ord(ch), 1])
    return out


def unrle(t):
    return "".join(chr(c) * n for c, n in t)


LETTERS = "abcdefghijklmnopqrsuvwxyz"  # no 't': table names start with t, nothing else does


def mkname(rng, n, first=None):
    """a lower-case identifier of exactly n characters, mostly long runs (cheap to ship)"""
    if n <= 0:
        return ""
    first = first or rng.choice(LETTERS)
    if n == 1:
        return first
    style = rng.random()
    if style < 0.15 and n <= 40:
        body = "".join(rng.choice(LETTERS + "_0123456789") for _ in range(n - 2)) + rng.choice(LETTERS)
        return (first + body)[:n]
    if style < 0.22:
        body = first + "é" * (n - 1)  # non-ASCII: lengths are code points, md5 of utf-8
        return body
    k = rng.randint(1, 3)
    cuts = sorted(rng.sample(range(1, n), min(k - 1, n - 1))) if n > 1 else []
    parts, prev = [], 0
    for c in cuts + [n]:
        parts.append(c - prev)
        prev = c
    s = ""
    for i, ln in enumerate(parts):
        ch = first if i == 0 else rng.choice(LETTERS)
        s += ch * ln
    return s


def known_ids():
    try:
        with open(os.path.join(VERIF, "known_findings.json")) as f:
            return {e["id"] for e in json.load(f).get("findings", []) if e.get("status") == "known"}
    except Exception:
        return set()


F_PLAIN = "C21-plain-name-exceeds-index-constraint-limit"
F_SMALL = "C21-maxlen-below-8"
F_ANON = "C21-anon-label-collides-with-literal-label"

KINDS = ["ix", "uq", "ck", "fk", "pk"]


def py_or(o, d):
    return o if o else d


def mirror_ddl(case_in):
    """what the DDL path does, re-stated in Python only to (a) compute the md5 digest the Coq model
    receives and (b) classify cases; returns (kind, name, truncatable) with kind in
    named/unnamed/invalid/noindexname"""
    _, d, ix, cv, g, env, _md5 = case_in
    tb, cols, rf = unrle(env[0]), [unrle(c) for c in env[1]], unrle(env[2])
    gk = g[0]
    gs = unrle(g[1]) if len(g) > 1 else None
    toks = cv[0] if cv else None

    def expand():
        s = ""
        for t in toks:
            if t[0] == 0:
                s += unrle(t[1])
            elif t[0] == 1:
                s += tb
            elif t[0] == 2:
                s += cols[t[1]] if t[1] < len(cols) else ""
            elif t[0] == 3:
                s += ("_" if t[1] else "").join(cols)
            elif t[0] == 4:
                if gk in (0, 1):
                    return None
                s += gs
            elif t[0] == 5:
                s += rf
        return s

    mentions = bool(toks) and any(t[0] == 4 for t in toks)

    def for_table(gk):
        if gk == 3:
            return ("named", gs, True)
        if toks is not None and (gk in (0, 1) or mentions):
            e = expand()
            return ("invalid", None, None) if e is None else ("named", e, True)
        return ("none", None, None)

    if gk == 3:
        res = ("named", gs, True)
    elif gk == 1:
        res = for_table(1)
        if res[0] == "none":
            res = ("unnamed", None, None)
    else:
        r = for_table(gk)
        if r[0] == "none":
            res = ("named", gs, False) if gk == 2 else ("unnamed", None, None)
        else:
            res = r
    if res[0] == "unnamed" and ix:
        return ("noindexname", None, None)
    return res


def ddl_case(rng, did, drow, kind, how, target, kind_label):
    """drow = [maxid, idx, con]; how in conv_tpl/conv_cname/conv/plain/nonename/none"""
    ix = 1 if kind == 0 else 0
    prefix = KINDS[kind] + "_"
    ncols = rng.randint(1, 3) if kind in (0, 1, 4) else (1 if kind == 2 else rng.randint(1, 2))
    tmpl_variants = [
        [[0, rle(prefix)], [1], [0, rle("_")], [2, 0]],
        [[0, rle(prefix)], [1], [0, rle("_")], [3, 1]],
        [[0, rle(prefix)], [3, 0], [0, rle("_")], [1]],
        [[0, rle(prefix)], [1], [0, rle("_")], [2, 0], [0, rle("_")], [2, 1]],
        [[0, rle(prefix)], [1]],
    ]
    if kind == 3:
        tmpl_variants.append([[0, rle(prefix)], [1], [0, rle("_")], [2, 0], [0, rle("_")], [5]])
    cv, g = [], [0]
    budget = max(target, 1)
    if how in ("conv_tpl", "nonename", "conv_cname"):
        toks = rng.choice(tmpl_variants)
        if how == "conv_cname":
            toks = [[0, rle(prefix)], [1], [0, rle("_")], [4]]
        # distribute the target length over the variable tokens
        lit = sum(len(unrle(t[1])) for t in toks if t[0] == 0)
        var = max(target - lit, 2)
        tl = rng.randint(1, max(1, var - 1))
        rest = max(var - tl, 1)
        tb = mkname(rng, tl, "t")
        cols = []
        per = max(rest // ncols, 1)
        for i in range(ncols):
            cols.append(mkname(rng, per if i else max(rest - per * (ncols - 1), 1)))
        while len(set(cols)) < len(cols):
            cols = [c + str(i) for i, c in enumerate(cols)]
        rf = mkname(rng, rng.randint(1, 6), "r")
        cv = [toks]
        if how == "conv_cname":
            nm = mkname(rng, max(target - lit - len(tb), 0))
            g = [2, rle(nm)] if rng.random() < 0.85 else rng.choice([[0], [1]])
        elif how == "nonename":
            g = [1]
        else:
            g = [0]
    else:
        tb = mkname(rng, rng.randint(1, 8), "t")
        cols = [mkname(rng, rng.randint(1, 8)) + str(i) for i in range(ncols)]
        rf = mkname(rng, rng.randint(1, 6), "r")
        if how == "conv":
            g = [3, rle(mkname(rng, budget))]
        elif how == "plain":
            g = [2, rle(mkname(rng, budget))]
            if rng.random() < 0.3:  # a convention that does not apply to named constraints
                cv = [[[0, rle(prefix)], [1], [0, rle("_")], [2, 0]]]
        elif how == "nonename":
            g = [1]
        else:
            g = [0]
    if ix and g == [1]:
        g = [0]  # Index(name=_NONE_NAME) is not constructible through the public API
    env = [rle(tb), [rle(c) for c in cols], rle(rf)]
    cin = [0, [drow[0], drow[1], drow[2]], ix, cv, g, env, []]
    kindres, name, _tr = mirror_ddl(cin)
    digest = hashlib.md5((name or "").encode("utf-8")).hexdigest()
    cin[6] = [ord(ch) for ch in digest]
    return {"in": cin, "kind": kind_label, "dialect": did, "ctype": KINDS[kind]}


def _table():
    from vlib.common import repo

    try:
        return dialect_table(repo())
    except Exception:
        return dict(FALLBACK_TABLE)


def gen_ddl(rng, tier, tbl, known):
    cases = []
    configs = [(d, list(tbl[d]), None) for d in sorted(tbl)]
    overrides = [8, 12, 30] + ([5] if F_SMALL in known else [])
    for ov in overrides:
        configs.append((0, [ov, tbl[0][1], tbl[0][2]], ov))
    hows = ["conv_tpl", "conv_cname", "conv", "plain", "nonename", "none"]
    for did, drow, ov in configs:
        limits = sorted({py_or(drow[1], drow[0]), py_or(drow[2], drow[0]), drow[0]})
        for kind in range(5):
            for how in hows:
                if kind == 4 and how == "conv_cname":
                    continue  # the implicit primary key of every Table would already raise
                if tier == "thorough":
                    # every length 0..300, each with one of the five kinds
                    targets = [t for t in range(0, 301) if (t + kind) % 5 == 0 or how == "conv_cname"]
                else:
                    targets = set()
                    for lim in limits:
                        if lim <= 400:
                            targets |= {lim, lim + 1} | ({lim + 2, lim - 1, lim - 3} if rng.random() < 0.3 else set())
                    targets |= {rng.randint(0, 300), rng.randint(1, 20)}
                    if rng.random() < 0.25:
                        targets.add(300)
                    targets = sorted(t for t in targets if t >= 0)
                if how == "none":
                    targets = targets[:1]
                for tg in targets:
                    c = ddl_case(rng, did, drow, kind, how, tg, "ddl")
                    c["override"] = ov
                    # the region of the known findings is generated only once they are listed
                    res = mirror_ddl(c["in"])
                    mx = py_or(drow[1] if kind == 0 else drow[2], drow[0])
                    if res[0] == "named" and not res[2] and mx < len(res[1]) <= drow[0] and F_PLAIN not in known:
                        continue
                    cases.append(c)
    return cases


NAME_POOL_LIT = ["", "a", "b", "ab", "a_1", "aa", "ba", "aaa", "a_1_b", "abab", "aaaa", "aaab", "aaaaa", "aaaab",
                 "aaaaaa", "aaaaab", "baaaaa", "aaaaaaa", "aaaaaab", "aaaaaaaa", "aaaaaaab", "aaaaaaaaaa",
                 "aaaaaaaaab", "a" * 16, "a" * 15 + "b", "a" * 40, "a" * 39 + "b"]
ANON_BODIES = ["a", "a_1", "ab", "aaaa", "aaaaaaaa", "a" * 30]


def gen_lowlevel(rng, tier):
    cases = []
    n = 6000 if tier == "thorough" else 500
    for i in range(n):
        ll = rng.choice([None, 0, -2, 1, 2, 3, 4, 5, 6, 7, 8, 9, 10, 11, 12, 14, 20, 30])
        maxid = rng.choice([9999, 30, 12])
        ctrs = []
        r = rng.random()
        if r < 0.25:
            ctrs = [[rng.choice([0, 1, 2]), rng.choice([9, 15, 16, 255, 256, 4095, 0xFFFE, 0xFFFFF - 1, 0xFFFFF, 0x100000, 0xFFFFFF])]]
        pool = []
        for _ in range(rng.randint(1, 5)):
            k = rng.random()
            if k < 0.45:
                s = rng.choice(NAME_POOL_LIT)
                pool.append([[0, rle(s)]] if s else [])
            elif k < 0.8:
                pool.append([[1, rng.randint(1, 4), rle(rng.choice(ANON_BODIES))]])
            elif k < 0.9:
                pool.append([[1, rng.randint(1, 4), rle(rng.choice(ANON_BODIES))], [0, rle("_" + rng.choice(NAME_POOL_LIT[1:12]))]])
            else:
                pool.append([[0, rle(rng.choice(NAME_POOL_LIT[1:8]) + "_")], [1, rng.randint(1, 4), rle(rng.choice(ANON_BODIES))]])
        eff = py_or(ll, maxid)
        if not ctrs and 6 <= eff <= 40 and rng.random() < 0.4:
            # adversarial: literal names that look like truncated ones, next to over-long names sharing
            # the prefix (they must be truncated themselves, never rendered as they are)
            cut = eff - 6
            ch = rng.choice("ab")
            pool = [[[0, rle(ch * cut + "_" + "%x" % k)]] for k in rng.sample(range(1, 6), 2)]
            pool += [[[0, rle(ch * (eff + rng.randint(-3, 4)) + suf)]] for suf in ("", "b", "c")]
            pool = [x for x in pool if x != [[0, []]]]
            reqs = [[0, n] for n in pool]
            rng.shuffle(reqs)
            reqs += [[rng.choice([0, 1]), rng.choice(pool)] for _ in range(rng.randint(0, 3))]
            cases.append({"in": [1, ll, maxid, ctrs, reqs], "kind": "lowlevel_adv"})
            continue
        reqs = [[rng.choice([0, 0, 1, 2]), rng.choice(pool)] for _ in range(rng.randint(1, 9))]
        cases.append({"in": [1, ll, maxid, ctrs, reqs], "kind": "lowlevel"})
    return cases


STMT_DIALECTS = [0, 1, 2, 3, 4]


def gen_stmt(rng, tier, tbl, known):
    cases = []
    nsmall = 4000 if tier == "thorough" else 450
    nlarge = 120 if tier == "thorough" else 12
    for i in range(nsmall + nlarge):
        large = i >= nsmall
        did = rng.choice(STMT_DIALECTS)
        ll = rng.choice([6, 10, 30, None, None, 6, 10, 30, 7, 12, 20, 0, 1, 3, 5])
        maxid = tbl[did][0]
        if did == 0 and rng.random() < 0.3:
            maxid = rng.choice([12, 30, 64])
        eff = py_or(ll, maxid)
        aliased = rng.random() < 0.6
        if large:
            ncols = rng.randint(100, 600 if tier == "thorough" else 300)
            # (the model's memo is an association list: cost ~ ncols^2 * name length)
            base = mkname(rng, rng.choice([1, 3, 10, 25, 40] + ([70, 200] if ncols <= 130 else [])))
            tail = rng.choice(["", "_x", "xx" * 6])
            cols = [base + str(j) + tail for j in range(ncols)]
            tn = mkname(rng, rng.choice([1, 4, 12, 30, 70]), "t")
            items = [[rng.choice([0, 0, 1]), j] for j in range(ncols)]
            nw = rng.randint(20, 120)
            whs = [[0, rng.randrange(ncols)] for _ in range(nw)]
        else:
            ncols = rng.randint(1, 4)
            # lengths around the truncation threshold eff - 6
            def ln():
                if eff > 400:
                    return rng.choice([1, 2, 5, 20, 64, 300])
                return max(1, rng.choice([eff - 8, eff - 7, eff - 6, eff - 5, eff - 4, eff, eff + 3, 1, 2, rng.randint(1, 40)]))
            cols = []
            for j in range(ncols):
                c = mkname(rng, ln())
                while c in cols:
                    c = mkname(rng, len(c) + 1)
                cols.append(c)
            if 8 <= eff <= 60 and rng.random() < 0.3:
                # adversarial: a short column whose anonymous label "<col>_1" looks like the truncation of
                # the long ones sharing its prefix
                ch = rng.choice(LETTERS)
                cut = eff - 6
                cols = [ch * cut, ch * (cut + rng.randint(3, 12)), ch * (cut + 1) + "b" * rng.randint(2, 9)]
                ncols = 3
            tn = mkname(rng, rng.choice([1, 2, 3, ln()]), "t")
            items = []
            tq_used = set()
            for _ in range(rng.randint(1, 5)):
                j = rng.randrange(ncols)
                if rng.random() < 0.5 and j not in tq_used:
                    tq_used.add(j)
                    items.append([0, j])
                else:
                    items.append([1, j])
            whs = []
            for _ in range(rng.randint(0, 4)):
                r = rng.random()
                if r < 0.6:
                    whs.append([0, rng.randrange(ncols)])
                else:
                    # explicit bind parameters; some named like a generated name to provoke the conflict check
                    nm = rng.choice([mkname(rng, rng.randint(1, 12), "p"), cols[0] + "_1", "param_1", cols[0][: max(eff - 6, 0)] + "_1"])
                    nm = nm.strip("_") or "p"
                    whs.append([1, rle(nm), 1 if rng.random() < 0.5 else 0])
        cases.append({"in": [2, ll, maxid, rle(tn), 1 if aliased else 0, [rle(c) for c in cols], items, whs],
                      "kind": "stmt_large" if large else "stmt", "dialect": did})
    return cases


LIMITS = [18, 22, 30, 63, 64, 128, 255]


def gen_multi(rng, tier):
    """op3: one long-lived dialect, limits changed between renderings of the same names"""
    cases = []
    n = 1500 if tier == "thorough" else 140
    for _ in range(n):
        names = []
        for _k in range(rng.randint(1, 2)):
            nm = mkname(rng, rng.choice([25, 40, 66, 70, 100, 130, 150, 260]), "n")
            if nm not in names:
                names.append(nm)
        steps = []
        shared = rng.random() < 0.5  # index and constraint limits differ on one configuration
        base = [rng.choice(LIMITS + [9999]), rng.choice([None] + LIMITS), rng.choice([None] + LIMITS)]
        for _k in range(rng.randint(2, 5)):
            if shared:
                d = list(base)
            else:
                d = [rng.choice(LIMITS), rng.choice([None, None] + LIMITS), rng.choice([None, None] + LIMITS)]
            steps.append([d, rng.randint(0, 1), rng.randrange(len(names))])
        md5s = [[ord(ch) for ch in hashlib.md5(nm.encode("utf-8")).hexdigest()] for nm in names]
        cases.append({"in": [3, [rle(nm) for nm in names], md5s, steps], "kind": "multi"})
    return cases


def gen_engine(rng, tier):
    """op4: identifier limit detected on first connect"""
    cases = []
    n = 1500 if tier == "thorough" else 160
    for _ in range(n):
        cls = rng.choice([128, 128, 64, 40])
        det = rng.choice([None, 30, 30, 64, 20, 100, 0])
        user = rng.choice([None, None, None, None, 25, 40, 90])
        pivots = [cls] + ([det] if det else []) + ([user] if user else [])
        p = rng.choice(pivots)
        ll = rng.choice([None, 12, p - 1, p, p + 1, p + 1, (p + cls) // 2, rng.randint(8, 140)])
        if ll is not None and ll < 6:
            ll = 6
        ncols = rng.randint(1, 3)
        cols = []
        for _j in range(ncols):
            c = mkname(rng, rng.choice([3, 20, 28, 40, 60, 120]))
            while c in cols:
                c = mkname(rng, len(c) + 1)
            cols.append(c)
        tn = mkname(rng, rng.choice([2, 10, 25, 50]), "t")
        items, used = [], set()
        for _j in range(rng.randint(1, 4)):
            j = rng.randrange(ncols)
            if rng.random() < 0.5 and j not in used:
                used.add(j)
                items.append([0, j])
            else:
                items.append([1, j])
        whs = [[0, rng.randrange(ncols)] for _j in range(rng.randint(0, 3))]
        cases.append({"in": [4, cls, user, ll, det, rle(tn), 1 if rng.random() < 0.6 else 0,
                             [rle(c) for c in cols], items, whs], "kind": "engine"})
    return cases


def gen_cases(rng, tier):
    tbl = _table()
    known = known_ids()
    cases = (gen_ddl(rng, tier, tbl, known) + gen_lowlevel(rng, tier) + gen_stmt(rng, tier, tbl, known)
             + gen_multi(rng, tier) + gen_engine(rng, tier))
    # spread the expensive cases over the shards (cases are evaluated 400 per file, files in parallel)
    large = [c for c in cases if c["kind"] == "stmt_large"]
    rest = [c for c in cases if c["kind"] != "stmt_large"]
    step = max(len(rest) // (len(large) + 1), 1)
    out = []
    for k, c in enumerate(rest):
        out.append(c)
        if large and (k + 1) % step == 0:
            out.append(large.pop())
    return out + large


def nontrivial(c):
    i = c["in"]
    if i[0] == 0:
        res = mirror_ddl(i)
        if res[0] != "named":
            return False
        d = i[1]
        mx = py_or(d[1] if i[2] else d[2], d[0])
        return len(res[1]) >= mx - 1
    if i[0] == 3:
        lens = [len(unrle(n)) for n in i[1]]
        return any(py_or(d[1] if ix else d[2], d[0]) < lens[k] for d, ix, k in i[3])
    if i[0] == 4:
        return i[3] != [] or i[4] != []
    if i[0] == 1:
        return any(any(s[0] == 1 for s in n) or sum(len(unrle(s[1])) for s in n if s[0] == 0) > 0 for _, n in i[4])
    eff = py_or(i[1], i[2])
    tn = unrle(i[3])
    return any(len(tn) + 1 + len(unrle(c_)) > eff - 6 for c_ in i[5])


# ------------------------------------------------------------------------------------------------
# implementation side
# ------------------------------------------------------------------------------------------------
def _dialect(did, **kw):
    from sqlalchemy.dialects import mssql, mysql, oracle, postgresql, sqlite
    from sqlalchemy.engine import default

    mk = {0: default.DefaultDialect, 1: sqlite.dialect, 2: postgresql.dialect, 3: mysql.dialect,
          4: oracle.dialect, 5: mssql.dialect}[did]
    return mk(**kw)


def impl_facts():
    out = {}
    for did, name, _rel, _cls in DIALECTS:
        d = _dialect(did)
        out[name] = [d.max_identifier_length, d.max_index_name_length, d.max_constraint_name_length]
    return out


def _ident_after(sql, marker, d):
    """the (possibly quoted) identifier that follows `marker` in sql"""
    i = sql.index(marker) + len(marker)
    q1, q2 = d.identifier_preparer.initial_quote, d.identifier_preparer.final_quote
    if sql.startswith(q1, i):
        j = sql.index(q2, i + len(q1))
        return sql[i + len(q1): j]
    j = i
    while j < len(sql) and not sql[j].isspace() and sql[j] not in "(.,":
        j += 1
    return sql[i:j]


def _impl_ddl(cin, did, override):
    from sqlalchemy import CheckConstraint, Column, ForeignKeyConstraint, Index, Integer, MetaData
    from sqlalchemy import PrimaryKeyConstraint, Table, UniqueConstraint
    from sqlalchemy.schema import CreateIndex, CreateTable, conv
    from sqlalchemy.sql.base import _NONE_NAME

    _, drow, ix, cv, g, env, _md5 = cin
    tb, cols, rf = unrle(env[0]), [unrle(c) for c in env[1]], unrle(env[2])

    def tok(t):
        if t[0] == 0:
            return unrle(t[1])
        return {1: "%(table_name)s", 2: "%%(column_%d_name)s" % (t[1] if t[0] == 2 else 0),
                3: "%(column_0_N_name)s" if (t[0] == 3 and t[1]) else "%(column_0N_name)s",
                4: "%(constraint_name)s", 5: "%(referred_table_name)s"}[t[0]]

    def build(ctype):
        # a non-empty dict without an entry for this kind = "no convention for it" (an empty dict
        # would select DEFAULT_NAMING_CONVENTION, which names indexes)
        nc = {"uq": "uq_unused"} if ctype == "ix" else {"ix": "ix_unused"}
        if cv:
            nc = {ctype: "".join(tok(t) for t in cv[0])}
        m = MetaData(naming_convention=nc)
        name = {0: None, 1: _NONE_NAME}.get(g[0], None)
        if g[0] == 2:
            name = unrle(g[1])
        elif g[0] == 3:
            name = conv(unrle(g[1]))
        colobjs = [Column(c, Integer) for c in cols]
        if ctype == "ix":
            con = Index(name, *colobjs)
            t = Table(tb, m, *colobjs)
            return t, con
        if ctype == "uq":
            con = UniqueConstraint(*cols, name=name)
        elif ctype == "ck":
            con = CheckConstraint(colobjs[0] > 0, name=name)
        elif ctype == "pk":
            con = PrimaryKeyConstraint(*cols, name=name)
        else:
            Table(rf, m, *[Column("r%d" % i, Integer, primary_key=True) for i in range(len(cols))])
            con = ForeignKeyConstraint(cols, ["%s.r%d" % (rf, i) for i in range(len(cols))], name=name)
        t = Table(tb, m, *colobjs, con)
        return t, con

    def render(ctype, d):
        t, con = build(ctype)
        if ctype == "ix":
            sql = str(CreateIndex(con).compile(dialect=d))
            return [0, _ident_after(sql, "INDEX ", d)]
        sql = str(CreateTable(t).compile(dialect=d))
        kw = {"uq": "UNIQUE", "ck": "CHECK", "pk": "PRIMARY KEY", "fk": "FOREIGN KEY"}[ctype]
        for line in sql.split("\n"):
            ls = line.strip()
            if ls.startswith("CONSTRAINT ") and (" " + kw) in ls:
                return [0, _ident_after(ls, "CONSTRAINT ", d)]
            if ls.startswith(kw):
                return [1]
        raise RuntimeError("constraint not found in DDL: %r" % sql)

    return build, render


def impl(c):
    cin = c["in"]
    if cin[0] == 0:
        return _run_ddl(c)
    if cin[0] == 1:
        return _run_lowlevel(cin)
    if cin[0] == 3:
        return _run_multi(cin)
    if cin[0] == 4:
        return _run_engine(cin)
    return _run_stmt(c)


def _mkdialect(did, override, **kw):
    if override:
        kw["max_identifier_length"] = override
    return _dialect(did, **kw)


def _run_ddl(c):
    from sqlalchemy import exc

    cin = c["in"]
    did, override = c.get("dialect", 0), c.get("override")
    ctype = c.get("ctype") or ("ix" if cin[2] else "uq")
    build, render = _impl_ddl(cin, did, override)

    def once(d):
        try:
            return render(ctype, d)
        except exc.IdentifierError:
            return [2]
        except exc.InvalidRequestError:
            return [3]
        except exc.CompileError:
            return [4]
        except AssertionError:
            # CREATE INDEX for an index without a name: the default compiler raises CompileError, the
            # sqlite/postgresql/mysql/oracle/mssql overrides of visit_create_index run into
            # `assert name is not None` in format_constraint (an internal error - C22's subject, not C21's)
            if ctype == "ix":
                return [4]
            raise

    d = _mkdialect(did, override)
    # the runtime limits must be the ones the case (and so the model) was given
    rt = [d.max_identifier_length, d.max_index_name_length, d.max_constraint_name_length]
    if [([] if x is None else x) for x in rt] != list(cin[1]):
        return [8, [x if x is not None else -1 for x in rt]]
    r1 = once(d)
    r2 = once(d)  # same dialect object again (the preparer is long lived)
    d2 = _mkdialect(did, override)
    # a fresh dialect that has compiled something else before
    try:
        render("ix" if ctype != "ix" else "uq", d2)
    except Exception:
        pass
    r3 = once(d2)
    if r1 != r2 or r1 != r3:
        return [9, _enc(r1), _enc(r2), _enc(r3)]
    return _enc(r1)


def _enc(r):
    return [0, rle(r[1])] if r[0] == 0 else r


def _mklabel(segs):
    from sqlalchemy.sql import elements

    if not any(s[0] == 1 for s in segs):
        return elements._truncated_label("".join(unrle(s[1]) for s in segs))
    raw = ""
    for s in segs:
        raw += unrle(s[1]) if s[0] == 0 else "%%(%d %s)s" % (s[1], unrle(s[2]))
    return elements._anonymous_label(raw)


CLSNAMES = {0: "colident", 1: "alias", 2: "bindparam"}


def _run_lowlevel(cin):
    _, ll, maxid, ctrs, reqs = cin
    ll = None if ll == [] else ll

    def once():
        d = _dialect(0, label_length=ll, max_identifier_length=maxid)
        comp = d.statement_compiler(d, None)
        for cls, v in ctrs:
            comp._truncated_counters[CLSNAMES[cls]] = v
        return [rle(str(comp._truncated_identifier(CLSNAMES[cls], _mklabel(n)))) for cls, n in reqs]

    a, b = once(), once()
    if a != b:
        return [9, a, b]
    return a


def _run_multi(cin):
    from sqlalchemy import Column, Index, Integer, MetaData, Table, UniqueConstraint, exc
    from sqlalchemy.engine import default
    from sqlalchemy.schema import CreateIndex, CreateTable, conv

    _, names, _md5s, steps = cin
    names = [unrle(n) for n in names]
    objs = []
    for k, nm in enumerate(names):
        m = MetaData(naming_convention={"ck": "ck_unused"})
        ti = Table("ti%d" % k, m, Column("a", Integer))
        ix = Index(conv(nm), ti.c.a)
        tu = Table("tu%d" % k, m, Column("b", Integer), UniqueConstraint("b", name=conv(nm)))
        objs.append((ix, tu))

    def setlim(d, lim):
        d.max_identifier_length = lim[0]
        d.max_index_name_length = None if lim[1] == [] else lim[1]
        d.max_constraint_name_length = None if lim[2] == [] else lim[2]

    def render(d, is_index, k):
        try:
            if is_index:
                sql = str(CreateIndex(objs[k][0]).compile(dialect=d))
                return [0, rle(_ident_after(sql, "INDEX ", d))]
            sql = str(CreateTable(objs[k][1]).compile(dialect=d))
            return [0, rle(_ident_after(sql, "CONSTRAINT ", d))]
        except exc.IdentifierError:
            return [2]

    live = default.DefaultDialect()  # one long-lived dialect / IdentifierPreparer
    out = []
    for lim, is_index, k in steps:
        setlim(live, lim)
        got = render(live, is_index, k)
        fresh = default.DefaultDialect()
        setlim(fresh, lim)
        want = render(fresh, is_index, k)
        out.append(got if got == want else [9, got, want])
    return out


_DETECT = []


def _detect_cls():
    """a SQLite dialect that, like the Oracle one, learns its identifier limit on the first connection"""
    if not _DETECT:
        from sqlalchemy.dialects import registry
        from sqlalchemy.dialects.sqlite.pysqlite import SQLiteDialect_pysqlite

        class DetectingDialect(SQLiteDialect_pysqlite):
            max_identifier_length = 128
            supports_statement_cache = True
            server_limit = None

            def _check_max_identifier_length(self, connection):
                return self.server_limit

        globals()["DetectingDialect"] = DetectingDialect
        registry.register("sqlite.c21detect", __name__, "DetectingDialect")
        _DETECT.append(DetectingDialect)
    return _DETECT[0]


def _run_engine(cin):
    from sqlalchemy import create_engine, exc

    _, cls, user, ll, det, tn, aliased, cols, items, whs = cin
    none = lambda x: None if x == [] else x
    D = _detect_cls()

    def once():
        D.max_identifier_length = cls
        D.server_limit = none(det)
        kw = {}
        if none(ll) is not None:
            kw["label_length"] = ll
        if none(user) is not None:
            kw["max_identifier_length"] = user
        eng = create_engine("sqlite+c21detect://", **kw)
        try:
            try:
                with eng.connect():
                    pass
            except exc.ArgumentError:
                return [5]
            r = _compile_stmt(eng.dialect, unrle(tn), aliased, [unrle(x) for x in cols], items, whs)
            return r + [eng.dialect.max_identifier_length] if r[0] == 0 else r
        finally:
            eng.dispose()

    a, b = once(), once()
    if a != b:
        return [9, a, b]
    return a


def _compile_stmt(d, tn, aliased, cols, items, whs):
    from sqlalchemy import LABEL_STYLE_TABLENAME_PLUS_COL, bindparam, column, exc, select, table

    t = table(tn, *[column(x) for x in cols])
    src = t.alias() if aliased else t
    sel = []
    for k, j in items:
        col = src.c[cols[j]]
        sel.append(col if k == 0 else col.label(None))
    binds, crit = [], []
    for w in whs:
        if w[0] == 0:
            e = src.c[cols[w[1]]] == 5
            binds.append(e.right)
        else:
            bp = bindparam(unrle(w[1]), 1, unique=bool(w[2]))
            e = src.c[cols[0]] == bp
            binds.append(bp)
        crit.append(e)
    stmt = select(*sel).where(*crit).set_label_style(LABEL_STYLE_TABLENAME_PLUS_COL)
    try:
        comp = stmt.compile(dialect=d)
    except exc.CompileError:
        return [4]
    names = [rc[0] for rc in comp._result_columns]
    al = [_ident_after(str(comp), "SELECT ", d)] if aliased else []
    bn = [comp.bind_names[b] for b in binds]
    return [0, [rle(str(x)) for x in names], [rle(str(x)) for x in al], [rle(str(x)) for x in bn]]


def _run_stmt(c):
    _, ll, maxid, tn, aliased, cols, items, whs = c["in"]
    ll = None if ll == [] else ll
    did = c.get("dialect", 0)

    def once():
        kw = {"label_length": ll}
        d = _dialect(did, **kw)
        if d.max_identifier_length != maxid:
            d = _dialect(did, max_identifier_length=maxid, **kw)
        return _compile_stmt(d, unrle(tn), aliased, [unrle(x) for x in cols], items, whs)

    a, b = once(), once()
    if a != b:
        return [9, a, b]
    return a


# ------------------------------------------------------------------------------------------------
# the property, stated directly on the implementation's observation
# ------------------------------------------------------------------------------------------------
def oracle(c, obs):
    cin = c["in"]
    if cin[0] != 3 and obs and obs[0] == 9:
        return "not deterministic: compiling again gave a different name: %s" % (obs[1:],)
    if cin[0] != 3 and obs and obs[0] == 8:
        return None  # harness/translator disagreement about the limits; reported by the correspondence
    if cin[0] == 0:
        if obs[0] != 0:
            return None
        name = unrle(obs[1])
        d = cin[1]
        mx = py_or(d[1] if cin[2] else d[2], d[0])
        if len(name) > mx:
            return "rendered %s name has %d characters, the dialect's limit is %d" % (
                "index" if cin[2] else "constraint", len(name), mx)
        if len(name) > d[0]:
            return "rendered name has %d characters, max_identifier_length is %d" % (len(name), d[0])
        return None
    if cin[0] == 3:
        lens = [len(unrle(n)) for n in cin[1]]
        for (d, ix, k), o in zip(cin[3], obs):
            lim = py_or(None if (d[1] if ix else d[2]) == [] else (d[1] if ix else d[2]), d[0])
            if o[0] == 9:
                return ("the %s name rendered under limit %d on a dialect that rendered other limits before "
                        "differs from what a fresh dialect renders: %r vs %r"
                        % ("index" if ix else "constraint", lim, unrle(o[1][1]) if o[1][0] == 0 else o[1],
                           unrle(o[2][1]) if o[2][0] == 0 else o[2]))
            if o[0] == 0 and len(unrle(o[1])) > lim and lim >= 8:
                return "rendered %s name has %d characters, the limit in force is %d" % (
                    "index" if ix else "constraint", len(unrle(o[1])), lim)
        return None
    if cin[0] == 4:
        if obs[0] != 0:
            return None  # ArgumentError on first connect (or a documented compile error) is allowed
        m = obs[4]
        ll = None if cin[3] == [] else cin[3]
        eff = py_or(ll, m)
        whs = cin[9]
        names = [unrle(x) for x in obs[1]] + [unrle(x) for x in obs[2]] + [unrle(x) for x in obs[3]]
        if len({json.dumps(x) for x in obs[1]}) != len(obs[1]):
            return "result columns share a name"
        if m >= 6:
            for nm in names:
                if len(nm) > m:
                    return ("the engine started (label_length=%s) and rendered %r: %d characters, the dialect's "
                            "max_identifier_length after connecting is %d" % (ll, nm, len(nm), m))
        return None
    if cin[0] == 1:
        _, ll, maxid, ctrs, reqs = cin
        eff = py_or(None if ll == [] else ll, maxid)
        outs = [unrle(o) for o in obs]
        seen = {}
        for (cls, n), o in zip(reqs, outs):
            key = (cls, json.dumps(n))
            if key in seen and seen[key] != o:
                return "the same name was rendered as %r and %r" % (seen[key], o)
            seen[key] = o
        # names without anonymous parts are their own text: different text, different rendering
        byout = {}
        for (cls, n), o in zip(reqs, outs):
            if all(s[0] == 0 for s in n):
                txt = "".join(unrle(s[1]) for s in n)
                prev = byout.setdefault((cls, o), txt)
                if prev != txt:
                    return "labels %r and %r are both rendered %r" % (prev, txt, o)
        start = max([v for _, v in ctrs] + [1])
        if eff >= 6 and start + len(reqs) < 16 ** 5:
            for o in outs:
                if len(o) > eff:
                    return "rendered name %r is longer than label_length %d" % (o, eff)
        return None
    # statements
    _, ll, maxid, tn, aliased, cols, items, whs = cin
    eff = py_or(None if ll == [] else ll, maxid)
    if obs[0] == 4:
        if all(w[0] == 0 for w in whs):
            return "CompileError (bind name conflict) although every bind parameter is anonymous"
        return None
    names = [unrle(x) for x in obs[1]]
    al = [unrle(x) for x in obs[2]]
    bn = [unrle(x) for x in obs[3]]
    if len(names) != len(items) or len(bn) != len(whs):
        return "unexpected number of names"
    seen = {}
    for k, nm in enumerate(names):
        if nm in seen:
            return "result columns %d and %d share the name %r" % (seen[nm], k, nm)
        seen[nm] = k
    for a in range(len(whs)):
        for b in range(a + 1, len(whs)):
            ua = whs[a][0] == 0 or whs[a][2]
            ub = whs[b][0] == 0 or whs[b][2]
            if (ua or ub) and bn[a] == bn[b]:
                return "bind parameters %d and %d share the name %r" % (a, b, bn[a])
    if eff >= 6:
        for nm in names + al + [bn[k] for k, w in enumerate(whs) if w[0] == 0 or w[2]]:
            if len(nm) > eff:
                return "rendered name %r is longer than label_length %d" % (nm, eff)
    return None


def match_finding(c, what):
    cin = c["in"]
    if cin[0] == 0 and "characters, the dialect's limit" in what:
        d = cin[1]
        mx = py_or(d[1] if cin[2] else d[2], d[0])
        res = mirror_ddl(cin)
        if mx < 8 and res[0] == "named" and res[2]:
            return F_SMALL
        if res[0] == "named" and not res[2] and mx < d[0] and mx < len(res[1]) <= d[0]:
            return F_PLAIN
    if cin[0] == 2 and "result columns" in what and "share the name" in what:
        # one of the two is an anonymous label (item kind 1), the other is not
        import re

        m = re.search(r"result columns (\d+) and (\d+)", what)
        a, b = int(m.group(1)), int(m.group(2))
        items = cin[6]
        if items[a][0] != items[b][0]:
            return F_ANON
    return None


LEVEL_TEXT = (
    "Machine-checked proof (Coq) over the Gallina transcription of the name generation code: rendered "
    "constraint/index names fit the dialect limit for every name, convention and limit >= 8 (else the "
    "documented IdentifierError), with the per-dialect side condition discharged by reflection on the "
    "table translated from the dialect sources at each run; within one compilation, for any number of "
    "requests, any label_length and any order: truncated/anonymous labels of a class are injective up to "
    "equal anonymised text, anonymous elements are pairwise distinct, distinct bind parameters never "
    "share a name when one is anonymous and all-anonymous statements never hit the conflict error; "
    "labels fit label_length below 16^5 names, with the exact overflow point proved. Refuted/guarded "
    "pairs for the three places where the code does not meet the unguarded statement."
)
LEVEL_NOTE = (
    "Trusted: Coq kernel; the hand transcription (source pin + T1/T2 re-extraction + correspondence on "
    "real CREATE TABLE/CREATE INDEX and compiled SELECTs over 6 dialects); statement -> request-sequence "
    "abstraction. No axioms (Print Assumptions: closed under the global context); md5 is universally quantified."
)
TECHNIQUE = (
    "Coq proof by invariants over the compilation state (anon map, truncated_names memo, counters, binds); "
    "digit-function arithmetic; reflection on translated dialect table; AST-extracted constants tied by "
    "conversion; model/implementation correspondence + direct oracle"
)
