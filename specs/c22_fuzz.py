"""C22 - generative compile fuzz (oracle only; this part of the check EXPLORES, it proves nothing).

A case is {"in": [9, n], "kind": "fuzz", "model": False, "src": recipe, "dv": dialect variant, "opts": compile options}.
Recipes are JSON: nested lists whose head is a constructor tag; they are built inside the implementation interpreter
against a fresh MetaData.  A recipe the constructors reject (any exception while BUILDING) is outside the property
("accepted by the constructors") and is reported as observation [-1]; only exceptions raised by compile() count.
"""

# ----------------------------------------------------------------------------------------------- dialect variants
# key -> (qualified dialect class, constructor kwargs, attributes set after construction)
VARIANTS = {
    "default": ("sqlalchemy.engine.default.DefaultDialect", {}, {}),
    "default-qmark": ("sqlalchemy.engine.default.DefaultDialect", {"paramstyle": "qmark"}, {}),
    "default-numeric": ("sqlalchemy.engine.default.DefaultDialect", {"paramstyle": "numeric"}, {}),
    "default-format": ("sqlalchemy.engine.default.DefaultDialect", {"paramstyle": "format"}, {}),
    "sqlite": ("sqlalchemy.dialects.sqlite.pysqlite.SQLiteDialect_pysqlite", {}, {}),
    "sqlite-numeric": ("sqlalchemy.dialects.sqlite.pysqlite._SQLiteDialect_pysqlite_numeric", {}, {}),
    "postgresql": ("sqlalchemy.dialects.postgresql.psycopg2.PGDialect_psycopg2", {}, {}),
    "postgresql-numeric": ("sqlalchemy.dialects.postgresql.psycopg2.PGDialect_psycopg2", {"paramstyle": "numeric"}, {}),
    "sqlite-numeric_dollar": ("sqlalchemy.dialects.sqlite.pysqlite.SQLiteDialect_pysqlite", {"paramstyle": "numeric_dollar"}, {}),
    "mssql-numeric": ("sqlalchemy.dialects.mssql.pyodbc.MSDialect_pyodbc", {"paramstyle": "numeric"}, {}),
    "postgresql-asyncpg": ("sqlalchemy.dialects.postgresql.asyncpg.PGDialect_asyncpg", {}, {}),
    "postgresql-pg8000": ("sqlalchemy.dialects.postgresql.pg8000.PGDialect_pg8000", {}, {}),
    "postgresql-psycopg": ("sqlalchemy.dialects.postgresql.psycopg.PGDialect_psycopg", {}, {}),
    "mysql": ("sqlalchemy.dialects.mysql.mysqldb.MySQLDialect_mysqldb", {}, {"server_version_info": (8, 0, 30), "supports_for_update_of": True}),
    "mysql-5": ("sqlalchemy.dialects.mysql.pymysql.MySQLDialect_pymysql", {}, {"server_version_info": (5, 6, 0)}),
    "mysql-connector": ("sqlalchemy.dialects.mysql.mysqlconnector.MySQLDialect_mysqlconnector", {}, {}),
    "mariadb": ("sqlalchemy.dialects.mysql.mariadb.MariaDBDialect", {}, {"server_version_info": (10, 6, 0)}),
    "mssql": ("sqlalchemy.dialects.mssql.pyodbc.MSDialect_pyodbc", {}, {"server_version_info": (15, 0), "_vsetup": True}),
    "mssql-2008": ("sqlalchemy.dialects.mssql.pymssql.MSDialect_pymssql", {}, {"server_version_info": (10, 0), "_vsetup": True}),
    "mssql-legacy-schema": ("sqlalchemy.dialects.mssql.pyodbc.MSDialect_pyodbc", {"legacy_schema_aliasing": True}, {}),
    "oracle": ("sqlalchemy.dialects.oracle.cx_oracle.OracleDialect_cx_oracle", {}, {"server_version_info": (19, 0)}),
    "oracle-11": ("sqlalchemy.dialects.oracle.oracledb.OracleDialect_oracledb", {}, {"server_version_info": (11, 2)}),
    "oracle-noansi": ("sqlalchemy.dialects.oracle.cx_oracle.OracleDialect_cx_oracle", {"use_ansi": False, "optimize_limits": True},
                      {"server_version_info": (11, 2)}),
    "oracle-nchar": ("sqlalchemy.dialects.oracle.cx_oracle.OracleDialect_cx_oracle", {"use_nchar_for_unicode": True},
                     {"server_version_info": (21, 0)}),
}
VKEYS = sorted(VARIANTS)
FAMILY = lambda k: k.split("-")[0]  # noqa: E731

TABLES = ["t1", "t2", "t3", "t4"]
COLS = {
    "t1": [("id", "int"), ("x", "int"), ("s", "str"), ("d", "dt"), ("b", "bool"), ("n", "num"), ("j", "json")],
    "t2": [("id", "int"), ("t1_id", "int"), ("y", "int"), ("name", "str")],
    "t3": [("id", "int"), ("z", "int"), ("w", "str")],
    "t4": [("id", "int"), ("select", "int"), ("Mixed Case", "str"), ("with space", "int"), ("a.b", "int"), ("amount (usd)", "int")],
}
IDENTS = ["", "a", "x1", "select", "Mixed", "with space", "q%q", 'dq"dq', "ünï", "a" * 70, "1abc", "_u", "tbl.col", "]b[", "`bt`"]


# ----------------------------------------------------------------------------------------------- generation
def _base(t):
    return t if t.startswith("#") else t.split("#")[0]


def _col(rng, tabs, ty=None):
    t = rng.choice(tabs)
    cs = [c for c in COLS[_base(t)] if ty is None or c[1] == ty] or COLS[_base(t)]
    return ["c", t, rng.choice(cs)[0]]


def _lit(rng, ty):
    if ty == "int":
        return ["lit", rng.choice([0, 1, -1, 7, 2 ** 40, None])]
    if ty == "str":
        return ["lit", rng.choice(["", "a", "it's", "100%", "a_b", "x\\y", "é", "%(k)s", ":p", "?", None])]
    if ty == "bool":
        return ["lit", rng.choice([True, False, None])]
    if ty == "num":
        return ["lit", rng.choice([0.5, 1e20, -3.25, None])]
    return ["lit", None]


def g_expr(rng, tabs, d, ty=None):
    ty = ty or rng.choice(["int", "int", "str", "bool", "num"])
    if d <= 0 or rng.random() < 0.22:
        r = rng.random()
        if r < 0.6:
            return _col(rng, tabs, ty)
        if r < 0.85:
            return _lit(rng, ty)
        if r < 0.9:
            return ["bp", rng.choice(["p", "q1", "select", "a b", "x%", "p:1"]), _lit(rng, ty)[1],
                    rng.choice(["", "expanding", "literal_execute", "required"])]
        if r < 0.94:
            return ["null"] if rng.random() < 0.5 else [rng.choice(["true", "false"])]
        if r < 0.97:
            return ["lc", rng.choice(["1", "x + 1", "%s", ":a", "a%b", "count(*)"])]
        return ["text", rng.choice(["x > 1", "s like '%a%'", "y = :yy", "z = %(zz)s"])]
    k = rng.random()
    if ty == "bool":
        if k < 0.3:
            t2 = rng.choice(["int", "str", "num", "dt"])
            return ["cmp", rng.choice(["==", "!=", "<", "<=", ">", ">=", "is_distinct_from", "is_not_distinct_from"]),
                    g_expr(rng, tabs, d - 1, t2), g_expr(rng, tabs, d - 1, t2)]
        if k < 0.42:
            return [rng.choice(["and", "or"]), [g_expr(rng, tabs, d - 1, "bool") for _ in range(rng.randint(0, 3))]]
        if k < 0.5:
            return ["not", g_expr(rng, tabs, d - 1, "bool")]
        if k < 0.62:
            return ["strop", rng.choice(["like", "ilike", "not_like", "contains", "startswith", "endswith", "icontains",
                                         "istartswith", "regexp_match", "match"]),
                    g_expr(rng, tabs, d - 1, "str"), g_expr(rng, tabs, d - 1, "str"),
                    rng.choice([None, None, "/", "autoescape", "flags"])]
        if k < 0.74:
            t2 = rng.choice(["int", "str"])
            r = rng.random()
            if r < 0.5:
                rhs = ["list", [_lit(rng, t2) for _ in range(rng.randint(0, 3))]]
            elif r < 0.7:
                rhs = ["bp", "inp", [1, 2], "expanding"]
            elif r < 0.85:
                rhs = ["subq", g_select(rng, d - 1, simple=True)]
            else:
                rhs = ["list", [g_expr(rng, tabs, d - 1, t2)]]
            return ["in", rng.choice([True, False]), g_expr(rng, tabs, d - 1, t2), rhs]
        if k < 0.8:
            return ["between", g_expr(rng, tabs, d - 1, "int"), g_expr(rng, tabs, d - 1, "int"), g_expr(rng, tabs, d - 1, "int"),
                    rng.random() < 0.3]
        if k < 0.86:
            return ["isnull", rng.choice([True, False]), g_expr(rng, tabs, d - 1)]
        if k < 0.92:
            return ["exists", g_select(rng, d - 1, simple=True, correlate=tabs)]
        if k < 0.96:
            return ["tuple_in", [g_expr(rng, tabs, d - 1, "int"), g_expr(rng, tabs, d - 1, "int")],
                    [[_lit(rng, "int"), _lit(rng, "int")] for _ in range(rng.randint(0, 2))]]
        return ["anyall", rng.choice(["any_", "all_"]), g_expr(rng, tabs, d - 1, "int"), ["subq", g_select(rng, d - 1, simple=True)]]
    if k < 0.3:
        ops = {"int": ["+", "-", "*", "/", "//", "%", "&", "|", "^", "<<", ">>"], "num": ["+", "-", "*", "/", "%"],
               "str": ["+", "concat"], "dt": ["-"]}.get(ty, ["+"])
        return ["arith", rng.choice(ops), g_expr(rng, tabs, d - 1, ty), g_expr(rng, tabs, d - 1, ty)]
    if k < 0.38:
        return ["un", rng.choice(["-", "~", "distinct"]), g_expr(rng, tabs, d - 1, ty)]
    if k < 0.52:
        name = rng.choice(["count", "sum", "max", "coalesce", "now", "current_timestamp", "concat", "char_length", "random",
                           "lower", "foo.bar", "cube", "rollup", "grouping_sets", "array_agg", "aggregate_strings", "localtime",
                           "pow", "mod", "next_value_seq"])
        nargs = {"count": rng.randint(0, 1), "char_length": 1, "aggregate_strings": 2, "now": 0, "current_timestamp": 0, "localtime": 0,
                 "random": 0, "next_value_seq": 0, "pow": 2, "mod": 2, "sum": 1, "max": 1, "lower": 1, "array_agg": 1}.get(name, rng.randint(0, 2))
        args = [g_expr(rng, tabs, d - 1, ty) for _ in range(nargs)]
        if name == "aggregate_strings":
            args[1] = ["lit", rng.choice([",", "'", "%"])]
        f = ["func", name, args]
        r = rng.random()
        if name == "next_value_seq":
            return f
        if r < 0.2:
            return ["over", f, [g_expr(rng, tabs, 0) for _ in range(rng.randint(0, 2))],
                    [["ord", rng.choice(["", "desc", "asc", "nulls_first", "nulls_last"]),
                      ["labelref", rng.choice(["x", "r0", "id"])] if rng.random() < 0.25 else g_expr(rng, tabs, 0)] for _ in range(rng.randint(0, 2))],
                    rng.choice([None, None, ["rows", None, 0], ["range", -1, 1], ["groups", 1, None], ["rows", 0, 0]])]
        if r < 0.27:
            return ["filter", f, g_expr(rng, tabs, d - 1, "bool")]
        if r < 0.32:
            return ["within_group", f, [["labelref", rng.choice(["x", "id"])] if rng.random() < 0.3 else g_expr(rng, tabs, 0)]]
        if r < 0.36:
            return ["agg_order_by", f, [g_expr(rng, tabs, 0)]]
        return f
    if k < 0.6:
        return ["case", [[g_expr(rng, tabs, d - 1, "bool"), g_expr(rng, tabs, d - 1, ty)] for _ in range(rng.randint(1, 2))],
                rng.choice([None, g_expr(rng, tabs, d - 1, ty)]), rng.random() < 0.2]
    if k < 0.7:
        return [rng.choice(["cast", "cast", "try_cast", "type_coerce"]), g_expr(rng, tabs, d - 1), g_type(rng, False)]
    if k < 0.75:
        return ["extract", rng.choice(["year", "dow", "epoch", "microseconds", "quarter", "foo"]), g_expr(rng, tabs, d - 1, "dt")]
    if k < 0.8:
        return ["scalar", g_select(rng, d - 1, simple=True, correlate=tabs, ncols=1)]
    if k < 0.85:
        return ["collate", g_expr(rng, tabs, d - 1, "str"), rng.choice(["NOCASE", "utf8_bin", "de-DE", 'a"b'])]
    if k < 0.9:
        return ["customop", rng.choice(["->>", "%%", "@@", "&&", ":=", "?"]), g_expr(rng, tabs, d - 1, ty), g_expr(rng, tabs, d - 1, ty),
                rng.choice(["", "bool", "prec"])]
    if k < 0.95:
        if "t1" in tabs:
            return ["getitem", ["c", "t1", "j"], rng.choice([0, "k", ["a", 1]]), rng.choice(["", "as_string", "as_integer", "as_json"])]
        return _col(rng, tabs, ty)
    return ["label", g_expr(rng, tabs, d - 1, ty), rng.choice(IDENTS)]


TYPE_RECIPES = [
    ["Integer"], ["BigInteger"], ["SmallInteger"], ["String"], ["String", 30], ["String", 30, "utf8_bin"], ["Text"], ["Unicode", 10],
    ["UnicodeText"], ["Numeric"], ["Numeric", 10, 2], ["Float"], ["Float", 53], ["Double"], ["Boolean"], ["Boolean", "constraint"],
    ["DateTime"], ["DateTime", "tz"], ["Date"], ["Time"], ["Time", "tz"], ["Interval"], ["LargeBinary"], ["LargeBinary", 100], ["Enum", ["a", "b"]],
    ["Enum", ["a'b", ""]], ["Enum", ["x"], "constraint"], ["Enum", ["x"], "nonnative"], ["JSON"], ["ARRAY", ["Integer"]],
    ["ARRAY", ["String", 5], 2], ["Uuid"], ["Uuid", "native"], ["PickleType"], ["NullType"], ["CHAR", 3], ["VARCHAR"], ["NCHAR", 2], ["NVARCHAR"],
    ["TIMESTAMP", "tz"], ["DECIMAL", 5], ["REAL"], ["BLOB"], ["CLOB"], ["VARBINARY", 10], ["BINARY"], ["TupleType"], ["variant"],
    ["decorator"], ["userdef"], ["pg.JSONB"], ["pg.HSTORE"], ["pg.INET"], ["pg.ENUM"], ["pg.INTERVAL"], ["pg.ARRAY"], ["pg.BIT", 3], ["pg.DOMAIN"],
    ["pg.INT4RANGE"], ["pg.TSVECTOR"], ["my.TINYINT", 1], ["my.SET"], ["my.ENUM"], ["my.YEAR"], ["my.LONGTEXT"], ["my.BIT", 4], ["my.DOUBLE"],
    ["my.VARCHAR", "national"], ["ms.MONEY"], ["ms.XML"], ["ms.DATETIMEOFFSET", 3], ["ms.NTEXT"], ["ms.ROWVERSION"], ["ms.BIT"],
    ["ora.NUMBER", 5, 2], ["ora.RAW", 8], ["ora.INTERVAL"], ["ora.LONG"], ["ora.NCLOB"], ["ora.BINARY_FLOAT"], ["ora.VARCHAR2", 9], ["ora.ROWID"],
    ["lite.JSON"], ["lite.DATETIME"],
]


def g_type(rng, ddl):
    return rng.choice(TYPE_RECIPES)


def g_from(rng, d):
    """returns (from recipe, list of table keys usable in expressions)"""
    r = rng.random()
    t = rng.choice(TABLES)
    if d <= 0 or r < 0.4:
        return ["t", t], [t]
    if r < 0.5:
        return ["alias", t, rng.choice(["a1", "select", "Al ias"])], [t + "#a"]
    if r < 0.75:
        l, lt = g_from(rng, d - 1)
        rt = rng.choice([x for x in TABLES if x not in [_base(y) for y in lt]] or ["t3"])
        if rt in [_base(y) for y in lt]:
            return l, lt
        fk_ok = {"t1", "t2"} <= set(_base(x) for x in lt + [rt]) and all("#" not in x for x in lt)
        on = rng.choice([None, "auto" if fk_ok else None, g_expr(rng, lt + [rt], 1, "bool")])
        return ["join", l, ["t", rt], on, rng.choice(["inner", "left", "full"])], lt + [rt]
    if r < 0.85:
        return ["subquery", g_select(rng, d - 1, simple=True, ncols=2, labels=True), rng.choice(["sq", "Sub Q"]),
                rng.choice(["", "", "lateral"])], ["#sq"]
    if r < 0.9:
        return ["values", [["vx", "int"], ["vy", "str"]], [[1, "a"], [2, None]], rng.choice(["v", None]), rng.random() < 0.3], ["#values"]
    if r < 0.95:
        return ["tablesample", t, rng.choice([5, 0.5]), rng.choice([None, 7])], [t + "#ts"]
    return ["tvf", rng.choice(["generate_series", "json_each", "unnest"]), rng.choice(["gs", "G S"]), rng.random() < 0.4], ["#tvf"]


COLS["#sq"] = [("r0", "int"), ("r1", "int")]
COLS["#values"] = [("vx", "int"), ("vy", "str")]
COLS["#tvf"] = [("value", "int")]


def g_select(rng, d, simple=False, correlate=None, ncols=None, labels=False):
    fr, tabs = g_from(rng, 0 if simple else d)
    froms = [fr]
    if not simple and rng.random() < 0.15:
        fr2, tabs2 = g_from(rng, 0)
        if not set(_base(x) for x in tabs2) & set(_base(x) for x in tabs):
            froms.append(fr2)
            tabs = tabs + tabs2
    etabs = tabs + (list(correlate) if correlate and rng.random() < 0.6 else [])
    n = ncols or rng.randint(1, 3)
    cols = [g_expr(rng, tabs, 0 if simple else min(d, 2)) for _ in range(n)]
    if labels:
        cols = [["label", c, "r%d" % i] for i, c in enumerate(cols)]
    s = {"cols": cols, "from": froms}
    if rng.random() < 0.6:
        s["where"] = g_expr(rng, etabs, min(d, 2), "bool")
    if simple:
        if rng.random() < 0.2:
            s["limit"] = rng.choice([1, 0, 5])
        return ["select", s]
    if rng.random() < 0.25:
        s["group_by"] = [g_expr(rng, tabs, rng.choice([0, 0, 1])) for _ in range(rng.randint(1, 2))]
        if rng.random() < 0.5:
            s["having"] = g_expr(rng, tabs, 1, "bool")
    if rng.random() < 0.45:
        s["order_by"] = [["ord", rng.choice(["", "desc", "asc", "nulls_first", "nulls_last"]),
                          rng.choice([g_expr(rng, tabs, rng.choice([0, 1])), ["labelref", rng.choice(["r0", "nosuch", "x"])]])]
                         for _ in range(rng.randint(1, 2))]
    r = rng.random()
    if r < 0.3:
        s["limit"] = rng.choice([0, 1, 10, ["bp", "lim", 5, ""], ["lit", 3], ["arith", "+", ["lit", 1], ["lit", 2]]])
    if 0.15 < r < 0.45:
        s["offset"] = rng.choice([0, 2, ["bp", "off", 5, ""], ["arith", "+", ["lit", 1], ["lit", 2]]])
    if 0.45 < r < 0.55:
        s["fetch"] = [rng.choice([1, 5, ["bp", "fe", 5, ""]]), rng.random() < 0.3, rng.random() < 0.3]
        if rng.random() < 0.5:
            s["offset"] = rng.choice([0, 2])
    if rng.random() < 0.15:
        s["distinct"] = rng.choice([True, True, [g_expr(rng, tabs, 0)]])
    if rng.random() < 0.1:
        s["for_update"] = rng.choice([{}, {"nowait": True}, {"skip_locked": True}, {"read": True}, {"key_share": True},
                                      {"of": _col(rng, tabs)}, {"of": ["t", rng.choice(TABLES)], "read": True, "nowait": True}])
    if rng.random() < 0.08:
        s["prefix"] = [rng.choice(["SQL_NO_CACHE", "/*+ hint */"]), rng.choice([None, "mysql", "oracle", "*"])]
    if rng.random() < 0.06:
        s["suffix"] = ["OPTION (x)", rng.choice([None, "mssql"])]
    if rng.random() < 0.08:
        s["hint"] = [rng.choice(["stmt", "table"]), rng.choice(["INDEX(%(name)s ix)", "WITH (NOLOCK)", "hint %(name)s %%"]),
                     rng.choice(["*", "mysql", "mssql", "oracle", "postgresql", "sqlite"])]
    if rng.random() < 0.12:
        s["label_style"] = rng.choice(["none", "tablename_plus_col", "disambiguate", "legacy_orm"])
    if d > 0 and rng.random() < 0.15:
        s["ctes"] = [[rng.choice(["dc", "Upsert 1"]), g_dml(rng, 0), "", rng.random() < 0.7]]
    elif d > 0 and rng.random() < 0.18:
        s["ctes"] = [[rng.choice(["cte1", "Cte 2", "select"]), g_select(rng, d - 1, simple=True, ncols=2, labels=True),
                      rng.choice(["", "", "recursive", "nesting", "materialized", "not_materialized"]), rng.random() < 0.6]]
    sel = ["select", s]
    if d > 0 and rng.random() < 0.12:
        other = g_select(rng, 0, simple=True, ncols=n)
        sel = ["setop", rng.choice(["union", "union_all", "intersect", "except_", "except_all", "intersect_all"]), [sel, other],
               {"order_by": rng.random() < 0.3, "limit": rng.choice([None, None, 3]), "offset": rng.choice([None, None, 1]),
                "subq": rng.random() < 0.2}]
    return sel


def g_dml(rng, d):
    t = rng.choice(TABLES)
    cs = COLS[t]
    kind = rng.random()
    ret = rng.choice([None, None, [], ["cols"], ["star"], ["expr"]])
    cte = None
    if rng.random() < 0.1:
        cte = ["cte1", g_select(rng, 0, simple=True, ncols=2, labels=True), rng.choice(["", "recursive"]), True]
    elif d > 0 and rng.random() < 0.12:
        cte = ["dcte", g_dml(rng, 0), "", True]
    if d == 0 and rng.random() < 0.5 and ret in (None, []):
        ret = rng.choice([["cols"], ["star"], ["exprs", [g_expr(rng, [t], 2, rng.choice(["int", "num"])) for _ in range(rng.randint(1, 2))]]])
    elif rng.random() < 0.15:
        ret = ["exprs", [g_expr(rng, [t], 2, rng.choice(["int", "num"])) for _ in range(rng.randint(1, 2))]]
    if kind < 0.45:
        vals = rng.random()
        r = {"table": t, "returning": ret, "cte": cte}
        sub = rng.sample(cs, rng.randint(0, min(3, len(cs))))
        if vals < 0.4:
            r["values"] = {c[0]: rng.choice([_lit(rng, c[1]), g_expr(rng, [t], 1, c[1]) if rng.random() < 0.3 else _lit(rng, c[1])]) for c in sub}
        elif vals < 0.55:
            r["multi"] = [{c[0]: _lit(rng, c[1]) for c in sub} for _ in range(rng.randint(1, 3))]
        elif vals < 0.7:
            names = [c[0] for c in sub] or [cs[0][0]]
            r["from_select"] = [names, g_select(rng, min(d, 1), simple=rng.random() < 0.7, ncols=len(names)), rng.random() < 0.5]
        elif vals < 0.8:
            r["column_keys"] = [c[0] for c in sub]
        r["inline"] = rng.random() < 0.15
        oc = rng.random()
        if oc < 0.25:
            r["on_conflict"] = [rng.choice(["sqlite", "postgresql"]), rng.choice(["nothing", "update"]),
                                rng.choice([None, ["id"], ["cons"]]), rng.choice([None, g_expr(rng, [t], 1, "bool")]),
                                rng.choice(["excluded", "lit", "empty", "unknown"])]
        elif oc < 0.35:
            r["on_duplicate"] = rng.choice(["kw", "inserted", "list", "empty", "unknown", "list_unknown", "forupdate"])
        if rng.random() < 0.08:
            r["prefix"] = rng.choice(["OR REPLACE", "IGNORE"])
        return ["insert", r]
    if kind < 0.78:
        r = {"table": t, "returning": ret, "cte": cte, "where": g_expr(rng, [t], min(d, 2), "bool") if rng.random() < 0.8 else None}
        sub = rng.sample(cs, rng.randint(0, min(3, len(cs))))
        r["values"] = {c[0]: (g_expr(rng, [t], 1, c[1]) if rng.random() < 0.5 else _lit(rng, c[1])) for c in sub}
        if rng.random() < 0.15:
            r["ordered"] = True
        if rng.random() < 0.2:
            o = rng.choice([x for x in TABLES if x != t])
            r["from"] = o
            r["where"] = ["cmp", "==", ["c", t, cs[0][0]], ["c", o, COLS[o][0][0]]]
            if rng.random() < 0.5:
                r["values"][("%s.%s" % (o, COLS[o][1][0]))] = _lit(rng, COLS[o][1][1])
        if rng.random() < 0.1:
            r["mysql_limit"] = rng.choice([1, 0, None])
        if rng.random() < 0.1:
            r["scalar_set"] = ["scalar", g_select(rng, 0, simple=True, correlate=[t], ncols=1)]
        return ["update", r]
    r = {"table": t, "returning": ret, "cte": cte, "where": g_expr(rng, [t], min(d, 2), "bool") if rng.random() < 0.8 else None}
    if rng.random() < 0.2:
        o = rng.choice([x for x in TABLES if x != t])
        r["from"] = o
        r["where"] = ["cmp", "==", ["c", t, cs[0][0]], ["c", o, COLS[o][0][0]]]
    if rng.random() < 0.1:
        r["mysql_limit"] = rng.choice([1, None])
    return ["delete", r]


def g_ddl(rng):
    k = rng.random()
    ncol = rng.randint(1, 4)
    cols = []
    for i in range(ncol):
        c = {"name": rng.choice(IDENTS) if rng.random() < 0.25 else "c%d" % i, "type": g_type(rng, True)}
        if rng.random() < 0.3:
            c["pk"] = True
            if rng.random() < 0.4:
                c["autoincrement"] = rng.choice([True, False, "auto"])
        if rng.random() < 0.25:
            c["nullable"] = rng.random() < 0.5
        r = rng.random()
        if r < 0.12:
            c["server_default"] = rng.choice([["text", "0"], ["text", "'a''b'"], ["func", "now"], ["str", "x'y"], ["lit", 5], ["bool", True], ["text", "(1+1)"]])
        elif r < 0.2:
            c["identity"] = rng.choice([{}, {"start": 5, "increment": 2}, {"always": True, "cycle": True, "minvalue": 1, "maxvalue": 9, "cache": 3},
                                        {"on_null": True, "order": True}, {"nominvalue": True, "nomaxvalue": True}])
        elif r < 0.27:
            c["computed"] = [rng.choice(["c0 + 1", "1"]), rng.choice([None, True, False])]
        elif r < 0.32:
            c["sequence"] = [rng.choice(["sq", "Se q"]), rng.choice([{}, {"start": 1, "increment": 1, "schema": "sch"}, {"optional": True}, {"cycle": True, "cache": 2, "order": True}])]
        elif r < 0.37:
            c["default"] = rng.choice([5, "x", ["func", "now"]])
        if rng.random() < 0.1:
            c["comment"] = rng.choice(["c", "it's", "100%", ""])
        if rng.random() < 0.1:
            c["unique"] = True
        if rng.random() < 0.1:
            c["index"] = True
        if rng.random() < 0.12:
            c["fk"] = [rng.choice(["other.id", "sch.other.id", "other.Mixed Case"]),
                       rng.choice([{}, {"ondelete": "CASCADE"}, {"onupdate": "SET NULL", "deferrable": True, "initially": "DEFERRED"},
                                   {"use_alter": True, "name": "fk1"}, {"match": "FULL"}, {"ondelete": "bogus drop"}])]
        cols.append(c)
    t = {"name": rng.choice(["tt", "select", "My Table", "a" * 65]), "cols": cols}
    if rng.random() < 0.2:
        t["schema"] = rng.choice(["sch", "My Schema", "a.b"])
    cons = []
    names = [c["name"] for c in cols]
    if rng.random() < 0.2:
        cons.append(["unique", rng.sample(names, rng.randint(0, len(names))), rng.choice([None, "uq1", "U Q"]), rng.choice([{}, {"deferrable": True}, {"postgresql_nulls_not_distinct": True}])])
    if rng.random() < 0.2:
        cons.append(["check", rng.choice(["c0 > 0", "c0 like '%a%'", ""]), rng.choice([None, "ck1"])])
    if rng.random() < 0.1:
        cons.append(["pk", rng.sample(names, rng.randint(0, len(names))), rng.choice([None, "pk1"]), rng.choice([{}, {"mssql_clustered": True}, {"mssql_clustered": False}])])
    if rng.random() < 0.25:
        cons.append(["index", rng.choice([None, "ix1", "I X", "i" * 70]), rng.sample(names, rng.randint(0, min(2, len(names)))),
                     rng.choice([{}, {"unique": True}, {"postgresql_using": "gin"}, {"postgresql_where": "c0 > 1"}, {"mysql_length": 5},
                                 {"mysql_length": {"c0": 3}}, {"mssql_include": ["c0"]}, {"mssql_clustered": True}, {"sqlite_where": "c0 > 1"},
                                 {"oracle_bitmap": True}, {"oracle_compress": 1}, {"mysql_prefix": "FULLTEXT"}, {"mysql_using": "hash"},
                                 {"postgresql_include": ["c0"]}, {"postgresql_concurrently": True}, {"postgresql_ops": {"c0": "text_pattern_ops"}},
                                 {"mssql_where": "c0 > 1"}, {"mssql_columnstore": True}, {"postgresql_with": {"fillfactor": 50}},
                                 {"postgresql_tablespace": "ts"}, {"postgresql_nulls_not_distinct": True}, {"mariadb_length": 2}]),
                     rng.choice(["cols", "cols", "expr", "desc", "binary"])])
        # the option values name an existing column (an unknown column name there is a plain KeyError: user error)
        opts = cons[-1][3]
        for k2, v in list(opts.items()):
            if v == ["c0"]:
                opts[k2] = [names[0]]
            elif isinstance(v, dict) and "c0" in v:
                opts[k2] = {names[0]: v["c0"]}
    t["cons"] = cons
    if rng.random() < 0.2:
        t["opts"] = rng.choice([{"mysql_engine": "InnoDB", "mysql_charset": "utf8"}, {"sqlite_with_rowid": False}, {"sqlite_strict": True},
                                {"oracle_compress": True}, {"oracle_compress": 6}, {"postgresql_partition_by": "RANGE (c0)"},
                                {"postgresql_inherits": "p"}, {"postgresql_inherits": ["p", "q"]}, {"postgresql_with_oids": True},
                                {"postgresql_on_commit": "DROP"}, {"postgresql_tablespace": "ts"}, {"mysql_partition_by": "HASH(c0)", "mysql_partitions": "3"},
                                {"sqlite_autoincrement": True}, {"mariadb_engine": "x", "mysql_engine": "y"}, {"mysql_auto_increment": rng.choice(["5", 5])},
                                {"oracle_tablespace": "ts"}, {"postgresql_using": "heap"}, {"mysql_default charset": "x"}, {"prefixes": ["TEMPORARY"]},
                                {"comment": "it's a 100% table"}, {"mysql_comment": "x"}, {"oracle_on_commit": "PRESERVE ROWS"}])
    ops = ["create_table", "create_table", "create_table", "drop_table", "create_index", "drop_index", "add_constraint", "drop_constraint",
           "create_sequence", "drop_sequence", "create_schema", "drop_schema", "set_table_comment", "drop_table_comment",
           "set_column_comment", "drop_column_comment", "create_all", "drop_all", "create_table_as", "create_view", "set_constraint_comment"]
    return ["ddl", rng.choice(ops), t, {"if_exists": rng.random() < 0.3, "cascade": rng.random() < 0.2,
                                         "include_fk": rng.choice([None, True, False])}]


def g_opts(rng):
    o = {}
    r = rng.random()
    if r < 0.25:
        o["literal_binds"] = True
    elif r < 0.4:
        o["render_postcompile"] = True
    if rng.random() < 0.15:
        o["schema_translate_map"] = rng.choice([{"": "tr"}, {"sch": "Other Sch"}, {"sch": ""}, {"": "a", "sch": "b"}, {"nosuch": "x"}])
        if rng.random() < 0.5:
            o["render_schema_translate"] = True
    if rng.random() < 0.05:
        o["for_executemany"] = True
    if rng.random() < 0.05:
        o["construct_params"] = True
    return o


def g_ctegraph(rng):
    """CTEs that select from the base table and from EARLIER CTEs, a main statement that refers to some of them in FROM /
    JOIN / IN-subquery, and add_cte() calls (with and without nest_here) - so that a CTE can be reached indirectly through
    another CTE and directly, in either order"""
    n = rng.randint(2, 4)
    ctes = []
    for k in range(n):
        refs = [j for j in range(k) if rng.random() < 0.6]
        ctes.append({"name": rng.choice(["a", "b", "c", "d", "Mixed N"]) if rng.random() < 0.3 else "c%d" % k, "refs": refs,
                     "kind": rng.choice(["select"] * 5 + ["insert", "update", "delete"]), "nesting": rng.random() < 0.15,
                     "recursive": rng.random() < 0.1})
    main = {"from": [j for j in range(n) if rng.random() < 0.6] or [n - 1], "join": rng.random() < 0.4,
            "in_sub": rng.choice([None, None] + list(range(n))), "sub_add": rng.choice([None, None, [rng.randrange(n), rng.random() < 0.6]]),
            "add": [[rng.sample(range(n), rng.randint(1, n)), rng.random() < 0.5] for _ in range(rng.randint(0, 2))],
            "kind": rng.choice(["select"] * 4 + ["insert_from", "update", "delete"])}
    return ["ctegraph", {"ctes": ctes, "main": main}]


def g_nested_upsert(rng):
    """a dialect upsert (with and without a set_ key that is not a column: legal, warns) that is NOT the outermost statement,
    compiled on its own dialect family"""
    fam = rng.choice(["sqlite", "postgresql", "mysql"])
    t = rng.choice(TABLES)
    ins = {"table": t, "returning": rng.choice([["cols"], ["star"], None]), "cte": None, "inline": False,
           "values": {c[0]: _lit(rng, c[1]) for c in rng.sample(COLS[t], rng.randint(1, 2))}}
    if fam == "mysql":
        ins["on_duplicate"] = rng.choice(["unknown", "unknown", "kw", "inserted", "list_unknown", "list_unknown", "list", "forupdate"])
    else:
        ins["on_conflict"] = [fam, rng.choice(["update", "update", "nothing"]), rng.choice([None, ["id"]]), None,
                              rng.choice(["unknown", "unknown", "excluded", "lit"])]
    inner = ["insert", ins]
    how = rng.random()
    dvs = [k for k in VKEYS if FAMILY(k) == fam or (fam == "mysql" and FAMILY(k) == "mariadb")]
    if how < 0.25:
        return inner, rng.choice(dvs)  # the upsert itself is the statement
    if how < 0.6:
        src = ["select", {"cols": [["lit", 1]] if ins["returning"] is None else [_col(rng, [t])], "from": [["t", t]],
                          "ctes": [[rng.choice(["up", "Up Sert"]), inner, "", ins["returning"] is not None and rng.random() < 0.7]]}]
    else:
        o = rng.choice(TABLES)
        kind = rng.choice(["update", "delete", "insert"])
        d = {"table": o, "returning": None, "cte": ["up", inner, "", True]}
        if kind == "update":
            d.update(where=g_expr(rng, [o], 1, "bool"), values={COLS[o][1][0]: _lit(rng, COLS[o][1][1])})
        elif kind == "delete":
            d.update(where=g_expr(rng, [o], 1, "bool"))
        else:
            d.update(values={COLS[o][0][0]: ["lit", 1]}, inline=False)
        src = [kind, d]
    return src, rng.choice(dvs)


def g_dml_labelref(rng):
    """window functions / WITHIN GROUP whose ORDER BY is a STRING label reference, inside DML values / RETURNING (there is no
    enclosing SELECT to resolve the label against: the documented answer is CompileError)"""
    t = rng.choice(TABLES)
    cs = COLS[t]
    ref = ["labelref", rng.choice([cs[1][0], "x", "r0"])]
    f = ["func", rng.choice(["rank", "row_number", "max", "percentile_cont"]), [] if rng.random() < 0.5 else [_col(rng, [t], "int")]]
    if rng.random() < 0.6:
        e = ["over", f, [], [["ord", rng.choice(["", "desc", "asc", "nulls_last"]), ref]], None]
    else:
        e = ["within_group", f, [ref]]
    kind = rng.choice(["update", "update", "delete", "insert"])
    d = {"table": t, "cte": None, "returning": rng.choice([None, ["exprs", [e]]])}
    if kind == "update":
        d.update(where=None, values={cs[1][0]: e} if d["returning"] is None or rng.random() < 0.5 else {cs[1][0]: _lit(rng, cs[1][1])})
    elif kind == "delete":
        d.update(where=g_expr(rng, [t], 1, "bool"), returning=["exprs", [e]])
    else:
        d.update(values={cs[1][0]: e} if rng.random() < 0.5 else {cs[0][0]: ["lit", 1]}, inline=False, returning=["exprs", [e]])
    return [kind, d]


def g_executemany_insert(rng):
    """INSERT compiled the way Connection.execute(stmt, [list of dicts]) compiles it (for_executemany: insertmanyvalues), with
    column_keys, mostly on the positional / numeric paramstyle variants, on tables whose column names need bind-name escaping"""
    t = rng.choice(["t4", "t4", "t1", "t3"])
    cs = COLS[t]
    keys = [c[0] for c in rng.sample(cs, rng.randint(1, len(cs)))]
    ins = {"table": t, "returning": rng.choice([None, ["cols"], ["cols"], ["star"]]), "cte": None, "inline": rng.random() < 0.15}
    if rng.random() < 0.3:
        ins["values"] = {k: ["bp", k, None, "required"] for k in keys[:2]}
    dv = rng.choice([k for k in VKEYS if "numeric" in k or "asyncpg" in k] * 3 + VKEYS)
    opts = {"for_executemany": True, "column_keys": keys}
    if rng.random() < 0.2:
        opts["render_postcompile"] = True
    return ["insert", ins], dv, opts


def gen(rng, n):
    cases = []
    for i in range(n):
        r = rng.random()
        if r < 0.03:
            src, dv, opts = g_executemany_insert(rng)
            cases.append({"in": [9, i], "kind": "fuzz", "model": False, "src": src, "dv": dv, "opts": opts})
            continue
        r = rng.random()
        if r < 0.035:
            src, dv = g_nested_upsert(rng)
            cases.append({"in": [9, i], "kind": "fuzz", "model": False, "src": src, "dv": dv, "opts": g_opts(rng)})
            continue
        if r < 0.07:
            src = g_dml_labelref(rng)
        elif r < 0.17:
            src = g_ctegraph(rng)
        elif r < 0.5:
            src = g_select(rng, rng.randint(0, 3))
        elif r < 0.75:
            src = g_dml(rng, rng.randint(0, 2))
        else:
            src = g_ddl(rng)
        cases.append({"in": [9, i], "kind": "fuzz", "model": False, "src": src, "dv": rng.choice(VKEYS), "opts": g_opts(rng)})
    return cases


def nontrivial(c):
    import json

    return json.dumps(c.get("src")).count("[") >= 6


# ----------------------------------------------------------------------------------------------- building
class NotAccepted(Exception):
    pass


_vcache = {}


def dialect_variant(k):
    if k not in _vcache:
        from specs.c22 import _resolve

        q, kw, attrs = VARIANTS[k]
        d = _resolve(q)(**kw)
        for a, v in attrs.items():
            if a == "_vsetup":
                continue
            setattr(d, a, tuple(v) if isinstance(v, list) else v)
        if attrs.get("_vsetup"):
            d._setup_version_attributes()
        _vcache[k] = d
    return _vcache[k]


class B:
    """builder of one recipe against fresh metadata"""

    def __init__(self):
        import sqlalchemy as sa

        self.sa = sa
        m = self.m = sa.MetaData()
        self.T = {
            "t1": sa.Table("t1", m, sa.Column("id", sa.Integer, primary_key=True), sa.Column("x", sa.Integer), sa.Column("s", sa.String(30)),
                           sa.Column("d", sa.DateTime), sa.Column("b", sa.Boolean), sa.Column("n", sa.Numeric(10, 2)), sa.Column("j", sa.JSON)),
            "t2": sa.Table("t2", m, sa.Column("id", sa.Integer, primary_key=True), sa.Column("t1_id", sa.ForeignKey("t1.id")),
                           sa.Column("y", sa.Integer), sa.Column("name", sa.String(20))),
            "t3": sa.Table("t3", m, sa.Column("id", sa.Integer, primary_key=True), sa.Column("z", sa.Integer), sa.Column("w", sa.Text), schema="sch"),
            "t4": sa.Table("t4", m, sa.Column("id", sa.Integer, primary_key=True), sa.Column("select", sa.Integer),
                           sa.Column("Mixed Case", sa.String), sa.Column("with space", sa.Integer), sa.Column("a.b", sa.Integer),
                           sa.Column("amount (usd)", sa.Integer)),
        }
        self.F = {}

    # ---- from objects
    def table(self, key):
        if key in self.F:
            return self.F[key]
        if key in self.T:
            return self.T[key]
        base = _base(key)
        if base in self.T and (key.endswith("#a") or key.endswith("#ts")):
            return self.F.get(key, self.T[base])
        raise NotAccepted("unknown from %r" % key)

    def col(self, t, c):
        tb = self.table(t)
        try:
            return tb.c[c]
        except KeyError:
            cs = list(tb.c)
            if not cs:
                raise NotAccepted("no columns")
            return cs[0]

    def frm(self, r):
        sa = self.sa
        k = r[0]
        if k == "t":
            return self.T[r[1]]
        if k == "alias":
            a = self.T[r[1]].alias(r[2])
            self.F[r[1] + "#a"] = a
            return a
        if k == "join":
            l, rt = self.frm(r[1]), self.frm(r[2])
            on = r[3]
            kw = {"isouter": r[4] == "left", "full": r[4] == "full"}
            if on is None:
                return sa.join(l, rt, sa.true(), **kw)
            if on == "auto":
                return sa.join(l, rt, **kw)
            return sa.join(l, rt, self.e(on), **kw)
        if k == "subquery":
            s = self.sel(r[1])
            sq = s.lateral(r[2]) if r[3] == "lateral" else s.subquery(r[2])
            self.F["#sq"] = sq
            return sq
        if k == "values":
            v = sa.values(*[sa.column(n, {"int": sa.Integer, "str": sa.String}[t]) for n, t in r[1]], name=r[3], literal_binds=r[4]).data(
                [tuple(x) for x in r[2]])
            self.F["#values"] = v
            return v
        if k == "tablesample":
            ts = sa.tablesample(self.T[r[1]], r[2], name="ts", seed=None if r[3] is None else sa.literal(r[3]))
            self.F[r[1] + "#ts"] = ts
            return ts
        if k == "tvf":
            f = getattr(sa.func, r[1])(1, 5)
            tv = f.table_valued("value", name=r[2], with_ordinality="ord" if r[3] else None)
            self.F["#tvf"] = tv
            return tv
        raise NotAccepted("from %r" % (r,))

    # ---- types
    def ty(self, r):
        sa = self.sa
        from sqlalchemy import types as T
        from sqlalchemy.dialects import mssql, mysql, oracle, postgresql, sqlite

        n, a = r[0], r[1:]
        if n == "Boolean":
            return T.Boolean(create_constraint=bool(a))
        if n in ("DateTime", "Time", "TIMESTAMP"):
            return getattr(T, n)(timezone=bool(a))
        if n == "String" and len(a) == 2:
            return T.String(a[0], collation=a[1])
        if n == "Enum":
            kw = {}
            if "constraint" in a:
                kw["create_constraint"] = True
            if "nonnative" in a:
                kw["native_enum"] = False
            return T.Enum(*a[0], name="en", **kw)
        if n == "ARRAY":
            return T.ARRAY(self.ty(a[0]), dimensions=a[1] if len(a) > 1 else None)
        if n == "Uuid":
            return T.Uuid(native_uuid=bool(a))
        if n == "TupleType":
            return T.TupleType(T.Integer(), T.String())
        if n == "variant":
            return T.String(10).with_variant(mysql.VARCHAR(10, charset="utf8"), "mysql", "mariadb").with_variant(oracle.NUMBER(3), "oracle")
        if n == "decorator":
            class D(T.TypeDecorator):
                impl = T.String
                cache_ok = True

            return D(5)
        if n == "userdef":
            class U(T.UserDefinedType):
                cache_ok = True

                def get_col_spec(self, **kw):
                    return "UDT"

            return U()
        mods = {"pg": postgresql, "my": mysql, "ms": mssql, "ora": oracle, "lite": sqlite}
        if "." in n:
            m, cn = n.split(".")
            cls = getattr(mods[m], cn)
            if n == "pg.ENUM":
                return cls("a", "b", name="pgen")
            if n == "pg.ARRAY":
                return cls(T.Integer)
            if n == "pg.DOMAIN":
                return cls("dom", T.Integer, check="VALUE > 0")
            if n == "my.SET":
                return cls("a", "b")
            if n == "my.ENUM":
                return cls("a", "b")
            if n == "my.VARCHAR":
                return cls(10, national=True)
            if n == "pg.INTERVAL":
                return cls(fields="YEAR", precision=2)
            if n == "ora.INTERVAL":
                return cls(day_precision=2, second_precision=3)
            return cls(*a)
        return getattr(T, n)(*a)

    # ---- expressions
    def e(self, r):
        sa = self.sa
        if not isinstance(r, list):
            return sa.literal(r)
        k = r[0]
        if k == "c":
            return self.col(r[1], r[2])
        if k == "lit":
            return sa.literal(r[1]) if r[1] is not None else sa.null()
        if k == "bp":
            kw = {}
            if r[3] == "expanding":
                kw["expanding"] = True
                v = r[2] if isinstance(r[2], list) else [r[2]]
                return sa.bindparam(r[1], v, **kw)
            if r[3] == "literal_execute":
                kw["literal_execute"] = True
            if r[3] == "required":
                return sa.bindparam(r[1])
            return sa.bindparam(r[1], r[2], **kw)
        if k == "null":
            return sa.null()
        if k in ("true", "false"):
            return getattr(sa, k)()
        if k == "lc":
            return sa.literal_column(r[1])
        if k == "text":
            return sa.text(r[1])
        if k == "cmp":
            a, b = self.e(r[2]), self.e(r[3])
            if r[1] in ("is_distinct_from", "is_not_distinct_from"):
                return getattr(a, r[1])(b)
            import operator as op

            return {"==": op.eq, "!=": op.ne, "<": op.lt, "<=": op.le, ">": op.gt, ">=": op.ge}[r[1]](a, b)
        if k in ("and", "or"):
            return (sa.and_ if k == "and" else sa.or_)(*[self.e(x) for x in r[1]])
        if k == "not":
            return sa.not_(self.e(r[1]))
        if k == "strop":
            a, b = self.e(r[2]), self.e(r[3])
            kw = {}
            if r[4] == "/" and r[1] not in ("regexp_match", "match"):
                kw["escape"] = "/"
            if r[4] == "autoescape" and r[1] in ("contains", "startswith", "endswith", "icontains", "istartswith"):
                if r[3][0] != "lit" or not isinstance(r[3][1], str):
                    raise NotAccepted("autoescape needs a plain string")
                b = r[3][1]
                kw["autoescape"] = True
            if r[4] == "flags" and r[1] == "regexp_match":
                kw["flags"] = "i"
            return getattr(a, r[1])(b, **kw)
        if k == "in":
            a = self.e(r[2])
            rhs = r[3]
            if rhs[0] == "list":
                v = [self.e(x) for x in rhs[1]]
            elif rhs[0] == "subq":
                v = self.sel(rhs[1])
            else:
                v = self.e(rhs)
            return a.in_(v) if r[1] else a.not_in(v)
        if k == "between":
            return self.e(r[1]).between(self.e(r[2]), self.e(r[3]), symmetric=r[4])
        if k == "isnull":
            return self.e(r[2]).is_(None) if r[1] else self.e(r[2]).is_not(None)
        if k == "exists":
            return self.sel(r[1]).exists()
        if k == "tuple_in":
            return sa.tuple_(*[self.e(x) for x in r[1]]).in_([tuple(self.e(y) for y in x) for x in r[2]])
        if k == "anyall":
            return self.e(r[2]) == getattr(sa, r[1])(self.sel(r[3][1]).scalar_subquery())
        if k == "arith":
            a, b = self.e(r[2]), self.e(r[3])
            import operator as op

            if r[1] == "concat":
                return a.concat(b)
            if r[1] in ("&", "|", "^", "<<", ">>"):
                return getattr(a, {"&": "bitwise_and", "|": "bitwise_or", "^": "bitwise_xor", "<<": "bitwise_lshift", ">>": "bitwise_rshift"}[r[1]])(b)
            return {"+": op.add, "-": op.sub, "*": op.mul, "/": op.truediv, "//": op.floordiv, "%": op.mod}[r[1]](a, b)
        if k == "un":
            a = self.e(r[2])
            return -a if r[1] == "-" else (a.bitwise_not() if r[1] == "~" else a.distinct())
        if k == "func":
            if r[1] == "next_value_seq":
                return sa.Sequence("sq1").next_value()
            f = sa.func
            for p in r[1].split("."):
                f = getattr(f, p)
            return f(*[self.e(x) for x in r[2]])
        if k == "over":
            f = self.e(r[1])
            kw = {}
            if r[4]:
                kw["range_" if r[4][0] == "range" else r[4][0]] = (r[4][1], r[4][2])
            return f.over(partition_by=[self.e(x) for x in r[2]] or None, order_by=[self.ordr(x) for x in r[3]] or None, **kw)
        if k == "filter":
            return self.e(r[1]).filter(self.e(r[2]))
        if k == "within_group":
            return self.e(r[1]).within_group(*[self.e(x) for x in r[2]])
        if k == "agg_order_by":
            f = self.e(r[1])
            if not hasattr(f, "aggregate_order_by"):
                raise NotAccepted("no aggregate_order_by")
            return f.aggregate_order_by(*[self.e(x) for x in r[2]])
        if k == "case":
            whens = [(self.e(c), self.e(v)) for c, v in r[1]]
            kw = {} if r[2] is None else {"else_": self.e(r[2])}
            if r[3]:
                return sa.case({1: whens[0][1]}, value=self.T["t1"].c.x, **kw)
            return sa.case(*whens, **kw)
        if k in ("cast", "try_cast", "type_coerce"):
            return getattr(sa, k)(self.e(r[1]), self.ty(r[2]))
        if k == "extract":
            return sa.extract(r[1], self.e(r[2]))
        if k == "scalar":
            return self.sel(r[1]).scalar_subquery()
        if k == "collate":
            return self.e(r[1]).collate(r[2])
        if k == "customop":
            a, b = self.e(r[2]), self.e(r[3])
            if r[4] == "bool":
                return a.bool_op(r[1])(b)
            if r[4] == "prec":
                return a.op(r[1], precedence=5, is_comparison=True)(b)
            return a.op(r[1])(b)
        if k == "getitem":
            x = self.e(r[1])[tuple(r[2]) if isinstance(r[2], list) else r[2]]
            return getattr(x, r[3])() if r[3] else x
        if k == "label":
            return self.e(r[1]).label(r[2])
        if k == "labelref":
            return r[1]
        raise NotAccepted("expr %r" % (r,))

    def ordr(self, r):
        x = self.e(r[2])
        if isinstance(x, str):
            return {"": lambda s: s, "desc": self.sa.desc, "asc": self.sa.asc, "nulls_first": self.sa.nulls_first, "nulls_last": self.sa.nulls_last}[r[1]](x)
        return getattr(x, r[1])() if r[1] else x

    # ---- statements
    def sel(self, r):
        sa = self.sa
        if r[0] == "setop":
            parts = [self.sel(x) for x in r[2]]
            s = getattr(sa, r[1])(*parts)
            o = r[3]
            if o.get("order_by"):
                s = s.order_by(sa.literal_column("1"))
            if o.get("limit") is not None:
                s = s.limit(o["limit"])
            if o.get("offset") is not None:
                s = s.offset(o["offset"])
            if o.get("subq"):
                s = sa.select(s.subquery("u"))
            return s
        d = r[1]
        froms = [self.frm(x) for x in d["from"]]
        ctes = []
        for name, q, mode, use in d.get("ctes", []):
            qq = self.dml(q) if q[0] in ("insert", "update", "delete") else self.sel(q)
            c = qq.cte(name, recursive=mode == "recursive", nesting=mode == "nesting")
            if mode in ("materialized", "not_materialized"):
                c = c.prefix_with(mode.upper().replace("_", " "))
            if mode == "recursive":
                c = c.union_all(sa.select(*[col for col in c.c]).where(list(c.c)[0] < 5))
            ctes.append((c, use))
        cols = [self.e(x) for x in d["cols"]]
        s = sa.select(*cols).select_from(*froms)
        for c, use in ctes:
            if use and len(list(c.c)):
                s = s.where(list(c.c)[0] == 1)
            else:
                s = s.add_cte(c)
        if d.get("where") is not None:
            s = s.where(self.e(d["where"]))
        if "group_by" in d:
            s = s.group_by(*[self.e(x) for x in d["group_by"]])
        if "having" in d:
            s = s.having(self.e(d["having"]))
        if "order_by" in d:
            s = s.order_by(*[self.ordr(x) for x in d["order_by"]])
        if "limit" in d:
            s = s.limit(self.e(d["limit"]) if isinstance(d["limit"], list) else d["limit"])
        if "offset" in d:
            s = s.offset(self.e(d["offset"]) if isinstance(d["offset"], list) else d["offset"])
        if "fetch" in d:
            f = d["fetch"]
            s = s.fetch(self.e(f[0]) if isinstance(f[0], list) else f[0], with_ties=f[1], percent=f[2])
        if "distinct" in d:
            s = s.distinct() if d["distinct"] is True else s.distinct(*[self.e(x) for x in d["distinct"]])
        if "for_update" in d:
            fu = dict(d["for_update"])
            if "of" in fu:
                fu["of"] = self.T[fu["of"][1]] if fu["of"][0] == "t" else self.e(fu["of"])
            s = s.with_for_update(**fu)
        if "prefix" in d:
            s = s.prefix_with(d["prefix"][0], dialect=d["prefix"][1] or "*")
        if "suffix" in d:
            s = s.suffix_with(d["suffix"][0], dialect=d["suffix"][1] or "*")
        if "hint" in d:
            h = d["hint"]
            s = s.with_statement_hint(h[1], h[2]) if h[0] == "stmt" else s.with_hint(froms[0], h[1], h[2])
        if "label_style" in d:
            s = s.set_label_style({"none": sa.LABEL_STYLE_NONE, "tablename_plus_col": sa.LABEL_STYLE_TABLENAME_PLUS_COL,
                                   "disambiguate": sa.LABEL_STYLE_DISAMBIGUATE_ONLY, "legacy_orm": sa.sql.selectable.SelectLabelStyle.LABEL_STYLE_LEGACY_ORM}[d["label_style"]])
        return s

    def returning(self, st, t, ret):
        if ret is None:
            return st
        if ret == []:
            return st
        if ret == ["cols"]:
            return st.returning(list(t.c)[0], list(t.c)[-1])
        if ret == ["star"]:
            return st.returning(t)
        if ret[0] == "exprs":
            return st.returning(*[self.e(x).label("r%d" % i) for i, x in enumerate(ret[1])])
        return st.returning((list(t.c)[0] + 1).label("e"), self.sa.func.lower(self.sa.literal("X")))

    def add_cte(self, st, cte):
        if cte is None:
            return st
        name, q, mode, _ = cte
        c = (self.dml(q) if q[0] in ("insert", "update", "delete") else self.sel(q)).cte(name, recursive=mode == "recursive")
        return st.add_cte(c)

    def dml(self, r):
        sa = self.sa
        k, d = r
        t = self.T[d["table"]]
        if k == "insert":
            oc, od = d.get("on_conflict"), d.get("on_duplicate")
            if oc:
                from sqlalchemy.dialects import postgresql, sqlite

                st = {"sqlite": sqlite, "postgresql": postgresql}[oc[0]].insert(t)
            elif od:
                from sqlalchemy.dialects import mysql

                st = mysql.insert(t)
            else:
                st = sa.insert(t)
            if "values" in d:
                st = st.values({k2: self.e(v) for k2, v in d["values"].items()})
            elif "multi" in d:
                st = st.values([{k2: self.e(v) for k2, v in row.items()} for row in d["multi"]])
            elif "from_select" in d:
                fs = d["from_select"]
                st = st.from_select(fs[0], self.sel(fs[1]), include_defaults=fs[2])
            if d.get("inline"):
                st = st.inline()
            if oc:
                target = {"index_elements": oc[2]} if oc[2] and oc[2] != ["cons"] else ({"constraint": "uq_x"} if oc[2] == ["cons"] and oc[0] == "postgresql" else {})
                if oc[1] == "nothing":
                    st = st.on_conflict_do_nothing(**({k2: v for k2, v in target.items()}))
                else:
                    if not target:
                        target = {"index_elements": ["id"]}
                    c1 = list(t.c)[1]
                    set_ = {"excluded": {c1.name: st.excluded[c1.name]}, "lit": {c1.name: 5}, "empty": {},
                            "unknown": {c1.name: 5, "legacy_col": 7}}[oc[4]]
                    st = st.on_conflict_do_update(set_=set_, where=None if oc[3] is None else self.e(oc[3]), **target)
            if od:
                c1 = list(t.c)[1]
                if od == "kw":
                    st = st.on_duplicate_key_update(**{c1.name: 5} if c1.name.isidentifier() else {})
                elif od == "inserted":
                    st = st.on_duplicate_key_update({c1.name: st.inserted[c1.name]})
                elif od == "list":
                    st = st.on_duplicate_key_update([(c1.name, 5), (list(t.c)[0].name, sa.func.now())])
                elif od == "unknown":
                    st = st.on_duplicate_key_update({c1.name: 5, "legacy_col": 7})
                elif od == "list_unknown":
                    st = st.on_duplicate_key_update([("legacy_col", 7), (c1.name, 5)])
                elif od == "forupdate":
                    o = self.T["t2" if t.name != "t2" else "t1"]
                    st = st.on_duplicate_key_update({c1.name: sa.select(list(o.c)[0]).where(list(o.c)[0] == 1).with_for_update(of=o).scalar_subquery()})
                else:
                    st = st.on_duplicate_key_update({})
            if d.get("prefix"):
                st = st.prefix_with(d["prefix"])
        elif k == "update":
            st = sa.update(t)
            if d.get("where") is not None:
                st = st.where(self.e(d["where"]))
            vals = {}
            for k2, v in d["values"].items():
                if "." in k2:
                    tn, cn = k2.split(".", 1)
                    vals[self.T[tn].c[cn]] = self.e(v)
                else:
                    vals[k2] = self.e(v)
            if "scalar_set" in d:
                vals[list(t.c)[1].name] = self.e(d["scalar_set"])
            if d.get("ordered"):
                st = st.ordered_values(*[(k2, v) for k2, v in vals.items()])
            else:
                st = st.values(vals)
            if "mysql_limit" in d:
                st = st.with_dialect_options(mysql_limit=d["mysql_limit"])
        else:
            st = sa.delete(t)
            if d.get("where") is not None:
                st = st.where(self.e(d["where"]))
            if "mysql_limit" in d:
                st = st.with_dialect_options(mysql_limit=d["mysql_limit"])
        st = self.returning(st, t, d.get("returning"))
        st = self.add_cte(st, d.get("cte"))
        return st

    def ddl(self, r):
        sa = self.sa
        from sqlalchemy import schema as S

        _, op, td, o = r
        m = sa.MetaData()
        sa.Table("other", m, sa.Column("id", sa.Integer, primary_key=True), sa.Column("Mixed Case", sa.Integer))
        sa.Table("other", m, sa.Column("id", sa.Integer, primary_key=True), schema="sch")
        cols = []
        for c in td["cols"]:
            args, kw = [], {}
            if "fk" in c:
                args.append(sa.ForeignKey(c["fk"][0], **c["fk"][1]))
            if "identity" in c:
                args.append(sa.Identity(**c["identity"]))
            if "computed" in c:
                args.append(sa.Computed(c["computed"][0], persisted=c["computed"][1]))
            if "sequence" in c:
                args.append(sa.Sequence(c["sequence"][0], **c["sequence"][1]))
            if "server_default" in c:
                sd = c["server_default"]
                kw["server_default"] = {"text": lambda v: sa.text(v), "func": lambda v: sa.func.now(), "str": lambda v: v, "lit": lambda v: sa.literal(v),
                                        "bool": lambda v: sa.true()}[sd[0]](sd[1])
            if "default" in c:
                kw["default"] = sa.func.now() if isinstance(c["default"], list) else c["default"]
            for f in ("nullable", "comment", "unique", "index", "autoincrement"):
                if f in c:
                    kw[f] = c[f]
            if c.get("pk"):
                kw["primary_key"] = True
            cols.append(sa.Column(c["name"], self.ty(c["type"]), *args, **kw))
        topts = dict(td.get("opts", {}))
        tkw = {}
        if "prefixes" in topts:
            tkw["prefixes"] = topts.pop("prefixes")
        if "comment" in topts:
            tkw["comment"] = topts.pop("comment")
        t = sa.Table(td["name"], m, *cols, schema=td.get("schema"), **tkw, **topts)
        target = None
        ix = None
        for cn in td.get("cons", []):
            if cn[0] == "unique":
                target = sa.UniqueConstraint(*cn[1], name=cn[2], **cn[3])
                t.append_constraint(target)
            elif cn[0] == "check":
                target = sa.CheckConstraint(cn[1], name=cn[2])
                t.append_constraint(target)
            elif cn[0] == "pk":
                target = sa.PrimaryKeyConstraint(*cn[1], name=cn[2], **cn[3])
                t.append_constraint(target)
            elif cn[0] == "index":
                how = cn[4]
                if how == "expr" and cn[2]:
                    exprs = [sa.func.lower(t.c[cn[2][0]])]
                elif how == "desc" and cn[2]:
                    exprs = [t.c[cn[2][0]].desc()]
                elif how == "binary" and cn[2]:
                    exprs = [t.c[cn[2][0]] + 1]
                else:
                    exprs = [t.c[x] for x in cn[2]]
                ix = sa.Index(cn[1], *exprs, **cn[3])
                if not cn[2]:
                    ix._set_parent(t) if False else None
        if op == "create_table":
            return S.CreateTable(t, if_not_exists=o["if_exists"], include_foreign_key_constraints=None if o["include_fk"] is None else ([] if not o["include_fk"] else None))
        if op == "drop_table":
            return S.DropTable(t, if_exists=o["if_exists"])
        if op in ("create_index", "drop_index"):
            if ix is None:
                ix = sa.Index("ixd", list(t.c)[0])
            return S.CreateIndex(ix, if_not_exists=o["if_exists"]) if op == "create_index" else S.DropIndex(ix, if_exists=o["if_exists"])
        if op in ("add_constraint", "drop_constraint", "set_constraint_comment"):
            if target is None:
                fks = list(t.foreign_key_constraints)
                target = fks[0] if fks else t.primary_key
            if op == "add_constraint":
                return S.AddConstraint(target)
            if op == "drop_constraint":
                return S.DropConstraint(target, cascade=o["cascade"], if_exists=o["if_exists"])
            target.comment = "cc"
            return S.SetConstraintComment(target)
        if op in ("create_sequence", "drop_sequence"):
            sq = sa.Sequence("Se q" if o["cascade"] else "sq", start=3, increment=2, minvalue=1, cycle=True, schema=td.get("schema"), metadata=m)
            return S.CreateSequence(sq, if_not_exists=o["if_exists"]) if op == "create_sequence" else S.DropSequence(sq, if_exists=o["if_exists"])
        if op == "create_schema":
            return S.CreateSchema(td.get("schema") or "sch x", if_not_exists=o["if_exists"])
        if op == "drop_schema":
            return S.DropSchema(td.get("schema") or "sch x", cascade=o["cascade"], if_exists=o["if_exists"])
        if op == "set_table_comment":
            t.comment = "it's"
            return S.SetTableComment(t)
        if op == "drop_table_comment":
            return S.DropTableComment(t)
        if op in ("set_column_comment", "drop_column_comment"):
            c0 = list(t.c)[0]
            c0.comment = "c'c"
            return S.SetColumnComment(c0) if op == "set_column_comment" else S.DropColumnComment(c0)
        if op == "create_table_as":
            if not hasattr(S, "CreateTableAs"):
                raise NotAccepted("no CreateTableAs")
            return S.CreateTableAs(sa.select(self.T["t1"].c.id, self.T["t1"].c.s).where(self.T["t1"].c.x > 5), td["name"], schema=td.get("schema"),
                                   temporary=o["cascade"], if_not_exists=o["if_exists"])
        if op == "create_view":
            if not hasattr(S, "CreateView"):
                raise NotAccepted("no CreateView")
            return S.CreateView(sa.select(self.T["t1"].c.id, self.T["t1"].c.s).where(self.T["t1"].c.x > 5), td["name"], schema=td.get("schema"),
                                or_replace=o["cascade"])
        if op in ("create_all", "drop_all"):
            return ("metadata", m, op)
        raise NotAccepted(op)

    def ctegraph(self, r):
        sa = self.sa
        d = r[1]
        t = self.T["t1"]
        built = []
        for cd in d["ctes"]:
            refs = [built[j] for j in cd["refs"]]
            if cd["kind"] == "select":
                q = sa.select(t.c.id, t.c.x).where(t.c.x > 5)
                for rc in refs:
                    q = q.where(t.c.id.in_(sa.select(list(rc.c)[0]))) if len(refs) > 1 else sa.select(list(rc.c)[0].label("id"), list(rc.c)[-1].label("x"))
            elif cd["kind"] == "insert":
                q = sa.insert(t).values(id=1, x=2).returning(t.c.id, t.c.x)
                if refs:
                    q = sa.insert(t).from_select(["id", "x"], sa.select(list(refs[0].c)[0], list(refs[0].c)[-1])).returning(t.c.id, t.c.x)
            elif cd["kind"] == "update":
                q = sa.update(t).values(x=7).returning(t.c.id, t.c.x)
                for rc in refs:
                    q = q.where(t.c.id.in_(sa.select(list(rc.c)[0])))
            else:
                q = sa.delete(t).returning(t.c.id, t.c.x)
                for rc in refs:
                    q = q.where(t.c.id.in_(sa.select(list(rc.c)[0])))
            c = q.cte(cd["name"], nesting=cd["nesting"], recursive=cd["recursive"] and cd["kind"] == "select")
            if cd["recursive"] and cd["kind"] == "select":
                c = c.union_all(sa.select(*list(c.c)).where(list(c.c)[0] < 5))
            built.append(c)
        m = d["main"]
        fr = [built[j] for j in m["from"]]
        if m["kind"] == "select" or m["kind"] == "insert_from":
            if m["join"] and len(fr) > 1:
                s = sa.select(list(fr[0].c)[0], list(fr[1].c)[-1]).join_from(fr[0], fr[1], list(fr[0].c)[0] == list(fr[1].c)[0])
            else:
                s = sa.select(*[list(f.c)[-1] for f in fr])
        elif m["kind"] == "update":
            s = sa.update(t).values(x=1).where(t.c.id.in_(sa.select(list(fr[0].c)[0])))
        else:
            s = sa.delete(t).where(t.c.id.in_(sa.select(list(fr[0].c)[0])))
        if m["in_sub"] is not None:
            sub = sa.select(list(built[m["in_sub"]].c)[0])
            if m["sub_add"]:
                sub = sub.add_cte(built[m["sub_add"][0]], nest_here=m["sub_add"][1])
            s = s.where(t.c.id.in_(sub)) if m["kind"] in ("update", "delete") else s.where(list(fr[0].c)[0].in_(sub))
        for idxs, nest in m["add"]:
            s = s.add_cte(*[built[j] for j in idxs], nest_here=nest)
        if m["kind"] == "insert_from":
            s = sa.insert(self.T["t2"]).from_select(["id", "y"][: len(list(s.selected_columns))], s)
        return s

    def build(self, r):
        if r[0] == "ctegraph":
            return self.ctegraph(r)
        if r[0] in ("select", "setop"):
            return self.sel(r)
        if r[0] in ("insert", "update", "delete"):
            return self.dml(r)
        if r[0] == "ddl":
            return self.ddl(r)
        if r[0] == "raw":  # hand-written witnesses: a python expression over sqlalchemy names
            import sqlalchemy as sa

            ns = {"sa": sa}
            exec("from sqlalchemy import *\nfrom sqlalchemy.schema import *\nfrom sqlalchemy.sql import operators, elements\nimport pickle", ns)
            return eval(r[1], ns)
        raise NotAccepted("stmt %r" % (r[0],))


def _compile(st, d, opts):
    from sqlalchemy import exc  # noqa

    if isinstance(st, tuple) and st[0] == "metadata":
        # create_all / drop_all against a mock connection that compiles every emitted DDL element
        from sqlalchemy import create_mock_engine  # noqa

        out = []

        def ex(sql, *a, **k):
            out.append(str(sql.compile(dialect=d)))

        from sqlalchemy.engine.mock import MockConnection

        mc = MockConnection(d, ex)
        (st[1].create_all if st[2] == "create_all" else st[1].drop_all)(mc, checkfirst=False)
        return "\n".join(out)
    kw = {}
    ck = {}
    if opts.get("literal_binds"):
        ck["literal_binds"] = True
    if opts.get("render_postcompile"):
        ck["render_postcompile"] = True
    if ck:
        kw["compile_kwargs"] = ck
    if "schema_translate_map" in opts:
        kw["schema_translate_map"] = {(k or None): (v or None) for k, v in opts["schema_translate_map"].items()}
        if opts.get("render_schema_translate"):
            kw["render_schema_translate"] = True
    if opts.get("for_executemany") and getattr(st, "is_dml", False):
        kw["for_executemany"] = True
    if opts.get("column_keys") is not None and getattr(st, "is_dml", False):
        kw["column_keys"] = list(opts["column_keys"])
    c = st.compile(dialect=d, **kw)
    s = str(c)
    if opts.get("construct_params") and hasattr(c, "construct_params"):
        try:
            c.construct_params()
        except Exception as e:  # missing values for required binds are documented errors
            from sqlalchemy import exc as _e

            if not isinstance(e, _e.SQLAlchemyError):
                raise
    return s


def impl(c):
    """observation: [-1] not accepted by the constructors | [0] compiled | [code, exception class name, first line]"""
    from specs.c22 import classify

    try:
        d = dialect_variant(c["dv"])
        st = B().build(c["src"])
    except Exception:
        return [-1]
    try:
        _compile(st, d, c.get("opts", {}))
    except RecursionError:
        return [-1]
    except Exception as e:
        import traceback

        tb = traceback.extract_tb(e.__traceback__)
        where = "%s:%s" % (tb[-1].filename.split("/lib/sqlalchemy/")[-1], tb[-1].name) if tb else ""
        return [classify(e), type(e).__name__, str(e).split("\n")[0][:160], where]
    return [0]


def oracle(c, obs):
    if not obs or obs[0] in (-1, 0, 1, 2):
        return None
    return "compile() raised %s (%s) at %s on dialect variant %s with options %r" % (obs[1], obs[2], obs[3], c["dv"], c.get("opts", {}))


# ----------------------------------------------------------------------------------------------- known findings
def _has(src, pred):
    if pred(src):
        return True
    if isinstance(src, list):
        return any(_has(x, pred) for x in src)
    if isinstance(src, dict):
        return any(_has(x, pred) for x in src.values()) or any(pred(k) for k in src)
    return False


def _sig(what):
    import re

    m = re.match(r"compile\(\) raised (\w+) \((.*)\) at (\S*) on dialect variant (\S+) with options", what, re.S)
    return {"exc": m.group(1), "msg": m.group(2), "where": m.group(3), "dv": m.group(4)} if m else {"exc": "", "msg": "", "where": "", "dv": ""}


def _strings(src):
    out = []

    def go(x):
        if isinstance(x, str):
            out.append(x)
        elif isinstance(x, list):
            for y in x:
                go(y)
        elif isinstance(x, dict):
            for k, v in x.items():
                go(k)
                go(v)

    go(src)
    return out


def _ddl(c):
    s = c["src"]
    return s if isinstance(s, list) and s and s[0] == "ddl" else None


def _indexes(c):
    d = _ddl(c)
    return [x for x in d[2].get("cons", []) if x[0] == "index"] if d else []


_PREFIX_FAMILY = {"pg": "postgresql", "my": "mysql", "ms": "mssql", "ora": "oracle", "lite": "sqlite"}


def _foreign_type(c):
    fam = FAMILY(c["dv"])
    fam = "mysql" if fam == "mariadb" else fam
    for st in _strings(c["src"]):
        if "." in st and st.split(".")[0] in _PREFIX_FAMILY and st.split(".")[1].isupper() and _PREFIX_FAMILY[st.split(".")[0]] != fam:
            return True
    return False


def _m_empty_ident(c, w):
    g = _sig(w)
    return g["exc"] == "IndexError" and g["where"].endswith("_requires_quotes") and "" in _strings(c["src"])


def _m_unnamed_index(c, w):
    g = _sig(w)
    fam = "mysql" if FAMILY(c["dv"]) == "mariadb" else FAMILY(c["dv"])
    op = _ddl(c)[1] if _ddl(c) is not None else None
    missing = {"create_index": {"sqlite", "postgresql", "mysql", "mssql", "oracle"}, "drop_index": {"postgresql", "mysql", "mssql"}}
    missing["create_all"], missing["drop_all"] = missing["create_index"], missing["drop_index"]
    return (g["exc"] == "AssertionError" and g["where"].endswith("format_constraint") and op in missing and fam in missing[op]
            and any(x[1] is None for x in _indexes(c)))


def _m_unnamed_constraint(c, w):
    g = _sig(w)
    return (g["exc"] == "AssertionError" and g["where"].endswith("format_constraint") and _ddl(c) is not None
            and _ddl(c)[1] == "drop_constraint" and FAMILY(c["dv"]) in ("mysql", "mariadb"))


def _m_escaped_bind(c, w):
    import re

    g = _sig(w)
    if g["exc"] != "KeyError" or not g["where"].endswith(("_process_parameters_for_postcompile", "process_expanding")):
        return False
    return _has(c["src"], lambda x: isinstance(x, list) and len(x) == 4 and x[0] == "bp" and isinstance(x[1], str)
                and re.search(r"\W", x[1]) is not None and x[3] in ("literal_execute", "expanding"))


def _m_rescan(c, w):
    import re

    g = _sig(w)
    if g["exc"] != "KeyError":
        return False
    if not (g["where"].endswith(":<lambda>") or g["where"].endswith("_process_parameters_for_postcompile")
            or g["where"].endswith("_process_positional") or g["where"].endswith("_process_numeric")):
        return False
    m = re.match(r"'(\w+)'", g["msg"])
    return bool(m) and any("%(" + m.group(1) + ")s" in st for st in _strings(c["src"]))


def _m_mssql_labelref(c, w):
    g = _sig(w)
    return (g["exc"] == "AssertionError" and "textual label reference" in g["msg"] and g["dv"].startswith("mssql")
            and _has(c["src"], lambda x: isinstance(x, list) and len(x) == 2 and x[0] == "labelref"))


def _m_foreign_type(c, w):
    import re

    g = _sig(w)
    return (g["exc"] in ("AttributeError", "TypeError") and _foreign_type(c)
            and (re.search(r"dialects/\w+/base\.py:visit_[A-Z_0-9]+$", g["where"]) is not None or g["where"].endswith("constructor_copy")))


def _m_foreign_on_conflict(c, w):
    g = _sig(w)
    return (g["exc"] == "AttributeError" and g["where"].endswith("_on_conflict_target") and g["dv"].startswith("postgresql")
            and _has(c["src"], lambda x: isinstance(x, dict) and (x.get("on_conflict") or [None])[0] == "sqlite"))


def _m_mssql_comment(c, w):
    g = _sig(w)
    return (g["exc"] == "AttributeError" and g["where"].endswith("mssql/base.py:_schema_elements") and g["dv"].startswith("mssql")
            and _ddl(c) is not None and not _ddl(c)[2].get("schema"))


def _m_noansi(c, w):
    g = _sig(w)
    return g["exc"] == "AttributeError" and "_OuterJoinColumn" in g["msg"] and g["dv"] == "oracle-noansi"


def _m_nodispatch(c, w):
    g = _sig(w)
    return g["exc"] == "AttributeError" and "_compiler_dispatch" in g["msg"] and "TupleType" in _strings(c["src"])


def _m_aggstr(c, w):
    g = _sig(w)
    return (g["exc"] == "TypeError" and "visit_aggregate_strings_func" in g["msg"] and g["dv"].startswith("default")
            and "aggregate_strings" in _strings(c["src"]))


def _m_dropix_notable(c, w):
    g = _sig(w)
    return (g["exc"] == "AttributeError" and g["where"].endswith("format_table") and "NoneType" in g["msg"] and _ddl(c) is not None
            and _ddl(c)[1] in ("drop_index", "drop_all") and any(not x[2] for x in _indexes(c))
            and FAMILY(c["dv"]) in ("mssql", "mysql", "mariadb"))


def _m_mysql_ixlen(c, w):
    g = _sig(w)
    return (g["exc"] == "AttributeError" and ("UnaryExpression" in g["msg"] or "BinaryExpression" in g["msg"])
            and FAMILY(c["dv"]) in ("mysql", "mariadb")
            and any(isinstance(x[3].get("mysql_length", x[3].get("mariadb_length")), dict) and x[4] in ("desc", "expr", "binary") for x in _indexes(c)))


def _m_sqlite_where_str(c, w):
    g = _sig(w)
    return (g["exc"] == "AttributeError" and "'str' object has no attribute '_compiler_dispatch'" in g["msg"] and g["dv"].startswith("sqlite")
            and any(isinstance(x[3].get("sqlite_where"), str) for x in _indexes(c)))


def _m_mysql_forupdate_schema(c, w):
    g = _sig(w)
    return (g["exc"] == "TypeError" and "use_schema" in g["msg"] + w and FAMILY(c["dv"]) in ("mysql", "mariadb")
            and _has(c["src"], lambda x: isinstance(x, dict) and x.get("on_duplicate") == "forupdate"))


def _is_multitable_dml(x):
    return isinstance(x, list) and len(x) == 2 and x[0] in ("update", "delete") and isinstance(x[1], dict) and x[1].get("from")


def _m_mssql_multitable_cte(c, w):
    g = _sig(w)
    if not (g["exc"] == "TypeError" and "multiple values" in g["msg"] + w and g["dv"].startswith("mssql")):
        return False
    # a multi-table UPDATE/DELETE that is NOT the outermost statement
    src = c["src"]
    kids = list(src[1].values()) if _is_multitable_dml(src) else src
    return _has(kids, _is_multitable_dml)


def _m_mysql_odk_nested(c, w):
    g = _sig(w)
    return (g["exc"] == "AttributeError" and g["where"].endswith("visit_on_duplicate_key_update") and "'table'" in g["msg"]
            and _has(c["src"], lambda x: isinstance(x, dict) and x.get("on_duplicate") == "unknown"))


def _m_mysql_int_option(c, w):
    g = _sig(w)
    d = _ddl(c)
    return (g["exc"] == "TypeError" and g["where"].endswith("post_create_table") and "expected str instance" in g["msg"]
            and d is not None and any(isinstance(v, int) and not isinstance(v, bool) for k, v in d[2].get("opts", {}).items() if k.startswith(("mysql_", "mariadb_"))))


def _m_raw_any(c, w):
    """hand-written witnesses carry the id of the finding they demonstrate and the exception class they expect"""
    return c["src"][0] == "raw" and bool(c.get("finding")) and _sig(w)["exc"] == c.get("exc")


MATCHERS = [
    ("C22-empty-identifier-indexerror", _m_empty_ident),
    ("C22-unnamed-index-assertionerror", _m_unnamed_index),
    ("C22-unnamed-constraint-drop-assertionerror", _m_unnamed_constraint),
    ("C22-postcompile-escaped-bindname-keyerror", _m_escaped_bind),
    ("C22-pyformat-rescan-keyerror", _m_rescan),
    ("C22-mssql-rownumber-textual-label-assertion", _m_mssql_labelref),
    ("C22-foreign-dialect-type-same-visit-name", _m_foreign_type),
    ("C22-foreign-dialect-on-conflict-attributeerror", _m_foreign_on_conflict),
    ("C22-mssql-comment-ddl-no-default-schema", _m_mssql_comment),
    ("C22-oracle-noansi-outerjoin-ilike-attributeerror", _m_noansi),
    ("C22-visitable-without-dispatch", _m_nodispatch),
    ("C22-aggregate-strings-default-dialect-typeerror", _m_aggstr),
    ("C22-drop-index-without-table-attributeerror", _m_dropix_notable),
    ("C22-mysql-index-length-dict-expression-attributeerror", _m_mysql_ixlen),
    ("C22-mssql-multitable-dml-in-cte-typeerror", _m_mssql_multitable_cte),
    ("C22-sqlite-where-string-attributeerror", _m_sqlite_where_str),
    ("C22-mysql-for-update-of-use-schema-typeerror", _m_mysql_forupdate_schema),
    ("C22-mysql-on-duplicate-nested-warning-attributeerror", _m_mysql_odk_nested),
    ("C22-mysql-integer-table-option-typeerror", _m_mysql_int_option),
]


def match_finding(c, what):
    if _m_raw_any(c, what):
        return c["finding"]
    for fid, fn in MATCHERS:
        try:
            if fn(c, what):
                return fid
        except Exception:
            continue
    return None
