"""C22 - generative compile fuzz (oracle only; not compared with the Coq model)."""


def gen(rng, n):
    return []


def nontrivial(c):
    return True


def impl(c):
    return [0]


def oracle(c, obs):
    return None


def match_finding(c, what):
    return None
